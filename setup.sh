#!/bin/bash
# Builds the whole Coq development (full .vo build) from the files on disk. Offline.
set -e
HERE="$(cd "$(dirname "${BASH_SOURCE[0]}")" && pwd)"
cd "$HERE/coq"
{ echo "-Q . ONL"; find . -name '*.v' -not -path './Cases/*' | sed 's|^\./||' | sort; } > _CoqProject
coq_makefile -f _CoqProject -o Makefile
timeout 3000 make -j16
