#!/bin/bash
# Builds the whole Coq development (full .vo build) from the files on disk. Offline.
# A file that fails to build does not stop the others (-k): every check rebuilds the closure of its own
# Props files and reports a broken file as a broken obligation of the properties that depend on it.
HERE="$(cd "$(dirname "${BASH_SOURCE[0]}")" && pwd)"
cd "$HERE/coq" || exit 1
{ echo "-Q . ONL"; find . -name '*.v' -not -path './Cases/*' | sed 's|^\./||' | sort; } > _CoqProject
coq_makefile -f _CoqProject -o Makefile || exit 1
timeout 3000 make -k -j16 > "$HERE/.setup.log" 2>&1
rc=$?
tail -3 "$HERE/.setup.log"
if [ $rc -ne 0 ]; then echo "setup: some files did not build (see .setup.log); the checks that need them will say so"; fi
exit 0
