"""Part 'mq' -- the multi-queue schedulers SP, RR, WRR (onl/scheduler/{base,sp,rr,wrr}.py) and the scheduler Monitor
(onl/scheduler/monitor.py).  Serves C12 (work-conserving, one at a time, rate-exact, per-flow FIFO, counters, monitor
samples), C13 (SP strict priority), C15 (RR / WRR visiting order) and C08 (conservation).

Model: coq/Elem/SchedBase.v (one executable automaton for put(), the per-flow stores, the wake-up token store, the
send_packet child and the pass/cursor run() loop) instantiated by coq/Elem/SP.v, RR.v, WRR.v.

Case:  {"kind": "sp"|"rr"|"wrr"|"schedmon", "sched": "sp"|"rr"|"wrr", "rate": int, "classes": [[class, prio|weight|1], ...]
        (declaration order), "cmap": None | [[flow, class], ...] (SP only: flow2class, several flows per class), "workload": elem_common workload, "pre": [bool per driver] (driver created before the
        scheduler), "monitor": None | {"dist": ["n/d", ...], "included": bool}}
Log -> actions:  put -> SPut p;  Initialize run -> SInit;  StorePut of the token store / of store f -> SStoreCb None / (Some f);
        StoreGet of the token store / of store f -> SGetDone None / (Some f);  Initialize send_packet -> SChildInit;
        Timeout send_packet -> SChildTimer;  Process(send_packet) -> SChildEnd;  Timeout of the Monitor -> SSample incl.
"""
from fractions import Fraction

from vlib import coqfmt as cf
from props import elem_common as ec

FAR = 1 << 20          # the Monitor's script is exhausted: next sample beyond every horizon
HORIZON = 1 << 12


class MQHarness(ec.Harness):
    """names the kernel Stores of a MultiQueueScheduler (created lazily by a defaultdict) when their events are processed"""

    def classify(self, ev):
        res = getattr(ev, "resource", None)
        s = self.element
        if res is not None and s is not None:
            tn = type(ev).__name__
            if res is s.packets_available:
                return [tn, "tok"]
            for f, st in list(s.stores.items()):
                if st is res:
                    return [tn, "f:%d" % f]
        return super().classify(ev)


class MQ2Harness(ec.Harness):
    """several MultiQueueSchedulers in one Environment: kernel Stores are named per instance ('tok@A', 'f:3@B')"""
    insts = ()
    tags = ()

    def classify(self, ev):
        res = getattr(ev, "resource", None)
        if res is not None:
            tn = type(ev).__name__
            hits = []
            for s, tag in zip(self.insts, self.tags):
                if res is s.packets_available:
                    hits.append("tok@" + tag)
                for f, st in list(s.stores.items()):
                    if st is res:
                        hits.append("f:%d@%s" % (f, tag))
            if hits:
                return [tn, "|".join(hits)]        # more than one hit = a Store shared by two instances
        return super().classify(ev)


class CounterTap(ec.Tap):
    """the next hop: at the moment its put() is called it reads the scheduler's public counters (as a downstream element
    that looks at the occupancy of its upstream scheduler would); the reading is appended to the logged output"""

    def __init__(self, h, tag, box, idx, flows):
        super().__init__(h, tag)
        self.box, self.idx, self.flows = box, idx, flows

    def put(self, p):
        s = self.box[self.idx]
        snap = [[[f, s.queue_count.get(f, 0), s.queue_byte_size.get(f, 0)] for f in self.flows], s.total_packets]
        uid = getattr(p, "uid", None)
        self.got.append(p)
        self.h._emit(["out", self.tag, uid, ec.pkt_fields(p), id(p) == id(self.h.packets.get(uid)), snap])


class Lazy:
    """target of a driver created before its scheduler exists"""

    def __init__(self, box, i):
        self.box, self.i = box, i

    def put(self, p):
        return self.box[self.i].put(p)


UID_STRIDE = 500


class DistScript:
    def __init__(self, vals):
        self.vals = [ec.T(v) for v in vals]
        self.n = 0

    def __call__(self):
        if self.n >= len(self.vals):
            return float(FAR)
        v = self.vals[self.n]
        self.n += 1
        return v


def cfg_classes(case):
    out = []
    for f, _ in case["classes"]:
        if f not in out:
            out.append(f)
    return sorted(out)


def cfg_flows(case):
    """the flows whose counters are observed: the domain of the class map, or (identity map) the classes"""
    if case.get("cmap"):
        return sorted({f for f, _ in case["cmap"]})
    return cfg_classes(case)


def class_of(case):
    m = {f: k for f, k in (case.get("cmap") or [])}
    return lambda f: m.get(f, f)


class Hang(Exception):
    pass


def _hang(signum, frame):
    raise Hang("run() loops without yielding")


# ------------------------------------------------------------------------------------------------
# second tie (DESIGN 2.6): Scheduler.add_packet_to_queue, MultiQueueScheduler.put (RR, WRR), SP.put and the per-flow
# sampling statements of Monitor.run translated from the tree under test on every run (vlib/translate.py, fail closed)
# into coq/Gen/Extracted_mq.v / Extracted_schedmon.v; bridged to the SPut / SSample steps of Elem/SchedBase.v by
# coq/Elem/SchedBridge.v, SchedMonBridge.v; obligations in Props/C12_BridgeMQ.v, C12_BridgeMon.v.  Residue: Monitor's `for flow_id in all_flows()` loop
# itself (which flows, in which order) is not translated, only its body for one flow; self.total_packets (a sum over a
# dict) is an observation.

MQ_STATE = [("packets_received", "Z"), ("queue_count", "mapZ"), ("queue_byte_size", "mapZ")]
MQ_CONS = [("FxToken", ""),                          # self.packets_available.put(True)
           ("FxStorePut", "(k : Z)")]                # self.stores[k].put(packet)
MQ_FX = [("self.packets_available.put(True)", "FxToken", []),
         ("self.stores[_1].put(packet)", "FxStorePut", ["Z"])]
MQ_READS = [("packet.flow_id", "flow_id", "Z"),
            ("packet.size", "size", "Z"),
            ("self.flow2class(flow_id)", "class_id", "Z"),
            ("self.total_packets", "total_packets", "Z", "stale_on:queue_count")]   # sum(self.queue_count.values())
MON_CONS = [("FxSize", "(f : Z) (n : Z)"),           # self.sizes[f].append(n)
            ("FxByteSize", "(f : Z) (b : Z)")]       # self.byte_sizes[f].append(b)
MON_FX = [("self.sizes[_1].append(_2)", "FxSize", ["Z", "Z"]),
          ("self.byte_sizes[_1].append(_2)", "FxByteSize", ["Z", "Z"])]
MON_READS = [("flow_id", "flow_id", "Z"),                                    # the loop variable
             ("self.scheduler.size(flow_id)", "count", "Z"),
             ("self.scheduler.byte_size(flow_id)", "bytes", "Z"),
             ("self.service_included", "service_included", "bool"),
             ("service_pkt", "in_service", "optobj", "needs:service_pkt"),    # None or a Packet
             ("service_pkt.flow_id", "service_flow", "Z", "needs:service_pkt"),
             ("service_pkt.size", "service_size", "Z", "needs:service_pkt")]
MON_ALIASES = [("service_pkt = self.scheduler.packet_in_service", "service_pkt")]


def extracted_mq(repo):
    import os
    from vlib import translate as tr
    base = os.path.join(repo, "onl", "scheduler", "base.py")
    inl = [("add_packet_to_queue", base, "Scheduler")]
    specs = [tr.FnSpec(base, "Scheduler", "add_packet_to_queue", "gen_Scheduler_add_packet_to_queue", reads=MQ_READS[:2]),
             tr.FnSpec(base, "MultiQueueScheduler", "put", "gen_MultiQueueScheduler_put", reads=MQ_READS, effects=MQ_FX, inline=inl),
             tr.FnSpec(os.path.join(repo, "onl", "scheduler", "sp.py"), "SP", "put", "gen_SP_put", reads=MQ_READS, effects=MQ_FX,
                       inline=inl)]
    return tr.gen_module("onl/scheduler/base.py: Scheduler.add_packet_to_queue, MultiQueueScheduler.put; onl/scheduler/sp.py: SP.put "
                         "(add_packet_to_queue in place)", "mq_st", "m_", MQ_STATE, "mq_fx", MQ_CONS, specs)


SPINIT_CONS = [("FxBaseInit", ""),                                   # super().__init__(env, rate, flow2class, debug)
               ("FxSortPriorities", "(key_index : Z) (reverse : bool)"),  # self.priorities = sorted(priorities.items(), key=lambda item: item[k], reverse=r)
               ("FxStartRun", "")]                                   # self.proc = env.process(self.run(env))
SPINIT_FX = [("super().__init__(env, rate, flow2class, debug)", "FxBaseInit", []),
             ("self.priorities = sorted(priorities.items(), key=lambda item: item[_1], reverse=_2)", "FxSortPriorities", ["Z", "bool"]),
             ("self.proc = env.process(self.run(env))", "FxStartRun", [])]


def extracted_spinit(repo):
    """SP.__init__ (C13): the scan order of run() is fixed here"""
    import os
    from vlib import translate as tr
    spec = tr.FnSpec(os.path.join(repo, "onl", "scheduler", "sp.py"), "SP", "__init__", "gen_SP_init", effects=SPINIT_FX)
    return tr.gen_module("onl/scheduler/sp.py: SP.__init__", None, "", [], "spinit_fx", SPINIT_CONS, [spec])


def extracted_schedmon(repo):
    import os
    from vlib import translate as tr
    spec = tr.FnSpec(os.path.join(repo, "onl", "scheduler", "monitor.py"), "Monitor", "run", "gen_Monitor_sample_flow",
                     reads=MON_READS, effects=MON_FX, aliases=MON_ALIASES, select="sample_loop_body")
    return tr.gen_module("onl/scheduler/monitor.py: Monitor.run, the statements for ONE flow_id of the loop after each `yield`",
                         None, "", [], "schedmon_fx", MON_CONS, [spec])


# Scheduler.send_packet, the child PROCESS every multi-queue scheduler starts per packet (a generator: cut at its yield by
# vlib/translate_gen.py): Gen/Extracted_sendpacket_run.v; bridged to the SChildInit / SChildTimer steps of Elem/SchedBase.v by
# coq/Elem/SchedRunBridge.v; obligations in Props/C12_BridgeRun.v
SENDP_STATE = [("queue_count", "mapZ"), ("queue_byte_size", "mapZ")]
SENDP_READS = [("packet.size", "size", "Z"), ("packet.flow_id", "flow", "Z"), ("self.rate", "rate", "Q"),
               ("self.out", "out_set", "optobj")]
SENDP_FX = [("self.current_packet = packet", "FxSetCurrent", []), ("self.current_packet = None", "FxClearCurrent", []),
            ("self.out.put(packet)", "FxOutPut", [])]
# FxOutPut carries what the next hop can see of the scheduler inside its put(): the counters of the packet's flow
SENDP_SEES = {"FxOutPut": ["self.queue_count[packet.flow_id]", "self.queue_byte_size[packet.flow_id]"]}
SENDP_FX_CONS = [("FxSetCurrent", ""), ("FxClearCurrent", ""), ("FxOutPut", "(count_of_flow : Z) (bytes_of_flow : Z)")]
SENDP_REQUESTS = [("self.env.timeout(_1)", "RqTimeout", ["Q"], None), ("env.timeout(_1)", "RqTimeout", ["Q"], None)]


def extracted_sendpacket_run(repo):
    import os
    from vlib import translate_gen as tg
    spec = tg.GenSpec(os.path.join(repo, "onl", "scheduler", "base.py"), "Scheduler", "send_packet", "gen_Scheduler_send_packet",
                      reads=SENDP_READS, effects=SENDP_FX, requests=SENDP_REQUESTS, objects=["packet"], param_objects=["packet"],
                      sees=SENDP_SEES)
    return tg.gen_run_module("onl/scheduler/base.py: Scheduler.send_packet", spec, SENDP_STATE, "sendp_st", "sd_", "sendp_fx",
                             SENDP_FX_CONS, [("RqTimeout", "(d : Q)")], types="sendp")


class MQPart:
    name = "mq"
    kinds = ["sp", "rr", "wrr", "schedmon", "mq2", "mqfloat"]
    serves = ["C12", "C13", "C15", "C08"]
    weight = 3
    coq_imports = ["From ONL Require Import Base.Cmp Elem.Packet Elem.StoreQ Elem.SchedBase Elem.SP Elem.RR Elem.WRR."]
    props_files = {"C12": ["Props/C12_MQ.v", "Props/C12_BridgeMQ.v", "Props/C12_BridgeMon.v", "Props/C12_BridgeRun.v"], "C13": ["Props/C13.v", "Props/C13_Bridge.v", "Props/C13_BridgeRun.v"], "C15": ["Props/C15_RR.v", "Props/C15_BridgeRun.v", "Props/C15_BridgeRunWRR.v"],
                   "C08": ["Props/C08_MQ.v"]}

    # ---- second tie: regenerate the translated bodies before the Coq build (fail closed) ----------------
    def pre_build(self, prop_id):
        import os
        from vlib import framework as fw
        from vlib import translate as tr
        if prop_id == "C13":
            tr.write_if_changed(os.path.join(fw.COQ, "Gen", "Extracted_spinit.v"), extracted_spinit(fw.REPO))
            from props import sched_tie
            sched_tie.write_if_changed(fw.COQ, "Extracted_sp_run.v", sched_tie.extracted_sp_run(fw.REPO))
        if prop_id == "C15":
            from props import sched_tie
            sched_tie.write_if_changed(fw.COQ, "Extracted_rr_run.v", sched_tie.extracted_rr_run(fw.REPO))
            sched_tie.write_if_changed(fw.COQ, "Extracted_wrr_run.v", sched_tie.extracted_wrr_run(fw.REPO))
        if prop_id != "C12":
            return
        tr.write_if_changed(os.path.join(fw.COQ, "Gen", "Extracted_mq.v"), extracted_mq(fw.REPO))
        tr.write_if_changed(os.path.join(fw.COQ, "Gen", "Extracted_schedmon.v"), extracted_schedmon(fw.REPO))
        tr.write_if_changed(os.path.join(fw.COQ, "Gen", "Extracted_sendpacket_run.v"), extracted_sendpacket_run(fw.REPO))

    _gen = ("1-5 configured flows, SP priorities / WRR weights from small sets (equal priorities frequent), for SP in half of "
            "the cases a many-to-one flow2class map (1-3 classes, class ids different from the flow ids), RR flow lists "
            "(occasionally with a repeated flow), rates 2^9..2^16 bit/s with sizes so that 8*size/rate is dyadic and "
            "transmission ends fall on the arrival lattice, 1-3 driver processes with bursts, idle gaps and `late` "
            "zero-delay yields, each driver created before or after the scheduler, optional Monitor with a scripted "
            "sampling distribution and both service_included settings; kind mq2 (12%): TWO scheduler instances (same or mixed "
            "types) in one Environment with interleaved workloads over shared flow / class ids, each replayed against its own "
            "copy of the model, plus the independence monitor instances-interfere; in 10% of the cases the scheduler has no "
            "next hop (out = None): departures are then observed only through counters, current_packet and Monitor samples; "
            "Monitor scripts end with 1-3 samples in the idle period after the last busy period; in 15% of the cases LATE "
            "CONFIGURATION: the scheduler is constructed with another rate (and, SP, debug=True / default flow2class) and the "
            "public attributes rate / debug / flow2class are assigned before any traffic; the tap behind the scheduler reads "
            "queue_count / queue_byte_size / total_packets inside its put() (sched-counters-at-forward, also compared in the "
            "correspondence); for C12 5% float-mode cases (kind mqfloat, monitor only): rate not a power of two, burst at "
            "t = 0, every departure must be the binary64 value now + size * 8.0 / rate")
    nontrivial_rule = {
        "C12": _gen + "; non-trivial = at least 3 packets and some packet had to wait for an earlier transmission; distinct by hash",
        "C13": _gen + " (SP only); non-trivial = at some service decision classes of at least two priority levels were backlogged; distinct by hash",
        "C15": _gen + " (RR, WRR only); non-trivial = at some service decision at least two classes were backlogged; distinct by hash",
        "C08": _gen + "; non-trivial = at least 3 packets of at least 2 flows; distinct by hash",
    }
    _tb = ["float rounding is outside the theorems: generated rates are powers of two and times dyadic, so every float "
           "the scheduler computes (8.0*size/rate, deadlines) is exact and compared exactly",
           "admissibility of the real kernel's interleaving for run()/send_packet is checked on every observed execution "
           "(each logged kernel step must be an enabled action of the model), not proved",
           "the Monitor's dist() is replaced by a scripted sequence; its process is renamed so the harness can tell its "
           "events from the scheduler's"]
    _tie = ["vlib/translate.py (Python ast, fail closed; tables above the part class in props/part_mq.py) regenerates "
            "coq/Gen/Extracted_mq.v and Extracted_schedmon.v from Scheduler.add_packet_to_queue, MultiQueueScheduler.put, SP.put and "
            "the per-flow statements of Monitor.run of the tree under test before every build; the C12_gen_* theorems "
            "(Props/C12_BridgeMQ.v, C12_BridgeMon.v) bridge them to the SPut / SSample steps of the hand-written model; Monitor's loop over "
            "all_flows() itself is not translated",
            "vlib/translate_gen.py (generator bodies cut at their yields, fail closed; tables SENDP_* in props/part_mq.py) regenerates "
            "coq/Gen/Extracted_sendpacket_run.v from Scheduler.send_packet (the child process of SP / RR / WRR) before every build; the "
            "C12_gen_send_packet_* theorems (Props/C12_BridgeRun.v, proofs Elem/SchedRunBridge.v) prove SChildInit / SChildTimer of the "
            "automaton equal to the generated functions; the run() bodies of SP / RR / WRR (for-loops over the class table that cross "
            "yields) are not translated: correspondence only"]
    _tie13 = ["vlib/translate.py (Python ast, fail closed) regenerates coq/Gen/Extracted_spinit.v from SP.__init__ of the tree under test "
              "before every build; C13_gen_sp_init (Props/C13_Bridge.v) bridges the sorted(...) line to the scan order of the model "
              "(Python's sorted is taken as a stable sort)",
              "vlib/translate_gen.py (generator bodies cut at their yields; for-loops over a table become structural fixes over the "
              "remaining table; tables in props/sched_tie.py) regenerates coq/Gen/Extracted_sp_run.v from SP.run before every build; the "
              "C13_gen_sp_run_* theorems (Props/C13_BridgeRun.v, proofs Elem/SPScanBridge.v) prove SInit / SGetDone / SChildEnd of the "
              "automaton (state component; the OVisit outputs are ghosts) equal to the generated functions, by induction over the table"]
    _tie15 = ["vlib/translate_gen.py (generator bodies cut at their yields; for-loops over a table become structural fixes over the "
              "remaining table, carried in the frames of the program points inside the loop; tables in props/sched_tie.py) regenerates "
              "coq/Gen/Extracted_rr_run.v / Extracted_wrr_run.v from RR.run / WRR.run before every build; the C15_gen_rr_run_* / "
              "C15_gen_wrr_run_* theorems (Props/C15_BridgeRun.v, C15_BridgeRunWRR.v, proofs Elem/RRScanBridge.v, WRRScanBridge.v) prove "
              "SInit / SGetDone / SChildEnd of the automaton (state component; OVisit outputs are ghosts) equal to the generated functions, "
              "by induction over the table; `assert store` is taken as true (a Store exists for every configured flow)"]
    trusted_base = {"C12": _tb + _tie, "C13": _tb + _tie13, "C15": _tb + _tie15, "C08": _tb}
    _as = ["workloads contain only packets of flows whose class is configured (SP: flow2class(flow) is a key of the priority "
           "table; RR/WRR: the flow is listed) with size >= 0, rate > 0 (a packet of an unconfigured class makes run() spin "
           "without yielding: outside C12's domain)",
           "SP's flow2class is any function (several flows per class); RR and WRR have no class map (identity)",
           "SP priorities and WRR weights are positive integers (sp.py skips prio <= 0, range(weight) is empty for weight <= 0)"]
    assumptions = {
        "C12": _as, "C15": _as, "C08": _as,
        "C13": _as + ["'waiting at that instant' is read with the kernel's order inside an instant: the scheduler commits to "
                      "a packet when run() dequeues it (store.get() granted at once); the transmission timer starts two kernel "
                      "steps later in the same instant.  sp_strict speaks about the commit; sp_strict_at_start shows that a "
                      "higher-priority packet present when the timer starts arrived at that very instant, after the commit"],
    }
    partial = {}

    # ---- generation -----------------------------------------------------------------------------
    def gen_case(self, rng, tier, prop_id):
        if rng.random() < 0.12:
            # two scheduler instances (also of different types) in ONE Environment, sharing flow / class ids
            pool = {"C13": ["sp"], "C15": ["rr", "wrr"]}.get(prop_id, ["sp", "rr", "wrr"])
            a = rng.choice(pool)
            b = rng.choice(["sp", "rr", "wrr"] if rng.random() < 0.5 else pool)
            nfl = rng.choice([1, 2, 2, 3, 4])
            flows = rng.sample(range(0, 7), nfl)
            subs = [self._gen_one(rng, x, x, flows, n_max=rng.choice([4, 6, 8])) for x in (a, b)]
            if rng.random() < 0.5:
                subs[1]["rate"] = subs[0]["rate"]
            return {"kind": "mq2", "inst": subs}
        if prop_id == "C12" and rng.random() < 0.05:
            return self._gen_float(rng, rng.choice(["sp", "rr", "wrr"]))
        if prop_id == "C13":
            kind = rng.choice(["sp", "sp", "sp", "sp", "schedmon"])
            sched = "sp"
        elif prop_id == "C15":
            kind = rng.choice(["rr", "wrr", "wrr"])
            sched = kind
        elif prop_id == "C08":
            kind = rng.choice(["sp", "rr", "wrr"])
            sched = kind
        else:
            kind = rng.choice(["sp", "rr", "wrr", "schedmon", "schedmon"])
            sched = kind if kind != "schedmon" else rng.choice(["sp", "rr", "wrr"])
        nfl = rng.choice([1, 2, 2, 3, 3, 4, 5])
        flows = rng.sample(range(0, 7), nfl)
        return self._gen_one(rng, kind, sched, flows)

    def _gen_one(self, rng, kind, sched, flows, n_max=None):
        nfl = len(flows)
        cmap = None
        if sched == "sp":
            pset = rng.choice([[1, 2], [1, 2, 3], [1, 2, 3], [1, 5, 10], [2, 2, 7]])
            if rng.random() < 0.5:
                # flow2class: several flows per class; class ids differ from flow ids in general
                ncl = rng.randint(1, min(3, nfl))
                ids = rng.sample(rng.choice([range(0, 7), range(10, 14)]), ncl)
                cmap = [[f, ids[i] if i < ncl else rng.choice(ids)] for i, f in enumerate(flows)]
                classes = [[k, rng.choice(pset)] for k in ids]
                rng.shuffle(classes)
            else:
                classes = [[f, rng.choice(pset)] for f in flows]
        elif sched == "wrr":
            classes = [[f, rng.choice([1, 1, 2, 2, 3])] for f in flows]
        else:
            fl = list(flows)
            if rng.random() < 0.12:
                fl.insert(rng.randrange(len(fl) + 1), rng.choice(flows))
            classes = [[f, 1] for f in fl]
        rate = rng.choice([512, 1024, 1024, 2048, 4096, 4096, 8192, 65536])
        sizes = rng.choice([(64, 128, 256, 512), (64, 128, 256, 512, 1000, 1500), (128,), (64, 256)])
        w = ec.gen_workload(rng, flows=tuple(flows), n_max=n_max or rng.choice([6, 10, 14]), sizes=sizes,
                            burst_p=rng.choice([0.35, 0.6, 0.8]))
        pre = [rng.random() < 0.3 for _ in w["drivers"]]
        mon = None
        # no next hop: `scheduler.out = None` (send_packet guards with `if self.out:`); the packets then leave the simulation
        # at the end of their transmission and are observed only through counters, current_packet and Monitor samples
        noout = rng.random() < 0.1
        if noout and kind in ("sp", "rr", "wrr") and rng.random() < 0.6:
            kind = "schedmon"
        if kind == "schedmon":
            lat = [Fraction(1, 4), Fraction(1, 2), Fraction(1), Fraction(1), Fraction(3, 2), Fraction(2), Fraction(3)]
            if rng.random() < 0.2:
                lat = lat + [Fraction(0)]
            dist = [rng.choice(lat) for _ in range(rng.randint(3, 12))]
            # samples in the idle period after the last busy period
            dist += [rng.choice([Fraction(4), Fraction(8), Fraction(16), Fraction(32)]) for _ in range(rng.randint(1, 3))]
            mon = {"dist": [cf.qjson(d) for d in dist], "included": rng.random() < 0.5}
        # late configuration: public attributes that run()/send_packet/put read on every use (rate, debug, flow2class; out
        # is always assigned after construction) are given other values at construction and assigned before any traffic
        late = None
        if rng.random() < 0.15:
            attrs = ["rate"]
            if sched == "sp":
                if rng.random() < 0.5:
                    attrs.append("debug")
                if cmap and rng.random() < 0.7:
                    attrs.append("flow2class")
            late = {"attrs": attrs, "rate0": rng.choice([r for r in (256, 1024, 4096, 32768, 1000, 8000) if r != rate])}
        return {"kind": kind, "sched": sched, "rate": rate, "classes": classes, "cmap": cmap, "workload": w, "pre": pre,
                "monitor": mon, "noout": noout, "late": late}

    def _gen_float(self, rng, sched):
        """float mode (monitor only): a rate that is not a power of two; one flow, a burst at t = 0; the k-th departure must
        be the binary64 value the documented formula gives: now + size * 8.0 / rate, evaluated as Python evaluates it"""
        f = rng.randrange(0, 7)
        rate = rng.choice([8000, 8000, 1000, 3000, 10000, 56000, 1000000])
        n = rng.randint(1, 4)
        sizes = [rng.choice([43, 51, 59, 71, 100, 333, 1000, 1500, 64, 7]) for _ in range(n)]
        packets = {str(i): {"id": i + 1, "flow": f, "size": sz, "time": "0/1", "src": "src0"} for i, sz in enumerate(sizes)}
        classes = [[f, 1]]
        return {"kind": "mqfloat", "sched": sched, "rate": rate, "classes": classes, "cmap": None,
                "workload": {"packets": packets, "drivers": [{"late": 0, "bursts": [["0/1", list(range(n))]]}]},
                "pre": [rng.random() < 0.3], "monitor": None, "noout": False, "late": None}

    # ---- implementation -------------------------------------------------------------------------
    def run_impl(self, case):
        if case["kind"] == "mq2":
            return self._run_many(case["inst"])
        return self._run_one(case)

    @staticmethod
    def _make(env, case):
        rate, classes = case["rate"], case["classes"]
        late = case.get("late") or {}
        la = late.get("attrs") or []
        rate0 = late["rate0"] if "rate" in la else rate
        if case["sched"] == "sp":
            from onl.scheduler.sp import SP
            kw = {}
            m = None
            if case.get("cmap"):
                m = {f: k for f, k in case["cmap"]}
                if "flow2class" not in la:
                    kw["flow2class"] = lambda f, m=m: m[f]
            if "debug" in la:
                kw["debug"] = True
            s = SP(env, rate0, {k: p for k, p in classes}, **kw)
            if "flow2class" in la:
                s.flow2class = lambda f, m=m: m[f]
            if "debug" in la:
                s.debug = False
        elif case["sched"] == "rr":
            from onl.scheduler.rr import RR
            s = RR(env, rate0, [f for f, _ in classes])
        else:
            from onl.scheduler.wrr import WRR
            s = WRR(env, rate0, {f: wt for f, wt in classes})
        if "rate" in la:
            s.rate = rate              # the link speed is (re)configured before any traffic
        return s

    def _run_many(self, subs):
        """several instances in one Environment -> per instance an observation in the single-instance format (global clock
        moves + its own put/step entries, sampled on its own public state) + interference notes"""
        import contextlib
        import io
        import signal
        import time
        from onl.sim import Environment
        env = Environment()
        h = MQ2Harness(env)
        n = len(subs)
        tags = ["A", "B", "C"][:n]
        box = [None] * n
        for i, c in enumerate(subs):
            h.add_packets({str(int(u) + UID_STRIDE * i): spec for u, spec in c["workload"]["packets"].items()})

        def bursts_of(i, d):
            return [[t, [u + UID_STRIDE * i for u in uids]] for t, uids in d["bursts"]]
        for i, c in enumerate(subs):
            pre = c.get("pre") or [False] * len(c["workload"]["drivers"])
            for d, p in zip(c["workload"]["drivers"], pre):
                if p:
                    h.add_driver(bursts_of(i, d), late=d["late"], target=Lazy(box, i))
        sink = io.StringIO()
        interfere = []
        with contextlib.redirect_stdout(sink):
            for i, c in enumerate(subs):
                s = self._make(env, c)
                s.out = None if c.get("noout") else CounterTap(h, "out@" + tags[i], box, i, cfg_flows(c))
                s.proc._generator.__name__ = "run@" + tags[i]
                orig = s.send_packet

                def send_packet(packet, orig=orig, tag=tags[i]):
                    g = orig(packet)
                    g.__name__ = "send_packet@" + tag
                    return g
                s.send_packet = send_packet
                box[i] = s
            h.insts, h.tags = tuple(box), tuple(tags)
            h.attach(box[0])
            flows = [cfg_flows(c) for c in subs]
            klasses = [cfg_classes(c) for c in subs]

            def sample():
                out = []
                for i, s in enumerate(box):
                    q = [[f, s.queue_count.get(f, 0), s.queue_byte_size.get(f, 0)] for f in flows[i]]
                    st = [[k, len(s.stores[k].items) if k in s.stores else 0] for k in klasses[i]]
                    cur = s.current_packet
                    cu = None if cur is None else getattr(cur, "uid", -1)
                    pub = [sorted(s.stores.keys()), sorted(s.queue_count.items()), sorted(s.queue_byte_size.items()),
                           [[k, len(v.items)] for k, v in sorted(s.stores.items())]]
                    out.append([q, cu, s.packets_received, len(s.packets_available.items), s.total_packets, [], st, pub])
                return out
            h.after_action(sample)
            for i, c in enumerate(subs):
                pre = c.get("pre") or [False] * len(c["workload"]["drivers"])
                for d, p in zip(c["workload"]["drivers"], pre):
                    if not p:
                        h.add_driver(bursts_of(i, d), late=d["late"], target=box[i])
            with ec.hang_guard(h, lambda: Hang("run() loops without yielding")):   # per-step, repeating (see elem_common)
                log = h.run(max_steps=40000, until=HORIZON)
        # ---- split the global log
        logs = [[] for _ in range(n)]
        prev = None

        def local(i, smp):
            q, cu, rec, tok, tot, m, st, _pub = smp
            if cu is not None:
                if cu // UID_STRIDE != i:
                    interfere.append(f"instances-interfere: current_packet of instance {tags[i]} is packet {cu % UID_STRIDE} of "
                                     f"instance {tags[cu // UID_STRIDE] if 0 <= cu // UID_STRIDE < n else '?'}")
                cu = cu % UID_STRIDE
            return [q, cu, rec, tok, tot, m, st]

        def strip(t):
            for tg in tags:
                t = t.replace("@" + tg, "")
            return t
        for e in log:
            kind, samples = e[0], e[-1]
            who = None
            if kind == "adv":
                for i in range(n):
                    logs[i].append(["adv", e[1], local(i, samples[i])])
            elif kind == "put":
                who = e[1] // UID_STRIDE
                logs[who].append(["put", e[1] % UID_STRIDE, e[2], local(who, samples[who])])
                if e[2]:
                    interfere.append(f"instances-interfere: put() of instance {tags[who]} forwarded {e[2]}")
            elif kind in ("step", "raise"):
                tn, tgt = e[1] if e[1] is not None else ("?", "?")
                owners = [i for i in range(n) if ("@" + tags[i]) in tgt]
                if kind == "raise" and len(owners) != 1:
                    for i in range(n):
                        logs[i].append(["raise", [tn, strip(tgt)], [], e[3], local(i, samples[i])])
                    continue
                if len(owners) != 1:
                    interfere.append(f"instances-interfere: kernel step {e[1]} belongs to {len(owners)} instances "
                                     f"(a Store or process shared between them)")
                    continue
                who = owners[0]
                outs = []
                for o in e[2]:
                    if o[1] != "out@" + tags[who]:
                        interfere.append(f"instances-interfere: a step of instance {tags[who]} delivered packet {o[2]} to tap {o[1]}")
                    if o[2] is None or o[2] // UID_STRIDE != who:
                        interfere.append(f"instances-interfere: instance {tags[who]} forwarded packet {o[2]} of another instance")
                        continue
                    outs.append([o[0], "out", o[2] % UID_STRIDE] + list(o[3:]))
                if kind == "step":
                    logs[who].append(["step", [tn, strip(tgt)], outs, local(who, samples[who])])
                else:
                    logs[who].append(["raise", [tn, strip(tgt)], outs, e[3], local(who, samples[who])])
            if prev is not None and not interfere:
                for i in range(n):
                    if i == who:
                        continue
                    names = ["queue_count/queue_byte_size", "current_packet", "packets_received", "len(packets_available.items)",
                             "total_packets", None, "store lengths", "stores keys / counter dicts"]
                    ch = [(names[j], prev[i][j], samples[i][j]) for j in (0, 1, 2, 3, 4, 6, 7) if prev[i][j] != samples[i][j]]
                    if ch:
                        interfere.append(f"instances-interfere: a {kind} action of instance {tags[who] if who is not None else '-'} "
                                         f"({e[1]}) changed {ch[0][0]} of instance {tags[i]}: {ch[0][1]} -> {ch[0][2]}")
                        break
            prev = samples
        rest = [type(e[3]).__name__ for e in env._queue]
        multi = []
        for i in range(n):
            raised = h.raised if any(x[0] == "raise" for x in logs[i]) else None
            multi.append({"log": logs[i], "raised": raised, "exhausted": not rest, "stdout": ""})
        return {"multi": multi, "interfere": interfere[:3], "raised": h.raised, "stdout": sink.getvalue()[:200]}

    def _run_one(self, case):
        import contextlib
        import io
        from onl.sim import Environment
        env = Environment()
        h = MQHarness(env)
        w = case["workload"]
        h.add_packets(w["packets"])
        pre = case.get("pre") or [False] * len(w["drivers"])
        for d, p in zip(w["drivers"], pre):
            if p:
                h.add_driver(d["bursts"], late=d["late"])
        rate = case["rate"]
        classes = case["classes"]
        flows = cfg_flows(case)
        klasses = cfg_classes(case)
        sink = io.StringIO()
        import signal
        import time
        with contextlib.redirect_stdout(sink):
            s = self._make(env, case)
            s.out = None if case.get("noout") else CounterTap(h, "out", [s], 0, flows)
            h.attach(s)
            mon = None
            dist = None
            if case.get("monitor"):
                from onl.scheduler.monitor import Monitor
                dist = DistScript(case["monitor"]["dist"])
                mon = Monitor(env, s, dist, service_included=bool(case["monitor"]["included"]))
                mon.action._generator.__name__ = "monitor_run"
            seen = {}

            def sample():
                q = [[f, s.queue_count.get(f, 0), s.queue_byte_size.get(f, 0)] for f in flows]
                st = [[k, len(s.stores[k].items) if k in s.stores else 0] for k in klasses]
                cur = s.current_packet
                m = []
                if mon is not None:
                    for f in sorted(set(mon.sizes) | set(mon.byte_sizes)):
                        a, b = mon.sizes.get(f, []), mon.byte_sizes.get(f, [])
                        k = seen.get(f, 0)
                        for i in range(k, max(len(a), len(b))):
                            m.append([f, a[i] if i < len(a) else None, b[i] if i < len(b) else None])
                        seen[f] = max(len(a), len(b))
                return [q, None if cur is None else getattr(cur, "uid", -1), s.packets_received,
                        len(s.packets_available.items), s.total_packets, m, st]
            h.after_action(sample)
            for d, p in zip(w["drivers"], pre):
                if not p:
                    h.add_driver(d["bursts"], late=d["late"])
            # a run() that loops without yielding never comes back from env.step(): bound the run ourselves
            with ec.hang_guard(h, lambda: Hang("run() loops without yielding")):   # per-step, repeating (see elem_common)
                log = h.run(max_steps=20000, until=HORIZON)
        rest = [type(e[3]).__name__ + ":" + ",".join(sorted(h.pname(getattr(cb, "__self__", None))
                                                            for cb in (e[3].callbacks or [])
                                                            if isinstance(getattr(cb, "__self__", None), h.Process)))
                for e in env._queue]
        quiescent = all(r == "Timeout:monitor_run" for r in rest)
        return {"log": log, "raised": h.raised, "exhausted": quiescent, "stdout": sink.getvalue()[:200]}

    # ---- log -> model actions -------------------------------------------------------------------
    def _cfg_term(self, case):
        rate = cf.q(case["rate"])
        cl = case["classes"]
        if case["sched"] == "sp":
            cm = cf.lst([cf.pair(cf.z(f), cf.z(k)) for f, k in (case.get("cmap") or [])])
            fl = cf.lst([cf.z(f) for f in cfg_flows(case)])
            return f"(SP.sp_cfg true {rate} (SchedBase.cls_of {cm}) {fl} {cf.lst([cf.pair(cf.z(f), cf.z(p)) for f, p in cl])})"
        if case["sched"] == "rr":
            return f"(RR.rr_cfg {rate} {cf.lst([cf.z(f) for f, _ in cl])})"
        return f"(WRR.wrr_cfg {rate} {cf.lst([cf.pair(cf.z(f), cf.z(p)) for f, p in cl])})"

    def _actions(self, case, obs):
        specs = case["workload"]["packets"]
        incl = bool(case["monitor"]["included"]) if case.get("monitor") else False
        acts = []
        for e in obs["log"]:
            kind = e[0]
            sample = e[-1]
            outs = []
            if kind == "adv":
                a = f"SchedBase.SAdvance {cf.q(e[1])}"
            elif kind == "put":
                a = f"SchedBase.SPut {ec.pkt_coq(specs[str(e[1])], e[1])}"
                outs = e[2]
            elif kind == "step":
                (tn, tgt), outs = e[1], e[2]
                if (tn, tgt) == ("Initialize", "run"):
                    a = "SchedBase.SInit"
                elif tn == "StorePut" and tgt == "tok":
                    a = "SchedBase.SStoreCb None"
                elif tn == "StorePut" and tgt.startswith("f:"):
                    a = f"SchedBase.SStoreCb (Some {cf.z(int(tgt[2:]))})"
                elif tn == "StoreGet" and tgt == "tok":
                    a = "SchedBase.SGetDone None"
                elif tn == "StoreGet" and tgt.startswith("f:"):
                    a = f"SchedBase.SGetDone (Some {cf.z(int(tgt[2:]))})"
                elif (tn, tgt) == ("Initialize", "send_packet"):
                    a = "SchedBase.SChildInit"
                elif (tn, tgt) == ("Timeout", "send_packet"):
                    a = "SchedBase.SChildTimer"
                elif (tn, tgt) == ("Process", "end:send_packet>run"):
                    a = "SchedBase.SChildEnd"
                elif (tn, tgt) == ("Initialize", "monitor_run"):
                    continue                      # the Monitor reaches its first timeout: no action of the scheduler
                elif (tn, tgt) == ("Timeout", "monitor_run"):
                    a = f"SchedBase.SSample {cf.b(incl)}"
                else:
                    return None, f"unexpected kernel step {e[1]}"
            else:
                return None, f"unexpected log entry {e[:2]}"
            fw = cf.lst([f"SchedBase.OForward {ec.pkt_coq(specs[str(x[2])], x[2])}" for x in outs])
            q, cur, rec, tok, tot, m, st = sample
            for x in outs:
                # what the next hop read at the hand-off must be the state the model is in after the action
                if len(x) > 5 and (x[5][0] != q or x[5][1] != tot):
                    return None, f"counters read by the next hop at the hand-off {x[5]} differ from the state after the action {[q, tot]}"
            if any(x[1] is None or x[2] is None for x in m):
                return None, "monitor sample lists of unequal length"
            qs = cf.lst([f"({cf.z(f)}, {cf.z(c)}, {cf.z(b)})" for f, c, b in q])
            sts = cf.lst([f"({cf.z(k)}, {cf.nat(n)})" for k, n in st])
            ms = cf.lst([f"({cf.z(f)}, {cf.z(c)}, {cf.z(b)})" for f, c, b in m])
            acts.append(f"({a}, {fw}, SchedBase.mkobs {qs} {sts} {cf.opt(cur, cf.nat)} {cf.z(rec)} {cf.nat(tok)} {cf.z(tot)} {ms})")
        return acts, None

    def agree_term(self, case, obs):
        if case["kind"] == "mqfloat":
            return None                 # binary64 times with a non-dyadic rate: outside the rational model, monitor only
        if case["kind"] == "mq2":
            if obs["interfere"]:
                return "false (* instances interfere *)"
            return "(" + ")\n  && (".join(self.agree_term(c, o) for c, o in zip(case["inst"], obs["multi"])) + ")"
        if obs["raised"]:
            return "false"
        acts, err = self._actions(case, obs)
        if acts is None:
            return f"false (* {err} *)"
        cfg = self._cfg_term(case)
        tap = cf.b(not case.get("noout"))
        return f"SchedBase.mq_agree' {tap} {cfg} (SchedBase.mq0 {cfg}) {cf.lst(acts, sep=';\n    ')}"

    def model_term(self, case):
        return None

    # ---- the properties as oracles over the implementation's behaviour ---------------------------------
    def _walk(self, case, obs):
        """independent bookkeeping from the log: arrivals, dequeues (store length drops), starts, ends, clock moves"""
        specs = case["workload"]["packets"]
        klasses = cfg_classes(case)
        cls = class_of(case)
        now = Fraction(0)
        W = {"events": [], "msgs": []}
        waiting = {k: [] for k in klasses}      # per class store: uids put and not yet dequeued, arrival order
        arrived, forwarded = [], []
        insvc = None                            # (uid, start instant)
        committed = None                        # uid dequeued, transmission not yet started
        prev_len = {k: 0 for k in klasses}
        arr_time = {}
        for idx, e in enumerate(obs["log"]):
            kind = e[0]
            if kind == "raise":
                if e[3][0] == "Hang":
                    W["msgs"].append(f"mq-hangs: run() loops without yielding while the kernel processes {e[1]} at {now} "
                                     f"({len(arrived) - len(forwarded)} packet(s) held)")
                else:
                    W["msgs"].append(f"mq-raises: {e[3]} while processing {e[1]}")
                break
            sample = e[-1]
            q, cur, rec, tok, tot, m, st = sample
            lens = {k: n for k, n in st}
            ev = {"idx": idx, "kind": kind, "now": now, "label": e[1] if kind == "step" else None, "sample": sample,
                  "waiting_before": {f: list(v) for f, v in waiting.items()}, "insvc_before": insvc,
                  "committed_before": committed, "held_before": len(arrived) - len(forwarded), "deq": None, "start": None,
                  "fwd": [], "fwd_snap": []}
            if kind == "adv":
                t = Fraction(e[1])
                ev["to"] = t
                if t < now:
                    W["msgs"].append("mq-time-decreases: clock went back")
                now = t
            elif kind == "put":
                uid = e[1]
                f = cls(specs[str(uid)]["flow"])
                arrived.append(uid)
                arr_time[uid] = now
                waiting[f].append(uid)
                ev["put"] = uid
                if e[2]:
                    W["msgs"].append(f"mq-forward-in-put: put({uid}) forwarded {e[2]}")
            if kind in ("put", "step"):
                for f in klasses:
                    exp = prev_len[f] + (1 if kind == "put" and cls(specs[str(e[1])]["flow"]) == f else 0)
                    if lens[f] == exp - 1 and kind == "step":
                        if ev["deq"] is not None:
                            W["msgs"].append("mq-two-dequeues: one kernel step dequeued from two stores")
                        if not waiting[f]:
                            W["msgs"].append(f"mq-dequeue-empty: store of class {f} shrank with nothing waiting")
                        else:
                            uid = waiting[f].pop(0)
                            ev["deq"] = (f, uid)
                            committed = uid
                    elif lens[f] != exp:
                        W["msgs"].append(f"mq-store-length: len(stores[{f}].items) = {lens[f]} after action {idx}, expected {exp}")
                    prev_len[f] = lens[f]
            if kind == "step":
                tn, tgt = e[1]
                if (tn, tgt) == ("Initialize", "send_packet"):
                    ev["start"] = cur
                    if insvc is not None:
                        W["msgs"].append(f"mq-overlap: transmission of {cur} starts while {insvc[0]} is in transmission")
                    if cur is None or cur != committed:
                        W["msgs"].append(f"mq-start-other: transmission starts with current_packet={cur}, dequeued packet was {committed}")
                    # keep following the packet run() dequeued even when current_packet does not name it (reported above)
                    insvc = (committed if committed is not None else cur, now)
                    committed = None
                ends = list(e[2])
                if case.get("noout"):
                    # no next hop: the end of a transmission is the send_packet timeout itself; the packet in service leaves
                    if e[2]:
                        W["msgs"].append(f"mq-forward-without-out: scheduler.out is None but {e[2]} was delivered")
                    ends = []
                    if (tn, tgt) == ("Timeout", "send_packet"):
                        if insvc is None:
                            W["msgs"].append(f"mq-forward-not-in-service: a transmission ends at {now} but none was started")
                        else:
                            ends = [None]
                for o in ends:
                    uid = o[2] if o is not None else insvc[0]
                    if uid is None or str(uid) not in specs:
                        W["msgs"].append(f"mq-forward-unknown: a transmission ends at {now} with a packet the workload does not contain "
                                         f"(uid {uid}; in service: {insvc})")
                        insvc = None
                        continue
                    ev["fwd"].append(uid)
                    forwarded.append(uid)
                    if o is not None and len(o) > 5:
                        ev["fwd_snap"].append((uid, o[5]))
                    sp = specs.get(str(uid))
                    if o is not None and (sp is None or not o[4] or o[3][:2] != [sp["id"], sp["flow"]] or o[3][3] != sp["size"]
                                          or Fraction(o[3][4]) != Fraction(sp["time"]) or o[3][2] != sp.get("src", "s")):
                        W["msgs"].append(f"mq-packet-altered: packet {uid} forwarded as {o[3]} same-object={o[4]}")
                    if insvc is None or insvc[0] != uid:
                        W["msgs"].append(f"mq-forward-not-in-service: packet {uid} forwarded at {now} while in service: {insvc}")
                    else:
                        due = insvc[1] + Fraction(8 * sp["size"], case["rate"])
                        if case["kind"] == "mqfloat":
                            # binary64: the instant the kernel computes from the documented delay size * 8.0 / rate
                            due = Fraction(float(insvc[1]) + sp["size"] * 8.0 / case["rate"])
                        if now != due:
                            W["msgs"].append(f"mq-tx-time: packet {uid} (size {sp['size']}) started {insvc[1]} ended {now}, "
                                             f"expected {due} = start + 8*size/rate")
                    insvc = None
            ev["insvc_after"] = insvc
            ev["arrived"] = len(arrived)
            ev["forwarded"] = len(forwarded)
            W["events"].append(ev)
        W.update(arrived=arrived, forwarded=forwarded, arr_time=arr_time, waiting=waiting, insvc=insvc, committed=committed)
        return W

    def monitor(self, case, obs, prop_id):
        if case["kind"] == "mq2":
            msgs = list(obs["interfere"])
            for i, (c, o) in enumerate(zip(case["inst"], obs["multi"])):
                for m in self.monitor(c, o, prop_id):
                    sig, _, rest = m.partition(":")
                    msgs.append(f"{sig}: [instance {'AB'[i]}: {c['sched']}]{rest}")
            out, seen = [], set()
            for m in msgs:
                k = m.split(":")[0]
                if k not in seen:
                    seen.add(k)
                    out.append(m)
            return out[:4]
        specs = case["workload"]["packets"]
        flows = cfg_flows(case)
        klasses = cfg_classes(case)
        cls = class_of(case)
        W = self._walk(case, obs)
        msgs = list(W["msgs"]) if prop_id in ("C12", "C08") else [m for m in W["msgs"] if m.startswith(
            ("mq-raises", "mq-hangs", "mq-overlap", "mq-tx-time", "mq-forward-not-in-service"))]
        if obs["raised"] and not any(m.startswith(("mq-raises", "mq-hangs")) for m in msgs):
            msgs.append(f"mq-raises: {obs['raised']}")
        evs = W["events"]
        fl = lambda u: specs[str(u)]["flow"]
        if prop_id in ("C12", "C08"):
            # conservation, exactly once, per-flow FIFO
            fw = W["forwarded"]
            if len(set(fw)) != len(fw):
                msgs.append(f"mq-duplicate: forwarded {fw}")
            for f in flows:
                a = [u for u in W["arrived"] if fl(u) == f]
                d = [u for u in fw if fl(u) == f]
                if d != a[:len(d)]:
                    msgs.append(f"mq-flow-fifo: flow {f} arrived {a} forwarded {d}")
            if obs["exhausted"] and not obs["raised"] and sorted(fw) != sorted(W["arrived"]):
                msgs.append(f"mq-not-drained: no event left, arrived {sorted(W['arrived'])} forwarded {sorted(fw)}")
            if not obs["exhausted"] and not obs["raised"]:
                msgs.append("mq-not-quiescent: events of the scheduler left at the horizon")
        if prop_id == "C12":
            held_flow = {f: [] for f in flows}
            for ev in evs:
                if ev["kind"] == "adv":
                    if ev["held_before"] > 0 and ev["insvc_before"] is None:
                        msgs.append(f"mq-idle-with-backlog: clock moves {ev['now']} -> {ev['to']} with {ev['held_before']} "
                                    f"packet(s) held and no transmission in progress")
                    continue
                q, cur, rec, tok, tot, m, _st = ev["sample"]
                if ev["kind"] == "put":
                    held_flow[fl(ev["put"])].append(ev["put"])
                for u in ev["fwd"]:
                    if u in held_flow[fl(u)]:
                        held_flow[fl(u)].remove(u)
                for (u, snap) in ev["fwd_snap"]:
                    # the next hop reads the counters inside its put(): the departing packet is no longer counted
                    exp = [[f, len(held_flow[f]), sum(specs[str(x)]["size"] for x in held_flow[f])] for f in flows]
                    etot = sum(len(v) for v in held_flow.values())
                    if snap[0] != exp or snap[1] != etot:
                        bad = [(a, b) for a, b in zip(snap[0], exp) if a != b][:2]
                        msgs.append(f"sched-counters-at-forward: when packet {u} (flow {fl(u)}) is handed to the next hop at {ev['now']} "
                                    f"the counters [flow, queue_count, queue_byte_size] read {[a for a, _ in bad] or snap[1]} / total_packets "
                                    f"{snap[1]}, packets still waiting: {[b for _, b in bad] or etot} / {etot}")
                for f, c, b in q:
                    ec_, eb = len(held_flow[f]), sum(specs[str(u)]["size"] for u in held_flow[f])
                    if (c, b) != (ec_, eb):
                        msgs.append(f"mq-counters: after action {ev['idx']} flow {f} queue_count/byte_size = {c}/{b}, "
                                    f"waiting or in transmission: {ec_}/{eb}")
                if tot != sum(len(v) for v in held_flow.values()):
                    msgs.append(f"mq-counters: total_packets = {tot}, held {sum(len(v) for v in held_flow.values())}")
                if rec != ev["arrived"]:
                    msgs.append(f"mq-counters: packets_received = {rec} after {ev['arrived']} puts")
                ins = ev["insvc_after"][0] if ev["insvc_after"] else None
                if cur != ins:
                    if ins is None:
                        msgs.append(f"mq-current-packet-stale: after action {ev['idx']} at {ev['now']} current_packet / packet_in_service "
                                    f"is still packet {cur} although no transmission is in progress")
                    else:
                        msgs.append(f"mq-current-packet: current_packet = {cur}, in transmission {ins}")
                if m:
                    incl = bool(case["monitor"]["included"])
                    for f, c, b in m:
                        if f not in held_flow:
                            msgs.append(f"mq-monitor-sample: sample for unknown flow {f}")
                            continue
                        hs = [u for u in held_flow[f] if incl or u != ins]
                        exp = (len(hs), sum(specs[str(u)]["size"] for u in hs))
                        if (c, b) != exp:
                            msgs.append(f"mq-monitor-sample: service_included={incl} flow {f} sampled size/bytes {c}/{b} "
                                        f"at {ev['now']}, packets waiting{' or in transmission' if incl else ''}: {exp[0]}/{exp[1]}")
        if prop_id == "C13" and case["sched"] == "sp":
            prio = {k: p for k, p in case["classes"]}          # priority per CLASS; a flow has the priority of its class
            for ev in evs:
                if ev["deq"]:
                    f, uid = ev["deq"]
                    hi = [(g, u) for g in klasses if prio[g] > prio[f] for u in ev["waiting_before"][g]]
                    if hi:
                        msgs.append(f"sp-not-strict: at {ev['now']} SP takes packet {uid} of class {f} (priority {prio[f]}) while "
                                    f"{[(u, 'class %d prio %d' % (g, prio[g])) for g, u in hi][:4]} wait")
                    if cls(fl(uid)) != f:
                        msgs.append(f"sp-wrong-class: packet {uid} of flow {fl(uid)} (class {cls(fl(uid))}) served from the queue of class {f}")
                if ev["start"] is not None:
                    f = cls(fl(ev["start"]))
                    old = [(g, u) for g in klasses if prio[g] > prio[f] for u in ev["waiting_before"][g]
                           if W["arr_time"][u] < ev["now"]]
                    if old:
                        msgs.append(f"sp-not-strict: transmission of packet {ev['start']} (class {f}, priority {prio[f]}) starts at "
                                    f"{ev['now']} while packets {old[:4]} of higher priority have been waiting since before")
        if prop_id == "C15" and case["sched"] in ("rr", "wrr"):
            msgs += self._visit_monitor(case, evs)
        out, seen = [], set()
        for m in msgs:
            s = m.split(":")[0]
            if s not in seen:
                seen.add(s)
                out.append(m)
        return out[:4]

    @staticmethod
    def _visit_monitor(case, evs):
        """RR / WRR: classes are visited cyclically in declaration order, empty ones skipped, one resp. up to `weight`
        packets per visit.  The cursor (class index, packets still allowed in this visit) lives across kernel steps; a
        pass that ends with nothing held starts again from the first class when the next packet arrives."""
        classes = [(f, (w if case["sched"] == "wrr" else 1)) for f, w in case["classes"]]
        msgs = []
        cursor = None                      # (index, remaining allowance) to continue with; None = run() not started
        lens = {f: 0 for f, _ in classes}

        def scan(i, left, lens):
            """continue the for-loop at class i with `left` packets allowed -> (flow, (i', left')) or None at the end of the pass"""
            while i < len(classes):
                f = classes[i][0]
                if left > 0 and lens[f] > 0:
                    return f, (i, left - 1)
                i += 1
                left = classes[i][1] if i < len(classes) else 0
            return None

        for ev in evs:
            if ev["kind"] == "step":
                tn, tgt = ev["label"]
                ran = None
                if (tn, tgt) == ("Initialize", "run") or (tn, tgt) == ("StoreGet", "tok"):
                    ran = (0, classes[0][1])
                elif (tn, tgt) == ("Process", "end:send_packet>run"):
                    ran = cursor
                if ran is not None:
                    held = ev["held_before"]
                    r = scan(ran[0], ran[1], lens)
                    if r is None and held > 0:          # end of the pass with packets held: a new pass starts at once
                        r = scan(0, classes[0][1], lens)
                    exp = r[0] if r else None
                    got = ev["deq"][0] if ev["deq"] else None
                    if exp != got:
                        msgs.append(f"rr-visit-order: at {ev['now']} (action {ev['idx']}) the scheduler took a packet of flow {got}, "
                                    f"cyclic order with store lengths {lens} and cursor {ran} gives flow {exp}")
                    if r:
                        cursor = r[1]
            if ev["kind"] in ("put", "step"):
                for f, n in ev["sample"][6]:
                    lens[f] = n
        return msgs

    def nontrivial(self, case, obs, prop_id):
        if case["kind"] == "mq2":
            return not obs["interfere"] and any(self.nontrivial(c, o, prop_id) for c, o in zip(case["inst"], obs["multi"]))
        if len(case["workload"]["packets"]) < 3 or obs["raised"]:
            return False
        W = self._walk(case, obs)
        if prop_id == "C08":
            return len({case["workload"]["packets"][str(u)]["flow"] for u in W["arrived"]}) >= 2
        if prop_id in ("C13", "C15"):
            key = {f: p for f, p in case["classes"]} if prop_id == "C13" else None
            for ev in W["events"]:
                if ev["deq"]:
                    wb = ev["waiting_before"]
                    busy = [f for f in wb if wb[f]]
                    if prop_id == "C13":
                        if len({key[f] for f in busy}) >= 2:
                            return True
                    elif len(busy) >= 2:
                        return True
            return False
        return any(ev["deq"] and W["arr_time"][ev["deq"][1]] < ev["now"] for ev in W["events"])

    def shrink(self, case):
        if case["kind"] == "mq2":
            subs = case["inst"]
            for i in range(len(subs)):
                for c in self.shrink(subs[i]):
                    yield {**case, "inst": subs[:i] + [c] + subs[i + 1:]}
            return
        for w in ec.shrink_workload(case["workload"]):
            nd = len(w["drivers"])
            c = {**case, "workload": w}
            if nd != len(case["workload"]["drivers"]):
                # which driver was dropped is not visible here: keep the flags of the first nd drivers
                c["pre"] = (case.get("pre") or [])[:nd]
            yield c
        if case.get("monitor"):
            if case["kind"] != "schedmon":
                yield {**case, "monitor": None}
            d = case["monitor"]["dist"]
            if len(d) > 1:
                yield {**case, "monitor": {**case["monitor"], "dist": d[:-1]}}
                yield {**case, "monitor": {**case["monitor"], "dist": d[1:]}}
        cls = class_of(case)
        usedf = {p["flow"] for p in case["workload"]["packets"].values()}
        used = {cls(f) for f in usedf}
        cm = case.get("cmap")
        if cm:
            for i in range(len(cm)):
                if cm[i][0] not in usedf:
                    yield {**case, "cmap": cm[:i] + cm[i + 1:]}
        cl = case["classes"]
        for i in range(len(cl)):
            if len(cl) > 1 and cl[i][0] not in used:
                yield {**case, "classes": cl[:i] + cl[i + 1:]}
        if any(case.get("pre") or []):
            yield {**case, "pre": [False] * len(case["workload"]["drivers"])}

    def describe(self, case, obs):
        if case["kind"] == "mq2":
            return ["mq2", "mq2:" + "+".join(c["sched"] for c in case["inst"]),
                    "mq2:packets=%d" % min(sum(len(c["workload"]["packets"]) for c in case["inst"]), 20)]
        k = case["kind"]
        keys = [k, f"{k}:sched={case['sched']}", f"{k}:classes={len(case['classes'])}",
                f"{k}:packets={min(len(case['workload']['packets']), 14)}", f"{k}:drivers={len(case['workload']['drivers'])}",
                f"{k}:rate={case['rate']}"]
        if any(case.get("pre") or []):
            keys.append(f"{k}:driver-created-before-scheduler")
        if any(d["late"] for d in case["workload"]["drivers"]):
            keys.append(f"{k}:late-driver")
        if case.get("monitor"):
            keys.append(f"{k}:service_included={case['monitor']['included']}")
        if case.get("noout"):
            keys.append(f"{k}:no-next-hop")
        if case.get("late"):
            keys.append(f"{k}:late-config=" + "+".join(case["late"]["attrs"]))
        if case.get("cmap"):
            nk = len({c for _, c in case["cmap"]})
            keys.append(f"{k}:flow2class={len(case['cmap'])}flows->{nk}classes")
        return keys


PART = MQPart()
