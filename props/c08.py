"""C08 -- packets are never lost, duplicated or invented between source and sink.
Assembled from every element part (each contributes X_conserves / X_flow_fifo / X_drained for its element)
plus 'gensink' (generator law, sink books, random pipelines of real elements, composition theorem)."""
from vlib.composite import Composite

PROP = Composite("C08", ["gensink", "wire", "port", "bucket", "mq", "drr", "wfq", "route"], extra_props_files=["Props/C08_%s_Examples.v" % x for x in ("Wire", "Port", "Bucket", "DRR", "MQ", "WFQ", "GenSink", "Pipe")], n_quick=500, n_thorough=12000)
