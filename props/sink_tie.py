"""Second tie (DESIGN 2.6) for TCPSink.put (C16): the body translated from the tree under test on every run
(vlib/translate.py, fail closed) into coq/Gen/Extracted_sink.v; bridged to sink_step / ack_choice of Tcp/Sink.v by
coq/Packet/SinkBridge.v; obligations in Props/C16_Bridge.v.  Used by props/c16.py (pre_build)."""
import os

SINK_STATE = [("next_seq_expected", "Z")]
SINK_CONS = [("FxSuperPut", ""),              # super().put(packet)            (PacketSink bookkeeping)
             ("FxArrived", ""),               # self.packet_arrived(packet)    (insert + merge: Tcp/Sink.v packet_arrived)
             ("FxMakeAck", ""),               # acknowledgement = Packet(packet.time, size=40, packet_id=packet.packet_id, flow_id=packet.flow_id + 10000)
             ("FxSetAck", "(a : Z)"),         # acknowledgement.ack = a
             ("FxAssertOut", ""),             # assert self.out is not None
             ("FxSendAck", "")]               # self.out.put(acknowledgement)
SINK_FX = [("super().put(packet)", "FxSuperPut", []),
           ("self.packet_arrived(packet)", "FxArrived", []),
           ("acknowledgement = Packet(packet.time, size=40, packet_id=packet.packet_id, flow_id=packet.flow_id + 10000)",
            "FxMakeAck", []),
           ("acknowledgement.ack = _1", "FxSetAck", ["Z"]),
           ("assert self.out is not None", "FxAssertOut", []),
           ("self.out.put(acknowledgement)", "FxSendAck", [])]
# the first range of the receive buffer AFTER packet_arrived (the buffer is never empty then)
SINK_READS = [("self.recv_buffer[0][0]", "first_start", "Z", "needs:FxArrived"),
              ("self.recv_buffer[0][1]", "first_end", "Z", "needs:FxArrived")]


def extracted_sink(repo):
    from vlib import translate as tr
    spec = tr.FnSpec(os.path.join(repo, "onl", "packet", "tcp_sink.py"), "TCPSink", "put", "gen_TCPSink_put",
                     reads=SINK_READS, effects=SINK_FX)
    return tr.gen_module("onl/packet/tcp_sink.py: TCPSink.put", "sink_st", "k_", SINK_STATE, "sink_fx", SINK_CONS, [spec])


def write_extracted_sink(repo, coq_dir):
    from vlib import translate as tr
    return tr.write_if_changed(os.path.join(coq_dir, "Gen", "Extracted_sink.v"), extracted_sink(repo))


# ------------------------------------------------------------------------------------------------
# PacketSink.put (C08, part props/part_gensink.py): coq/Gen/Extracted_packetsink.v, bridged to sink_put_rec of
# Elem/GenSink.v by coq/Packet/PacketSinkBridge.v; obligations in Props/C08_BridgeSink.v.

PSINK_STATE = [("first_arrival", "mapQ"), ("last_arrival", "mapQ"), ("packets_received", "mapZ"), ("bytes_received", "mapZ")]
PSINK_CONS = [("FxWait", "(k : Z) (w : Q)"),            # self.waits[k].append(w)
              ("FxSize", "(k : Z) (n : Z)"),            # self.packet_sizes[k].append(n)
              ("FxTime", "(k : Z) (t : Q)"),            # self.packet_times[k].append(t)
              ("FxPerhop", "(k : Z)"),                  # self.perhop_times[k].append(packet.perhop_time)
              ("FxArrival", "(k : Z) (t : Q)"),         # self.arrivals[k].append(t)
              ("FxArrivalSetLast", "(k : Z) (v : Q)")]  # self.arrivals[k][-1] = v
PSINK_FX = [("self.waits[_1].append(_2)", "FxWait", ["Z", "Q"]),
            ("self.packet_sizes[_1].append(_2)", "FxSize", ["Z", "Z"]),
            ("self.packet_times[_1].append(_2)", "FxTime", ["Z", "Q"]),
            ("self.perhop_times[_1].append(packet.perhop_time)", "FxPerhop", ["Z"]),
            ("self.arrivals[_1].append(_2)", "FxArrival", ["Z", "Q"]),
            ("self.arrivals[_1][-1] = _2", "FxArrivalSetLast", ["Z", "Q"])]
PSINK_READS = [("self.env.now", "now", "Q"),
               ("self.rec_flow_ids", "rec_flow_ids", "bool"),
               ("self.rec_waits", "rec_waits", "bool"),
               ("self.rec_arrivals", "rec_arrivals", "bool"),
               ("self.absolute_arrivals", "absolute_arrivals", "bool"),
               ("packet.flow_id", "flow_id", "Z"),
               ("packet.src", "src", "Z"),               # a source name; the plugin numbers the sources
               ("packet.size", "size", "Z"),
               ("packet.time", "ptime", "Q"),
               # len(self.arrivals[rec_index]) AFTER this packet's arrival was appended
               ("self.arrivals[rec_index]", "n_arrivals", "len", "needs:FxArrival")]
PSINK_DEBUG = """if self.debug:
    print("At time {:.1f}, packet {:d} arrived.".format(now, packet.packet_id))
    if self.rec_waits and len(self.packet_sizes[rec_index]) >= 10:
        bytes_received = sum(self.packet_sizes[rec_index][-9:])
        time_elapsed = self.env.now - (
            self.packet_times[rec_index][-10] + self.waits[rec_index][-10]
        )
        print(
            "Average throughput (last 10 packets): {:.2f} bytes/second.".format(
                float(bytes_received) / time_elapsed
            )
        )"""


def extracted_packetsink(repo):
    from vlib import translate as tr
    spec = tr.FnSpec(os.path.join(repo, "onl", "packet", "sink.py"), "PacketSink", "put", "gen_PacketSink_put",
                     reads=PSINK_READS, effects=PSINK_FX, ignore_stmts=[PSINK_DEBUG])
    return tr.gen_module("onl/packet/sink.py: PacketSink.put (the `if self.debug:` block is dropped)", "psink_st", "p_",
                         PSINK_STATE, "psink_fx", PSINK_CONS, [spec])


def write_extracted_packetsink(repo, coq_dir):
    from vlib import translate as tr
    return tr.write_if_changed(os.path.join(coq_dir, "Gen", "Extracted_packetsink.v"), extracted_packetsink(repo))
