"""Second tie (DESIGN 2.6) for TCPSink.put (C16): the body translated from the tree under test on every run
(vlib/translate.py, fail closed) into coq/Gen/Extracted_sink.v; bridged to sink_step / ack_choice of Tcp/Sink.v by
coq/Packet/SinkBridge.v; obligations in Props/C16_Bridge.v.  Used by props/c16.py (pre_build)."""
import os

SINK_STATE = [("next_seq_expected", "Z")]
SINK_CONS = [("FxSuperPut", ""),              # super().put(packet)            (PacketSink bookkeeping)
             ("FxArrived", ""),               # self.packet_arrived(packet)    (insert + merge: Tcp/Sink.v packet_arrived)
             ("FxMakeAck", ""),               # acknowledgement = Packet(packet.time, size=40, packet_id=packet.packet_id, flow_id=packet.flow_id + 10000)
             ("FxSetAck", "(a : Z)"),         # acknowledgement.ack = a
             ("FxAssertOut", ""),             # assert self.out is not None
             ("FxSendAck", "")]               # self.out.put(acknowledgement)
SINK_FX = [("super().put(packet)", "FxSuperPut", []),
           ("self.packet_arrived(packet)", "FxArrived", []),
           ("acknowledgement = Packet(packet.time, size=40, packet_id=packet.packet_id, flow_id=packet.flow_id + 10000)",
            "FxMakeAck", []),
           ("acknowledgement.ack = _1", "FxSetAck", ["Z"]),
           ("assert self.out is not None", "FxAssertOut", []),
           ("self.out.put(acknowledgement)", "FxSendAck", [])]
# the first range of the receive buffer AFTER packet_arrived (the buffer is never empty then)
SINK_READS = [("self.recv_buffer[0][0]", "first_start", "Z", "needs:FxArrived"),
              ("self.recv_buffer[0][1]", "first_end", "Z", "needs:FxArrived")]


def extracted_sink(repo):
    from vlib import translate as tr
    spec = tr.FnSpec(os.path.join(repo, "onl", "packet", "tcp_sink.py"), "TCPSink", "put", "gen_TCPSink_put",
                     reads=SINK_READS, effects=SINK_FX)
    return tr.gen_module("onl/packet/tcp_sink.py: TCPSink.put", "sink_st", "k_", SINK_STATE, "sink_fx", SINK_CONS, [spec])


def write_extracted_sink(repo, coq_dir):
    from vlib import translate as tr
    return tr.write_if_changed(os.path.join(coq_dir, "Gen", "Extracted_sink.v"), extracted_sink(repo))
