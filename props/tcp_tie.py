"""Second tie (DESIGN 2.6) for TCPPacketGenerator.put and timeout_callback (C17): translated from the tree under test on
every run (vlib/translate.py, fail closed) into coq/Gen/Extracted_tcpsender.v; bridged to on_ack / on_timer of
coq/Tcp/Sender.v by coq/Tcp/PutBridge.v; obligations in Props/C17_Bridge.v.  Used by props/c17.py (pre_build).
The CongestionControl method bodies themselves are tied by props/tcp_common.py (translate_cc, Tcp/CcBridge.v,
Tcp/CubicBridge.v): here their CALLS are effects.  Whitelisted as one statement: the loop that stops and forgets every
timer whose segment ends at or below ackno (FxStopAcked)."""
import os

SENDER_STATE = [("dupack", "Z"), ("last_ack", "Z"), ("rtt_estimate", "Q"), ("est_deviation", "Q"), ("rto", "Q")]
SENDER_CONS = [("FxAssertAck", ""),                     # assert ack.flow_id >= 10000
               ("FxCcDupackOver", ""),                  # self.congestion_control.dupack_over()
               ("FxCcFastRetransmit", ""),              # self.congestion_control.consecutive_dupacks_received()
               ("FxCcMoreDupacks", ""),                 # self.congestion_control.more_dupacks_received()
               ("FxCcAck", "(sample : Q) (now : Q)"),   # self.congestion_control.ack_received(sample_rtt, self.env.now)
               ("FxCcTimerExpired", ""),                # self.congestion_control.timer_expired()
               ("FxResend", "(id : Z)"),                # self.resend_packet(id)
               ("FxStopAcked", ""),                     # for pid in [p for p in self.timers if p + self.mss <= ackno]: stop, del, del
               ("FxTokenPut", ""),                      # self.cwnd_avaialbe.put(True)
               ("FxTimerRestart", "(id : Z) (r : Q)")]  # self.timers[id].restart(r)
# the body of this loop is tied on its own (extracted_tcpresend: gen_stop_acked_iter), here the loop is one effect
STOP_LOOP = """for pid in [p for p in self.timers if p + self.mss <= ackno]:
    _body"""
SENDER_FX = [("assert ack.flow_id >= 10000", "FxAssertAck", []),
             ("self.congestion_control.dupack_over()", "FxCcDupackOver", []),
             ("self.congestion_control.consecutive_dupacks_received()", "FxCcFastRetransmit", []),
             ("self.congestion_control.more_dupacks_received()", "FxCcMoreDupacks", []),
             ("self.congestion_control.ack_received(_1, _2)", "FxCcAck", ["Q", "Q"]),
             ("self.congestion_control.timer_expired()", "FxCcTimerExpired", []),
             ("self.resend_packet(_1)", "FxResend", ["Z"]),
             (STOP_LOOP, "FxStopAcked", []),
             ("self.cwnd_avaialbe.put(True)", "FxTokenPut", []),
             ("self.timers[_1].restart(_2)", "FxTimerRestart", ["Z", "Q"])]
SENDER_READS = [("ack.ack", "ackno", "Z"),
                ("ack.time", "ack_time", "Q"),
                ("self.env.now", "now", "Q"),
                # the controller's window as it is AFTER more_dupacks_received() inflated it
                ("self.congestion_control.cwnd", "cwnd_inflated", "Q", "needs:FxCcMoreDupacks"),
                ("packet_id", "packet_id", "Z")]


def extracted_tcpsender(repo):
    from vlib import translate as tr
    path = os.path.join(repo, "onl", "packet", "tcp_generator.py")
    specs = [tr.FnSpec(path, "TCPPacketGenerator", "put", "gen_TCPPacketGenerator_put", reads=SENDER_READS[:-1], effects=SENDER_FX),
             tr.FnSpec(path, "TCPPacketGenerator", "timeout_callback", "gen_TCPPacketGenerator_timeout_callback",
                       reads=SENDER_READS[-1:], effects=SENDER_FX)]
    return tr.gen_module("onl/packet/tcp_generator.py: TCPPacketGenerator.put, timeout_callback", "sender_st", "t_", SENDER_STATE,
                         "sender_fx", SENDER_CONS, specs)


# ---- resend_packet and the loop of put() that stops the acknowledged timers ---------------------------------------------
RESEND_CONS = [("FxRestamp", "(t : Q)"),        # resent_pkt.time = self.env.now
               ("FxAssertOut", ""),             # assert self.out
               ("FxTx", ""),                    # self.out.put(resent_pkt)
               ("FxTimerStop", ""),             # self.timers[pid].stop()
               ("FxDelTimer", ""),              # del self.timers[pid]
               ("FxDelSent", ""),               # del self.sent_packets[pid]
               ("FxLoopAgain", "")]
ACKED = "[p for p in self.timers if p + self.mss <= ackno]"     # the ids the loop runs over, computed before it starts


def extracted_tcpresend(repo):
    from vlib import translate as tr
    path = os.path.join(repo, "onl", "packet", "tcp_generator.py")
    specs = [tr.FnSpec(path, "TCPPacketGenerator", "resend_packet", "gen_resend_packet",
                       reads=[("seqno not in self.sent_packets", "not_in_flight", "bool"), ("self.env.now", "now", "Q")],
                       effects=[("resent_pkt.time = _1", "FxRestamp", ["Q"]), ("assert self.out", "FxAssertOut", []),
                                ("self.out.put(resent_pkt)", "FxTx", [])],
                       aliases=[("resent_pkt = self.sent_packets[seqno]", "resent_pkt")], local_state=True),
             tr.FnSpec(path, "TCPPacketGenerator", "put", "gen_stop_acked_iter", select="inner_for", local_state=True,
                       loop_index="k", loop_again="FxLoopAgain", reads=[(ACKED, "n_acked", "len")],
                       effects=[("self.timers[pid].stop()", "FxTimerStop", []), ("del self.timers[pid]", "FxDelTimer", []),
                                ("del self.sent_packets[pid]", "FxDelSent", [])])]
    return tr.gen_module("onl/packet/tcp_generator.py: TCPPacketGenerator.resend_packet; ONE iteration of the loop of put() over the "
                         "acknowledged timer ids (state record = the position k)", "ack_st", "a_", [("k", "Z")], "resend_fx",
                         RESEND_CONS, specs)


def write_extracted_tcpsender(repo, coq_dir):
    from vlib import translate as tr
    tr.write_if_changed(os.path.join(coq_dir, "Gen", "Extracted_tcpresend.v"), extracted_tcpresend(repo))
    return tr.write_if_changed(os.path.join(coq_dir, "Gen", "Extracted_tcpsender.v"), extracted_tcpsender(repo))
