"""C13 -- static priority always serves the highest-priority backlogged flow.
Carried by the multi-queue scheduler part (props/part_mq.py, kind 'sp'); theorems in coq/Props/C13.v."""
from vlib.composite import Composite

PROP = Composite("C13", ["mq"], extra_props_files=["Props/C13_Examples.v"], n_quick=300, n_thorough=9000)
