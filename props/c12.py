"""C12 -- schedulers are work-conserving, non-preemptive, rate-exact and per-flow FIFO.
Assembled from the scheduler parts: mq (SP, RR, WRR, Monitor), drr (DRR), wfq (WFQ, VirtualClock)."""
from vlib.composite import Composite

PROP = Composite("C12", ["mq", "drr", "wfq"], n_quick=360, n_thorough=9000)
