"""C12 -- schedulers are work-conserving, non-preemptive, rate-exact and per-flow FIFO.
Assembled from the scheduler parts: mq (SP, RR, WRR, Monitor), drr (DRR), wfq (WFQ, VirtualClock)."""
from vlib.composite import Composite

PROP = Composite("C12", ["mq", "drr", "wfq"], extra_props_files=["Props/C12_Examples_MQ.v", "Props/C12_Examples_DRR.v", "Props/C12_Examples_WFQ.v"], n_quick=360, n_thorough=9000)
