"""C16 -- TCP acknowledgements are cumulative and correct; all data gets through.
kind='sink'  : TCPSink ACK numbers vs coq/Tcp/Sink.v.
kind='loop'  : a real TCPPacketGenerator and a real TCPSink joined by two real Wires (constant delay) and two
               harness droppers (drop by transmission index), run to quiescence, vs coq/Tcp/Loop.v.
kind='sender': scripted ACK/expiry histories against the sender alone (generator shared with C17): never raises."""
from fractions import Fraction as F

from vlib.framework import Prop
from vlib import coqfmt as cf
from props import tcp_common as T

import os
FX = os.environ.get("VERIF_TCP_FX", "current")          # coq/Tcp/Sender.v `current`: the repairs present in /repo (override only for experiments on old trees)
T_MAX = 1 << 20


class Rec:
    def __init__(self):
        self.got = []

    def put(self, p):
        self.got.append(p)


def short(x):
    """a float that was certainly not rounded: dyadic with a short significand"""
    f = T.fr(x)
    d = f.denominator
    return d & (d - 1) == 0 and abs(f.numerator).bit_length() <= 50


class C16(Prop):
    id = "C16"
    props_file = ["Props/C16.v", "Props/C16_Bridge.v", "Props/C16_Live.v", "Props/C16_Examples.v"]
    coq_imports = ["From ONL Require Import Base.Cmp Tcp.Sink Tcp.Sender Tcp.Cubic Tcp.AppSender Tcp.Loop."]
    n_quick = 1000
    n_thorough = 20000
    shard = 40
    case_timeout = 40
    nontrivial_rule = ("sink cases: random arrival sequences of (id,size) segments, mostly MSS-aligned, with reordering, "
                       "duplicates, gaps, overlapping odd-sized segments and a missing first segment; non-trivial = at least 3 "
                       "arrivals of which at least one is out of order or duplicated. loop cases: flows of 1-8 segments, Reno/CUBIC, "
                       "random one-way delay, initial RTT estimate, cwnd/ssthresh and up to 4 dropped transmission indices per "
                       "direction; non-trivial = at least one drop, retransmission or duplicate ACK. sender cases: scripted ACK/expiry "
                       "histories (as C17); non-trivial = at least 8 events. distinct by hash of the case")
    trusted_base = [
        "TCPSink is driven through its public put(); the ACK packet handed to sink.out is what is compared",
        "vlib/translate.py (Python ast, fail closed; observation/effect tables in props/sink_tie.py) regenerates coq/Gen/Extracted_sink.v from "
        "TCPSink.put of the tree under test before every build; C16_gen_sink_put (Props/C16_Bridge.v) bridges it to sink_step of the "
        "hand-written model",
        "closed loop: real TCPPacketGenerator (observed through the subclass/taps of props/tcp_common.py), real TCPSink, two real "
        "onl.netdev.wire.Wire objects with a constant delay_dist, harness droppers (drop by transmission index) between sender/sink and the wires; "
        "the whole run of the model (coq/Tcp/Loop.v, its own agenda) is compared with the recorded run: every sender event with its instant, "
        "arguments, transmitted segments and complete sender state, every packet offered to either dropper with its instant, the final receive buffer, "
        "and how the run ended",
        "loop runs are compared exactly on instants and all integral fields; cwnd/ssthresh/rto/srtt/rttvar within a relative 1e-12. Runs in which any "
        "recorded instant, rto, srtt or rttvar is not a short dyadic float (possible binary64 rounding) are outside the model's domain and are only monitored",
        "TCPCubic.cnt is an input oracle of the model (see C17); the Timer is taken as specified by C19, the kernel's event order (time, priority, "
        "insertion) as specified by C01",
    ]
    assumptions = ["segment ids and sizes are non-negative integers",
                   "flow.size is a multiple of the MSS; constant path delay >= 0; initial rtt_estimate > 0; initial cwnd >= MSS",
                   "drop patterns are finite sets of transmission indices per direction",
                   "lossfree_no_retransmit is proved (C16_lossfree_no_retransmit) with 'the round-trip time stays below the current RTO' stated on the "
                   "configuration: no drops, delay d < initial rtt_estimate and rtt_estimate != 2d (then every RTO in force exceeds 2d; at "
                   "rtt_estimate = 2d the estimator reaches RTO = RTT exactly and the timer wins the same-instant race)"]
    partial = [
        "reliable_delivery is proved over exact arithmetic (C16_reliable_delivery, Props/C16_Live.v: constant one-way delay d >= 0, two finite "
        "drop lists, Reno or CUBIC with any cnt oracle; the run ends with an empty agenda, last_ack = size and the sink holding [0,size) within "
        "3 + Gnew*size + Cexp*Bexp agenda steps, unless env.run(until=t_max) stops it first). What the theorem does not carry is binary64 "
        "rounding of instants and of the RTO estimator: runs whose floats are not short dyadics are monitored, not compared (one such run, a "
        "zero-delay path on which now + rto rounded to now, was a genuine stall of the real code, repaired by repo fix 4170594 and kept as "
        "corpus/C16/loop-zero-delay-rto-vanishes.json); per-packet varying delays are outside the model (Wire with a constant delay_dist)",
    ]

    # ---- second tie: TCPSink.put translated from the tree under test before the Coq build (fail closed) ----
    def pre_build(self):
        from vlib import framework as fw
        from props import sink_tie
        sink_tie.write_extracted_sink(fw.REPO, fw.COQ)

    # ---- generation -------------------------------------------------------------------------
    def gen_case(self, rng, tier):
        r = rng.random()
        if r < 0.5:
            return self.gen_sink(rng)
        if r < 0.9:
            return self.gen_loop(rng)
        from props.c17 import PROP as C17P
        return C17P.gen_sender(rng, tier)

    def gen_sink(self, rng):
        mss = rng.choice([1, 2, 512, 1000])
        nseg = rng.randint(1, 10)
        style = rng.random()
        segs = [(i * mss, mss) for i in range(nseg)]
        if style < 0.15:
            pass                                     # in order
        elif style < 0.5:
            rng.shuffle(segs)
        else:
            rng.shuffle(segs)
            # duplicates
            for _ in range(rng.randint(0, 4)):
                segs.insert(rng.randrange(len(segs) + 1), rng.choice(segs))
            # gaps
            if rng.random() < 0.4 and len(segs) > 1:
                segs.pop(rng.randrange(len(segs)))
            if rng.random() < 0.25:
                segs = [s for s in segs if s[0] != 0] or segs
        if rng.random() < 0.2:                      # odd sizes / overlaps / zero sizes
            for _ in range(rng.randint(1, 3)):
                segs.insert(rng.randrange(len(segs) + 1), (rng.randint(0, nseg * mss), rng.randint(0, 2 * mss)))
        return {"kind": "sink", "segs": [list(s) for s in segs]}

    def gen_loop(self, rng):
        alg = "reno" if rng.random() < 0.6 else "cubic"
        nseg = rng.randint(1, 8)
        case = {"kind": "loop", "alg": alg, "nseg": nseg}
        if alg == "reno":
            mss = rng.choice([512, 512, 512, 1000, 64])
            case.update(mss=mss, cwnd=T.qj(F(mss * rng.choice([1, 1, 2, 4, 8]))),
                        ssth=T.qj(F(65535) if rng.random() < 0.5 and mss == 512 else F(mss * rng.randint(1, 6))))
        else:
            case.update(mss=512, cwnd="512/1", ssth="65535/1")
        case["rtt0"] = T.qj(rng.choice([F(1, 16), F(1, 4), F(1, 2), F(1), F(1), F(2), F(3)]))
        case["delay"] = T.qj(rng.choice([F(0), F(1, 8), F(1, 4), F(1, 4), F(1, 2), F(1, 2), F(3, 4), F(1), F(5, 2)]))
        if rng.random() < 0.3:
            dd, da = [], []
        else:
            dd = sorted(rng.sample(range(16), rng.randint(0, 4)))
            da = sorted(rng.sample(range(16), rng.randint(0, 4)))
        case.update(drop_data=dd, drop_ack=da, t_max=T.qj(F(T_MAX)))
        return case

    # ---- implementation ---------------------------------------------------------------------
    def run_impl(self, case):
        if case["kind"] == "loop":
            return T.run_loop_case(case)
        if case["kind"] == "sender":
            return T.run_sender_case(case)
        from onl.sim import Environment
        from onl.packet import Packet
        from onl.packet.tcp_sink import TCPSink
        env = Environment()
        sink = TCPSink(env)
        rec = Rec()
        sink.out = rec
        acks, raised = [], None
        for (pid, size) in case["segs"]:
            try:
                sink.put(Packet(time=0, size=size, packet_id=pid, flow_id=3))
            except Exception as e:  # the property says: never raises
                raised = [type(e).__name__, str(e)[:200]]
                break
            a = rec.got[-1]
            acks.append([a.ack, a.flow_id, a.packet_id, a.size])
        return {"acks": acks, "buffer": [list(r) for r in sink.recv_buffer], "nse": sink.next_seq_expected,
                "raised": raised, "n_out": len(rec.got)}

    # ---- model ------------------------------------------------------------------------------
    def _segs(self, case):
        return cf.lst([cf.pair(cf.z(a), cf.z(b)) for a, b in case["segs"]])

    def agree_term(self, case, obs):
        if case["kind"] == "loop":
            return self.agree_loop(case, obs)
        if case["kind"] == "sender":
            from props.c17 import PROP as C17P
            return C17P.agree_term(case, obs)
        if obs["raised"]:
            return "false"
        acks = cf.lst([cf.z(a[0]) for a in obs["acks"]])
        buf = cf.lst([cf.pair(cf.z(a), cf.z(b)) for a, b in obs["buffer"]])
        return (f"listZ_eqb (acks true sink0 {self._segs(case)}) {acks} && "
                f"listZZ_eqb (buf (run_sink true {self._segs(case)})) {buf} && "
                f"Z.eqb (nse (run_sink true {self._segs(case)})) {cf.z(obs['nse'])}")

    def loop_in_domain(self, case, obs):
        if obs["truncated"]:
            return False
        for e in obs["entries"]:
            p = e["post"]
            if not (short(e["t"]) and short(p["rto"]) and short(p["srtt"]) and short(p["rttvar"])):
                return False
            if any(not short(t[1]) or not short(t[2]) for t in p["timers"]):
                return False
            if e["ev"][0] == "ack" and not short(e["ev"][3]):
                return False
        return all(short(d[3]) for d in obs["data"] + obs["acks"])

    def coq_lcfg(self, case):
        dd = cf.lst([cf.nat(i) for i in case["drop_data"]])
        da = cf.lst([cf.nat(i) for i in case["drop_ack"]])
        return f"(mklcfg {FX} {T.coq_cfg(case)} {cf.q(case['delay'])} {dd} {da} {cf.q(case['t_max'])})"

    def loop_run_term(self, case, obs):
        oracle = cf.lst([cf.q(e["post"]["cnt"]) for e in obs["entries"] if e["ev"][0] == "ack"])
        init = f"(linit {cf.q(case['cwnd'])} {cf.q(case['ssth'])} {cf.q(case['rtt0'])} {oracle})"
        return f"(lrun (Z.to_nat 60000) {self.coq_lcfg(case)} {init})"

    def agree_loop(self, case, obs):
        if not self.loop_in_domain(case, obs):
            return None
        osl = cf.lst([f"(mkslog {cf.q(e['t'])} {T.coq_event(e, e['post'])} "
                      f"{cf.lst([cf.pair(cf.z(t[0]), cf.z(t[1])) for t in e['tx']])} {T.coq_state(e['post'])})"
                      for e in obs["entries"]], sep=";\n  ")

        def dl(recs):
            return cf.lst([f"(mkdlog {cf.nat(r[0])} {cf.z(r[1])} {cf.z(r[2])} {cf.q(r[3])} {cf.b(r[4])})" for r in recs])
        if obs["raised"]:
            end = 2
        elif obs["quiescent"]:
            end = 0
        else:
            end = 1
        buf = cf.lst([cf.pair(cf.z(a), cf.z(b)) for a, b in obs["sink_buffer"]])
        return (f"loop_agree {self.loop_run_term(case, obs)}\n {osl}\n {dl(obs['data'])}\n {dl(obs['acks'])} {cf.z(end)} "
                f"{T.coq_err(obs['raised'])} {buf}")

    def model_term(self, case):
        if case["kind"] == "sink":
            return f"(acks true sink0 {self._segs(case)}, buf (run_sink true {self._segs(case)}))"
        return None

    # ---- the property as an oracle over the implementation's behaviour ------------------------
    def monitor(self, case, obs):
        if case["kind"] == "loop":
            return self.monitor_loop(case, obs)
        if case["kind"] == "sender":
            if obs["raised"]:
                last = obs["entries"][-1]["ev"] if obs["entries"] else None
                return [f"sender-raises: {obs['raised']} escaped from the sender at event {last}"]
            return []
        msgs = []
        if obs["raised"]:
            return [f"sink-raises: TCPSink.put raised {obs['raised']}"]
        covered = set()
        prev = None
        for k, ((pid, size), a) in enumerate(zip(case["segs"], obs["acks"])):
            covered.update(range(pid, pid + size))
            n = 0
            while n in covered:
                n += 1
            if a[0] != n:
                msgs.append(f"sink-ack-not-prefix: arrival {k} {(pid, size)}: ACK {a[0]} but contiguous prefix received is [0,{n})")
            if prev is not None and a[0] < prev:
                msgs.append(f"sink-ack-decreases: arrival {k}: ACK {a[0]} after {prev}")
            prev = a[0]
            if a[1] != 3 + 10000 or a[2] != pid:
                msgs.append(f"sink-ack-header: ACK packet flow/id {a[1:3]} for segment {pid} of flow 3")
        if obs["n_out"] != len(case["segs"]):
            msgs.append(f"sink-ack-count: {obs['n_out']} ACKs for {len(case['segs'])} segments")
        return msgs[:4]

    def monitor_loop(self, case, obs):
        msgs = []
        mss, nseg = case["mss"], case["nseg"]
        size = mss * nseg
        if obs["raised"]:
            last = obs["entries"][-1] if obs["entries"] else None
            where = f"{last['ev']} at t={last['t']}" if last else "start"
            msgs.append(f"loop-raises: {obs['raised']} escaped from the simulation (sender event {where}; drops data {case['drop_data']} ack {case['drop_ack']})")
        elif obs["truncated"]:
            msgs.append(f"loop-never-ends: more than the cap of sender events without reaching quiescence (last_ack {obs['la']} of {size})")
        elif not obs["quiescent"]:
            msgs.append(f"loop-never-ends: still busy at t_max={case['t_max']} (last_ack {obs['la']} of {size}, timers {obs['timers_left']})")
        else:
            if obs["sink_buffer"] != [[0, size]]:
                msgs.append(f"loop-incomplete-sink: quiescent with the sink holding {obs['sink_buffer']}, flow is [0,{size})")
            if obs["la"] != size:
                msgs.append(f"loop-incomplete-sender: quiescent with last_ack {obs['la']}, flow size {size}")
            if obs["timers_left"]:
                msgs.append(f"loop-timers-left: quiescent with timers {obs['timers_left']} still in the table")
        # ACK numbers: non-decreasing at the sink and at the sender; last_ack monotone, never beyond what was sent
        prev = 0
        for r in obs["acks"]:
            if r[2] < prev:
                msgs.append(f"loop-ack-decreases: sink ACK {r[2]} after {prev} (transmission {r[0]})")
                break
            prev = r[2]
        la = 0
        for i, e in enumerate(obs["entries"]):
            p = e["post"]
            if e["raised"]:
                break
            if p["la"] < la:
                msgs.append(f"loop-last-ack-decreases: event {i} {e['ev']}: last_ack {la} -> {p['la']}")
                break
            la = p["la"]
            if p["la"] > p["ns"]:
                msgs.append(f"loop-ack-beyond-sent: event {i}: last_ack {p['la']} > next_seq {p['ns']}")
                break
            for t in e["tx"]:
                if t[1] != mss or t[0] % mss or not (0 <= t[0] < size):
                    msgs.append(f"loop-bad-segment: event {i}: segment {t[:2]} (MSS {mss}, flow {size})")
        # loss-free path whose RTT stays below the RTO in force at every send: nothing is sent twice
        if not case["drop_data"] and not case["drop_ack"] and not obs["raised"]:
            rtt = 2 * T.fr(case["delay"])
            pre = obs["init"]
            ok = True
            for e in obs["entries"]:
                if e["ev"][0] == "wake" and e["tx"] and T.fr(pre["rto"]) <= rtt:
                    ok = False
                pre = e["post"]
            ids = [r[1] for r in obs["data"]]
            if ok and len(ids) != len(set(ids)):
                dup = sorted({i for i in ids if ids.count(i) > 1})
                msgs.append(f"loop-lossfree-retransmit: no drops, RTT {rtt} below the RTO at every send, yet segments {dup} were transmitted twice")
        return msgs[:4]

    def nontrivial(self, case, obs):
        if case["kind"] == "loop":
            ids = [r[1] for r in obs["data"]]
            return bool(case["drop_data"] or case["drop_ack"] or len(ids) != len(set(ids)))
        if case["kind"] == "sender":
            return len(obs["entries"]) >= 8
        s = case["segs"]
        return len(s) >= 3 and (len(set(map(tuple, s))) < len(s) or any(s[i][0] > s[i + 1][0] for i in range(len(s) - 1)))

    def shrink(self, case):
        if case["kind"] == "loop":
            for k in ("drop_data", "drop_ack"):
                for i in range(len(case[k])):
                    yield {**case, k: case[k][:i] + case[k][i + 1:]}
            if case["nseg"] > 1:
                yield {**case, "nseg": case["nseg"] - 1}
            if case["alg"] == "reno" and case["cwnd"] != T.qj(case["mss"]):
                yield {**case, "cwnd": T.qj(case["mss"])}
            if case["alg"] == "reno" and case["ssth"] != "65535/1":
                yield {**case, "ssth": "65535/1"}
            return
        if case["kind"] == "sender":
            from props.c17 import PROP as C17P
            yield from C17P.shrink(case)
            return
        s = case["segs"]
        for i in range(len(s)):
            yield {**case, "segs": s[:i] + s[i + 1:]}
        for i in range(len(s)):
            for j in (0, 1):
                if s[i][j] > 1:
                    t = [list(x) for x in s]
                    t[i][j] = s[i][j] // 2
                    yield {**case, "segs": t}

    def describe(self, case, obs):
        if case["kind"] == "loop":
            ids = [r[1] for r in obs["data"]]
            keys = ["loop", "loop:" + case["alg"], "loop:segments=%d" % case["nseg"],
                    "loop:drops=%d" % (len(case["drop_data"]) + len(case["drop_ack"]))]
            if len(ids) != len(set(ids)):
                keys.append("loop:has-retransmission")
            if any(e["ev"][0] == "exp" for e in obs["entries"]):
                keys.append("loop:has-timer-expiry")
            if any(e["ev"][0] == "ack" and e["post"]["dup"] >= 3 for e in obs["entries"]):
                keys.append("loop:has-fast-retransmit")
            keys.append("loop:compared" if self.loop_in_domain(case, obs) else "loop:monitored-only(float rounding possible)")
            return keys
        if case["kind"] == "sender":
            return ["sender", "sender:" + case["alg"]]
        s = case["segs"]
        keys = ["sink"]
        if len(set(map(tuple, s))) < len(s):
            keys.append("sink:has-duplicate")
        if any(s[i][0] > s[i + 1][0] for i in range(len(s) - 1)):
            keys.append("sink:reordered")
        if all(x[0] != 0 for x in s):
            keys.append("sink:first-segment-missing")
        keys.append("sink:len=%d" % min(len(s), 12))
        return keys


PROP = C16()
