"""C16 -- TCP acknowledgements are cumulative and correct; all data gets through.
Part 1 (this file, kind='sink'): TCPSink ACK numbers vs coq/Tcp/Sink.v."""
from vlib.framework import Prop
from vlib import coqfmt as cf


class Rec:
    def __init__(self):
        self.got = []

    def put(self, p):
        self.got.append(p)


class C16(Prop):
    id = "C16"
    props_file = "Props/C16.v"
    coq_imports = ["From ONL Require Import Base.Cmp Tcp.Sink."]
    n_quick = 1000
    n_thorough = 20000
    nontrivial_rule = ("sink cases: random arrival sequences of (id,size) segments, mostly MSS-aligned, with reordering, "
                       "duplicates, gaps, overlapping odd-sized segments and a missing first segment; "
                       "non-trivial = at least 3 arrivals of which at least one is out of order or duplicated; "
                       "distinct by hash of the case")
    trusted_base = ["TCPSink is driven through its public put(); the ACK packet handed to sink.out is what is compared"]
    assumptions = ["segment ids and sizes are non-negative integers"]
    partial = []

    # ---- generation -------------------------------------------------------------------------
    def gen_case(self, rng, tier):
        mss = rng.choice([1, 2, 512, 1000])
        nseg = rng.randint(1, 10)
        style = rng.random()
        segs = [(i * mss, mss) for i in range(nseg)]
        if style < 0.15:
            pass                                     # in order
        elif style < 0.5:
            rng.shuffle(segs)
        else:
            rng.shuffle(segs)
            # duplicates
            for _ in range(rng.randint(0, 4)):
                segs.insert(rng.randrange(len(segs) + 1), rng.choice(segs))
            # gaps
            if rng.random() < 0.4 and len(segs) > 1:
                segs.pop(rng.randrange(len(segs)))
            if rng.random() < 0.25:
                segs = [s for s in segs if s[0] != 0] or segs
        if rng.random() < 0.2:                      # odd sizes / overlaps / zero sizes
            for _ in range(rng.randint(1, 3)):
                segs.insert(rng.randrange(len(segs) + 1), (rng.randint(0, nseg * mss), rng.randint(0, 2 * mss)))
        return {"kind": "sink", "segs": [list(s) for s in segs]}

    # ---- implementation ---------------------------------------------------------------------
    def run_impl(self, case):
        from onl.sim import Environment
        from onl.packet import Packet
        from onl.packet.tcp_sink import TCPSink
        env = Environment()
        sink = TCPSink(env)
        rec = Rec()
        sink.out = rec
        acks, raised = [], None
        for (pid, size) in case["segs"]:
            try:
                sink.put(Packet(time=0, size=size, packet_id=pid, flow_id=3))
            except Exception as e:  # the property says: never raises
                raised = [type(e).__name__, str(e)[:200]]
                break
            a = rec.got[-1]
            acks.append([a.ack, a.flow_id, a.packet_id, a.size])
        return {"acks": acks, "buffer": [list(r) for r in sink.recv_buffer], "nse": sink.next_seq_expected,
                "raised": raised, "n_out": len(rec.got)}

    # ---- model ------------------------------------------------------------------------------
    def _segs(self, case):
        return cf.lst([cf.pair(cf.z(a), cf.z(b)) for a, b in case["segs"]])

    def agree_term(self, case, obs):
        if obs["raised"]:
            return "false"
        acks = cf.lst([cf.z(a[0]) for a in obs["acks"]])
        buf = cf.lst([cf.pair(cf.z(a), cf.z(b)) for a, b in obs["buffer"]])
        return (f"listZ_eqb (acks true sink0 {self._segs(case)}) {acks} && "
                f"listZZ_eqb (buf (run_sink true {self._segs(case)})) {buf} && "
                f"Z.eqb (nse (run_sink true {self._segs(case)})) {cf.z(obs['nse'])}")

    def model_term(self, case):
        return f"(acks true sink0 {self._segs(case)}, buf (run_sink true {self._segs(case)}))"

    # ---- the property as an oracle over the implementation's behaviour ------------------------
    def monitor(self, case, obs):
        msgs = []
        if obs["raised"]:
            return [f"sink-raises: TCPSink.put raised {obs['raised']}"]
        covered = set()
        prev = None
        for k, ((pid, size), a) in enumerate(zip(case["segs"], obs["acks"])):
            covered.update(range(pid, pid + size))
            n = 0
            while n in covered:
                n += 1
            if a[0] != n:
                msgs.append(f"sink-ack-not-prefix: arrival {k} {(pid, size)}: ACK {a[0]} but contiguous prefix received is [0,{n})")
            if prev is not None and a[0] < prev:
                msgs.append(f"sink-ack-decreases: arrival {k}: ACK {a[0]} after {prev}")
            prev = a[0]
            if a[1] != 3 + 10000 or a[2] != pid:
                msgs.append(f"sink-ack-header: ACK packet flow/id {a[1:3]} for segment {pid} of flow 3")
        if obs["n_out"] != len(case["segs"]):
            msgs.append(f"sink-ack-count: {obs['n_out']} ACKs for {len(case['segs'])} segments")
        return msgs[:4]

    def nontrivial(self, case, obs):
        s = case["segs"]
        return len(s) >= 3 and (len(set(map(tuple, s))) < len(s) or any(s[i][0] > s[i + 1][0] for i in range(len(s) - 1)))

    def shrink(self, case):
        s = case["segs"]
        for i in range(len(s)):
            yield {**case, "segs": s[:i] + s[i + 1:]}
        for i in range(len(s)):
            for j in (0, 1):
                if s[i][j] > 1:
                    t = [list(x) for x in s]
                    t[i][j] = s[i][j] // 2
                    yield {**case, "segs": t}

    def describe(self, case, obs):
        s = case["segs"]
        keys = ["sink"]
        if len(set(map(tuple, s))) < len(s):
            keys.append("sink:has-duplicate")
        if any(s[i][0] > s[i + 1][0] for i in range(len(s) - 1)):
            keys.append("sink:reordered")
        if all(x[0] != 0 for x in s):
            keys.append("sink:first-segment-missing")
        keys.append("sink:len=%d" % min(len(s), 12))
        return keys


PROP = C16()
