"""C07 -- Containers and stores are bounded, conservative, ordered, never strand a request.

Real Container / Store / PriorityStore / FilterStore objects are driven by seeded random histories
(2-8 driver processes; put / get / cancel; several operations per instant; coinciding instants).
The harness steps the clock itself and turns the observed execution into the action list of the
standalone model coq/Res/ContainerStore.v (ops in program order, AProcess micro-steps when the kernel
processes a request event of the resource, AAdvance when time moves); after EVERY action it records
level/items, both queues, the triggered-unprocessed events and the grants.  `agree_term` replays the
action list in the model and compares everything (and checks that the observed list is admissible).
`monitor` checks the clauses of the property directly on the implementation trace, without the model.
"""
from fractions import Fraction as F

from vlib.framework import Prop
from vlib import coqfmt as cf

KINDS = ["container", "store", "prio", "filter"]
AMOUNTS = ["1/1", "2/1", "3/1", "5/1", "1/2"]
DELAYS = ["0/1", "1/1", "2/1", "1/2", "3/1"]
STEP_LIMIT = 4000
FIXED = "true"      # the model of the repaired cancel (fix: e27f019); "false" is the code as found, used only by the refutation theorem


def fr(x):
    return F(x) if not isinstance(x, F) else x


def qj(x):
    return cf.qjson(x)


# ------------------------------------------------------------------------------------------------
# second tie (DESIGN 2.6): _do_put/_do_get of Container, Store, PriorityStore translated from the tree under
# test on every run (vlib/translate.py, fail closed) into coq/Gen/Extracted_container.v / Extracted_store.v;
# bridged to Res/ContainerStore.v by coq/Res/ContainerStoreBridge.v; obligations in Props/C07_Bridge.v.
# FilterStore._do_get: one iteration of its for loop, see props/res_tie.py.

CONT_READS = [("self._capacity", "capacity", "Q"),            # a finite capacity (float('inf') is not a rational:
              ("event.amount", "amount", "Q")]                #   the unbounded container is tied by the correspondence only)
CONT_FX = [("event.succeed()", "FxSucceed", [])]
STORE_READS = [("self.items", "n_items", "len", "volatile"), ("self._capacity", "capacity", "Q")]
STORE_FX = [("self.items.append(event.item)", "FxAppend", []),
            ("heappush(self.items, event.item)", "FxHeapPush", []),
            ("event.succeed()", "FxSucceed", []),
            ("event.succeed(self.items.pop(0))", "FxSucceedPop0", []),
            ("event.succeed(heappop(self.items))", "FxSucceedHeapPop", [])]


def extracted_container(repo):
    import os
    from vlib import translate as tr
    path = os.path.join(repo, "onl", "sim", "resources", "container.py")
    specs = [tr.FnSpec(path, "Container", m, f"gen_Container{m}", reads=CONT_READS, effects=CONT_FX, ret="bool")
             for m in ("_do_put", "_do_get")]
    return tr.gen_module("onl/sim/resources/container.py: Container._do_put, _do_get", "cont_st", "c_", [("_level", "Q")],
                         "cont_fx", [("FxSucceed", "")], specs)


def extracted_store(repo):
    import os
    from vlib import translate as tr
    path = os.path.join(repo, "onl", "sim", "resources", "store.py")
    specs = [tr.FnSpec(path, c, m, f"gen_{c}{m}", reads=STORE_READS, effects=STORE_FX, ret="bool")
             for c in ("Store", "PriorityStore") for m in ("_do_put", "_do_get")]
    return tr.gen_module("onl/sim/resources/store.py: Store / PriorityStore ._do_put, _do_get", None, "", [], "store_fx",
                         [("FxAppend", ""), ("FxHeapPush", ""), ("FxSucceed", ""), ("FxSucceedPop0", ""),
                          ("FxSucceedHeapPop", "")], specs)


class C07(Prop):
    id = "C07"
    props_file = ["Props/C07.v", "Props/C07_Bridge.v", "Props/C07_BridgeLoop.v", "Props/C07_BridgeFilter.v", "Props/C07_Examples.v"]
    coq_imports = ["From ONL Require Import Base.Cmp Res.Heap Res.ContainerStore Res.ContainerStoreObs."]
    n_quick = 3000
    n_thorough = 40000
    shard = 100
    case_timeout = 20
    nontrivial_rule = ("random histories on real Container/Store/PriorityStore/FilterStore objects: 1-8 driver processes, "
                       "amounts from {1,2,3,5,1/2} (plus rare invalid 0/-1); 10% EXACT-TYPED cases: int init/capacity/amounts/priorities at and above 2**53 with odd offsets, or fractions.Fraction thirds/tenths; capacities 1..10 / k/2 (also for stores) / infinite, initial levels, "
                       "items [value, tag, uid] that compare equal by value only (values/priorities from a 3-4 element set, so equal-but-distinct "
                       "items are the rule; 25% of the cases of every store kind use raw Python values tagged by type: int/float/bool/None/str/tuple, the falsy None, 0, 0.0, False, '' and () on purpose), "
                       "filters 'value = r mod m and tag = t' (tag/type filters separate equal values), "
                       "put/get in modes wait / nowait / patience (with-block + timeout, then cancel), cancels of arbitrary "
                       "(head, non-head, triggered, already cancelled) requests, delays from {0,1,2,1/2,3}; "
                       "non-trivial = at least one request waited in a queue and at least two grants happened; distinct by case hash")
    trusted_base = ["vlib/translate.py (Python ast, fail closed; tables in props/res_tie.py) regenerates coq/Gen/Extracted_scan.v (the initialisation and ONE iteration of the scan loops BaseResource._trigger_put / _trigger_get) and Extracted_baseres.v (Put / Get .__init__, .cancel, Request.__exit__, Release.__init__, PriorityRequest.__init__, SortedQueue.append) from the tree under test before every build; the C07_gen_* theorems of Props/C07_BridgeLoop.v run the generated iteration on the queue (fuel 1 + its length, shown sufficient) and bridge it to the hand-written model",
                    
        "harness: the clock is driven with env.step(); env._queue[0] is inspected before every step to label the step; "
        "env.schedule is wrapped (instance attribute) to see the order of succeed() calls; request objects are numbered at creation",
        "amounts, levels and times are dyadic, so the floats the code computes are exact and are compared as rationals; "
        "float rounding is outside the theorems",
        "CPython heapq is modelled by a transcription (coq/Res/Heap.v) that is compared with the real heap array after every action",
        "vlib/translate.py (Python ast, fail closed; observation/effect tables at the top of props/c07.py) regenerates "
        "coq/Gen/Extracted_container.v and Extracted_store.v from the _do_put/_do_get bodies of the tree under test before every "
        "build; the C07_gen_* theorems (Props/C07_Bridge.v) bridge them to the hand-written model (finite capacities)",
        "items are modelled as (value, tag, uid) with Leibniz equality; Python's == on items (value only) matters only in the "
        "as-found FilterStore._do_get (list.remove), kept as FilterStore_unfixed for the refutation theorem",
        "the model quantifies over every interleaving of operations and event processing; that the real kernel processes a "
        "triggered event before the clock advances is C01's statement and is checked here on every observed execution (admissibility)",
    ]
    assumptions = [
        "requests are triggered only by the resource (nobody calls succeed()/fail() on a pending request by hand)",
        "Container: 0 <= init <= capacity, as the constructor enforces; stores start empty",
        "store_bounded theorems: capacity > 0 or infinite, as the constructor enforces (fractional capacities included)",
        "PriorityStore items are compared by `<` on an integer key (PriorityItem.priority)",
    ]
    partial = []

    # ---- second tie: regenerate the translated bodies before the Coq build (fail closed) -------
    def pre_build(self):
        import os
        from vlib import framework as fw
        from vlib import translate as tr
        tr.write_if_changed(os.path.join(fw.COQ, "Gen", "Extracted_container.v"), extracted_container(fw.REPO))
        tr.write_if_changed(os.path.join(fw.COQ, "Gen", "Extracted_store.v"), extracted_store(fw.REPO))
        from props import res_tie
        res_tie.write_extracted(fw.REPO, fw.COQ)

    # ---- generation -------------------------------------------------------------------------
    def _param(self, rng, kind, op):
        if kind == "container":
            if rng.random() < 0.03:
                return rng.choice(["0/1", "-1/1"])
            return rng.choice(self._amounts)
        if op == "put":
            # an item is [value, tag, uid]: items of equal value compare EQUAL (==) although they are distinct
            # objects (distinct uid, possibly distinct tag); for PriorityStore the value is the priority.
            # raw mode (25% of the cases of every store kind): plain Python values, tag = type:
            # 0 int, 1 float, 2 bool, 3 None, 4 str ('a'*value), 5 tuple ((0,)*value); the falsy ones
            # None, 0, 0.0, False, '' and () are legal items and are generated on purpose (half of the raw items)
            self._uid += 1
            v = rng.choice([0, 1, 2]) if kind == "prio" else rng.randint(0, 3)
            if self._raw:
                tag = rng.choice([0, 1, 2, 3, 3, 4, 5])
                if rng.random() < 0.5:
                    v = 0
                if tag == 3:
                    v = 0
                elif tag in (2, 4, 5):
                    v = min(v, 1)
                return [v, tag, 0]
            return [v, rng.choice([0, 1, 2]), self._uid]
        if kind == "filter":
            m = rng.choice([1, 1, 2, 2, 3])
            tags = [-1, -1, 0, 1, 2, 3, 3, 4, 5] if self._raw else [-1, -1, 0, 1, 2]
            return [m, rng.randrange(m), rng.choice(tags)]      # value = r mod m, and tag (or any: -1)
        return None

    def gen_case(self, rng, tier):
        kind = rng.choice(KINDS)
        u = rng.random()
        if u < 0.25:
            cap = None
        elif u < 0.35 and kind == "container":
            cap = qj(F(rng.randint(1, 10)) + F(1, 2))
        elif u < 0.40:                          # a store with a fractional capacity k/2
            cap = qj(F(rng.randint(1, 9), 2))
        else:
            cap = qj(rng.randint(1, 10) if kind == "container" else rng.choice([1, 1, 2, 2, 3, 4, 6, 10]))
        case = {"kind": kind, "cap": cap, "t0": rng.choice(["0/1", "0/1", "1/2", "3/1"])}
        # EXACT-TYPED cases (a fixed share, 10%): the caller uses Python ints at and above 2**53 (odd offsets: off the
        # binary64 grid) or fractions.Fraction (thirds, tenths) for init / capacity / amounts / priorities.  int and
        # Fraction arithmetic is exact, like the model's Q/Z, so any detour of the code through float shows.
        exact = rng.choice(["int", "frac"]) if rng.random() < 0.10 else None
        self._amounts = AMOUNTS
        if exact:
            case["exact"] = exact
            if kind == "container":
                if exact == "int":
                    base = rng.choice([2 ** 53, 2 ** 53, 2 ** 60, 2 ** 64]) + rng.choice([1, 3, 5, 7, 1025])
                    init = base + rng.randint(0, 4)
                    case["cap"] = None if rng.random() < 0.3 else qj(init + rng.randint(0, 6))
                    case["init"] = qj(init)
                    self._amounts = ["1/1", "1/1", "2/1", "3/1", "5/1", qj(init + 3), qj(base + 1)]
                else:
                    den = rng.choice([3, 10, 10, 30])
                    top = rng.randint(2, 12)
                    case["cap"] = None if rng.random() < 0.3 else qj(F(top, den))
                    case["init"] = qj(F(rng.randint(0, top), den))
                    self._amounts = [qj(F(k, den)) for k in (1, 1, 2, 3, 4)] + ["1/1"]
            elif exact == "int":
                case["cap"] = rng.choice([qj(2 ** 53 + 1), qj(2 ** 64 + 3), cap])
            else:
                case["cap"] = rng.choice([qj(F(rng.randint(3, 12), 3)), qj(F(rng.randint(5, 35), 10)), cap])
        self._uid = 0
        self._raw = kind != "container" and not exact and rng.random() < 0.25
        if kind != "container":
            case["raw"] = self._raw
        if kind == "container" and not exact:
            top = fr(cap) if cap is not None else F(10)
            case["init"] = qj(min(top, F(rng.randint(0, 20), 2)) if rng.random() < 0.8 else top)
        nproc = rng.choice([1, 2, 2, 3, 3, 4, 4, 5, 6, 8])
        put_bias = rng.choice([0.3, 0.5, 0.5, 0.7])
        total = 0
        procs = []
        for _ in range(nproc):
            ins = []
            for _ in range(rng.randint(1, 6)):
                u = rng.random()
                if u < 0.62:
                    op = "put" if rng.random() < put_bias else "get"
                    mode = rng.choice(["wait", "wait", "nowait", "nowait", "patience"])
                    ins.append([op, self._param(rng, kind, op), mode, rng.choice(DELAYS)])
                    total += 1
                elif u < 0.82:
                    ins.append(["cancel", rng.randint(0, max(1, total + 3))])
                else:
                    ins.append(["sleep", rng.choice(DELAYS)])
            procs.append(ins)
        case["procs"] = procs
        return case

    # ---- implementation ---------------------------------------------------------------------
    def run_impl(self, case):
        from onl.sim import Environment
        from onl.sim.resources.base import Put, Get
        from onl.sim.resources.container import Container
        from onl.sim.resources.store import Store, PriorityStore, FilterStore, PriorityItem

        kind = case["kind"]
        cap = None if case["cap"] is None else fr(case["cap"])

        def num(x):      # exact dyadic -> the number the user would write (times, and amounts of ordinary cases)
            x = fr(x)
            return int(x) if x.denominator == 1 else float(x)

        exact = case.get("exact")

        def anum(x):     # amounts / levels / capacities: exact-typed cases never touch float
            x = fr(x)
            if exact == "frac":
                return x
            if exact == "int":
                return int(x) if x.denominator == 1 else x      # a fractional capacity stays a Fraction: still exact
            return num(x)

        def prio_of(v):  # the priority a PriorityItem of canonical value v is put with (order preserving)
            if exact == "int":
                return 2 ** 53 + 1 + v          # neighbours that binary64 cannot tell apart
            if exact == "frac":
                return F(1, 3) + F(v, 10)
            return v

        pcap = float("inf") if cap is None else anum(cap)
        env = Environment(initial_time=num(case["t0"]))
        if kind == "container":
            res = Container(env, capacity=pcap, init=anum(case["init"]))
        elif kind == "store":
            res = Store(env, capacity=pcap)
        elif kind == "prio":
            res = PriorityStore(env, capacity=pcap)
        else:
            res = FilterStore(env, capacity=pcap)

        reqs, rid, sched, acts = [], {}, [], []
        st = {"cur": fr(case["t0"]), "open": None, "error": None}

        orig_schedule = env.schedule

        def schedule(event, *a, **k):
            if isinstance(event, (Put, Get)) and getattr(event, "resource", None) is res:
                sched.append(event)
            return orig_schedule(event, *a, **k)
        env.schedule = schedule

        class Item:
            """an ordinary value object: equality by value; tag and uid do not take part in ==
            (like a dataclass with compare=False fields)"""
            __slots__ = ("v", "tag", "uid")

            def __init__(self, v, tag, uid):
                self.v, self.tag, self.uid = v, tag, uid

            def __eq__(self, other):
                return isinstance(other, Item) and self.v == other.v

            def __hash__(self):
                return hash(self.v)

        raw = bool(case.get("raw"))

        def raw_item(v, tag):
            return [int(v), float(v), bool(v), None, "a" * v, (0,) * v][tag]

        def canon_raw(x):          # [value, type tag, 0]: False, 0, 0.0, None, '' and () stay distinct
            if x is None:
                return [0, 3, 0]
            if isinstance(x, bool):
                return [int(x), 2, 0]
            if isinstance(x, int):
                return [x, 0, 0]
            if isinstance(x, float):
                return [int(x), 1, 0]
            if isinstance(x, str):
                return [len(x), 4, 0]
            if isinstance(x, tuple):
                return [len(x), 5, 0]
            raise AssertionError(f"harness: unknown item {x!r}")

        def canon_item(x):
            if kind == "prio":
                if not isinstance(x, PriorityItem):
                    raise AssertionError(f"harness: PriorityStore holds/delivers {x!r}")
                if isinstance(x.item, Item) and x.priority != prio_of(x.item.v):
                    raise AssertionError(f"harness: priority {x.priority!r} of an item put with {prio_of(x.item.v)!r}")
                x = x.item
            if isinstance(x, Item):
                return [x.v, x.tag, x.uid]
            return canon_raw(x)

        def snapshot():
            if kind == "container":
                c = qj(res.level)
            else:
                c = [canon_item(x) for x in res.items]
            return {"c": c,
                    "pq": [rid.get(id(r), -1) for r in res.put_queue],
                    "gq": [rid.get(id(r), -1) for r in res.get_queue],
                    "tr": [rid.get(id(e), -1) for e in sched if e.callbacks is not None],
                    "nlog": len(sched), "now": qj(st["cur"])}

        def record(a):
            if st["open"] is not None:
                st["open"]["snap"] = snapshot()
            rec = {"a": a, "raised": False}
            acts.append(rec)
            st["open"] = rec
            return rec

        def register(req, k, p):
            rid[id(req)] = len(reqs)
            reqs.append((req, k, p))

        def mk(op, p):
            if kind == "container":
                return res.put(anum(p)) if op == "put" else res.get(anum(p))
            if op == "put":
                it = raw_item(p[0], p[1]) if raw else Item(p[0], p[1], p[2])
                return res.put(PriorityItem(prio_of(p[0]), it) if kind == "prio" else it)
            if kind == "filter":
                m, r, t = p
                if raw:
                    if (m, t) == (1, -1):
                        return res.get()            # the default filter: lambda item: True
                    if t == 3 and r == 0:
                        return res.get(lambda x: x is None)
                    return res.get(lambda x, m=m, r=r, t=t: canon_raw(x)[0] % m == r and (t < 0 or canon_raw(x)[1] == t))
                return res.get(lambda x, m=m, r=r, t=t: x.v % m == r and (t < 0 or x.tag == t))
            return res.get()

        def proc(ins):
            for i in ins:
                if i[0] == "sleep":
                    yield env.timeout(num(i[1]))
                elif i[0] == "cancel":
                    if i[1] < len(reqs):
                        rec = record(["cancel", i[1]])
                        try:
                            reqs[i[1]][0].cancel()
                        except ValueError:
                            rec["raised"] = True
                else:
                    op, p, mode, d = i
                    rec = record([op, p])
                    try:
                        req = mk(op, p)
                    except ValueError:
                        rec["raised"] = True
                        continue
                    register(req, op, p)
                    if mode == "wait":
                        yield req
                    elif mode == "patience":
                        yield req | env.timeout(num(d))
                        rec = record(["cancel", rid[id(req)]])
                        try:
                            req.__exit__(None, None, None)     # what leaving a `with` block does
                        except ValueError:
                            rec["raised"] = True

        for ins in case["procs"]:
            env.process(proc(ins))

        steps = 0
        try:
            while env._queue and steps < STEP_LIMIT:
                t, _prio, _eid, ev = env._queue[0]
                if fr(t) > st["cur"]:
                    record(["adv", qj(t)])      # closes the previous snapshot with the old time
                    st["cur"] = fr(t)
                if isinstance(ev, (Put, Get)) and getattr(ev, "resource", None) is res:
                    record(["proc", rid.get(id(ev), -1)])
                env.step()
                steps += 1
                if fr(env.now) != st["cur"]:
                    raise AssertionError(f"harness: env.now={env.now} but tracked time {st['cur']}")
        except AssertionError:
            raise
        except Exception as e:          # the resource (or the kernel under it) raised: never expected
            st["error"] = [type(e).__name__, str(e)[:200]]
        exhausted = not env._queue
        if exhausted and st["error"] is None:
            record(["adv", qj(st["cur"] + 1)])   # nothing is scheduled any more: the clock can only advance
            st["cur"] = st["cur"] + 1
        if st["open"] is not None:
            st["open"]["snap"] = snapshot()

        def val(e):
            # a put (and a Container get) is triggered with None; a store get with an item -- which may be None
            v = e.value
            if isinstance(e, Put) or kind == "container":
                return None if v is None else ["unexpected-value", repr(v)[:40], 0]
            return canon_item(v)
        return {"acts": acts, "log": [[rid.get(id(e), -1), val(e)] for e in sched],
                "reqs": [[k, p] for (_r, k, p) in reqs], "error": st["error"], "steps": steps, "exhausted": exhausted}

    # ---- model ------------------------------------------------------------------------------
    def _K(self, case):
        cap = cf.opt(case["cap"], cf.q)
        return {"container": f"(Container {cap})", "store": f"(Store item {cap})",
                "prio": f"(PriorityStore item item_v {cap})", "filter": f"(FilterStore item {cap})"}[case["kind"]]

    def _content(self, kind, c):
        if kind == "container":
            return cf.q(c)
        return cf.lst([self._item(x) for x in c])

    def _item(self, x):
        return cf.pair(cf.z(x[0]), cf.z(x[1]), cf.z(x[2]))

    def _act(self, kind, a):
        t = a[0]
        if t == "put":
            p = a[1]
            v = cf.q(p) if kind == "container" else self._item(p)
            return f"@APut K {v}"
        if t == "get":
            p = a[1]
            v = cf.q(p) if kind == "container" else (f"(fsel {cf.z(p[0])} {cf.z(p[1])} {cf.z(p[2])})" if kind == "filter" else "tt")
            return f"@AGet K {v}"
        if t == "cancel":
            return f"@ACancel K {cf.nat(a[1])}"
        if t == "proc":
            return f"@AProcess K {cf.nat(a[1])}"
        return f"@AAdvance K {cf.q(a[1])}"

    def _value(self, kind, v):
        if kind == "container":
            return "tt"
        return self._item(v)

    def _terms(self, case, obs):
        kind = case["kind"]
        acts = cf.lst([self._act(kind, r["a"]) for r in obs["acts"]])
        c0 = cf.q(case["init"]) if kind == "container" else "[]"
        return kind, acts, c0, cf.q(case["t0"])

    def agree_term(self, case, obs):
        if obs["error"] is not None or not obs["exhausted"]:
            return "false"
        kind, acts, c0, t0 = self._terms(case, obs)
        for r in obs["acts"]:
            s = r["snap"]
            if any(i < 0 for i in s["pq"] + s["gq"] + s["tr"]) or (r["a"][0] in ("proc", "cancel") and r["a"][1] < 0):
                return "false (* an unregistered request object showed up in a queue *)"
        if any(i < 0 for i, _ in obs["log"]):
            return "false"
        snaps = cf.lst([cf.pair(self._content(kind, r["snap"]["c"]),
                                cf.lst([cf.nat(i) for i in r["snap"]["pq"]]),
                                cf.lst([cf.nat(i) for i in r["snap"]["gq"]]),
                                cf.lst([cf.nat(i) for i in r["snap"]["tr"]]),
                                cf.nat(r["snap"]["nlog"]), cf.b(r["raised"]), cf.q(r["snap"]["now"]))
                        for r in obs["acts"]])
        flog = cf.lst([cf.pair(cf.nat(i), cf.opt(v, lambda x: "tt" if kind == "container" else self._value(kind, x)))
                       for i, v in self._flog(kind, obs)])
        fn = {"container": "agree_container", "store": "agree_store", "prio": "agree_prio", "filter": "agree_filter"}[kind]
        cap = cf.opt(case["cap"], cf.q)
        return f"(let K := {self._K(case)} in {fn} {cap} {FIXED} {c0} {t0} {acts} {snaps} {flog})"

    def _flog(self, kind, obs):
        """observed grant log in the model's convention: puts carry no value; a Container get carries tt"""
        out = []
        for i, v in obs["log"]:
            k = obs["reqs"][i][0]
            if k == "put":
                out.append((i, None))
            else:
                out.append((i, "tt" if kind == "container" else v))
        return out

    def model_term(self, case):
        obs = self.run_impl(case)
        kind, acts, c0, t0 = self._terms(case, obs)
        return f"(let K := {self._K(case)} in show K {FIXED} {c0} {t0} {acts})"

    # ---- the property as an oracle over the implementation's trace -----------------------------
    def monitor(self, case, obs):
        kind = case["kind"]
        cap = None if case["cap"] is None else fr(case["cap"])
        if obs["error"] is not None:
            return [f"resource-raises: {obs['error']}"]
        if not obs["exhausted"]:
            return [f"run-does-not-end: {obs['steps']} kernel steps and the agenda is not empty"]
        msgs = []

        def bad(m):
            if len(msgs) < 6:
                msgs.append(m)

        created = []                      # id -> (kind of request, parameter)
        pend = {"put": [], "get": []}     # ids in arrival order
        granted = {}
        processed = {}
        level = fr(case["init"]) if kind == "container" else None
        held = []                         # reference content of a store, in insertion order
        accepted, delivered = [], []
        nlog = 0
        prev = {"c": case.get("init") if kind == "container" else [], "pq": [], "gq": [], "tr": []}

        def matches(p, x):          # x = [value, tag, uid]
            return x[0] % p[0] == p[1] and (p[2] < 0 or x[1] == p[2])

        def satisfiable_put(snap, p):
            if kind == "container":
                return cap is None or cap - fr(snap["c"]) >= fr(p)
            return cap is None or len(snap["c"]) + 1 <= cap      # room for one more item

        def satisfiable_get(snap, p):
            if kind == "container":
                return fr(snap["c"]) >= fr(p)
            if kind == "filter":
                return any(matches(p, x) for x in snap["c"])
            return len(snap["c"]) > 0

        for k, rec in enumerate(obs["acts"]):
            a, snap = rec["a"], rec["snap"]
            where = f"action {k} {a}"
            if a[0] in ("put", "get"):
                if rec["raised"]:
                    if not (kind == "container" and fr(a[1]) <= 0):
                        bad(f"request-raises: {where} raised ValueError")
                else:
                    if kind == "container" and fr(a[1]) <= 0:
                        bad(f"invalid-amount-accepted: {where}")
                    pend[a[0]].append(len(created))
                    created.append((a[0], a[1]))
            elif a[0] == "cancel":
                i = a[1]
                was_pending = any(i in pend[q] for q in pend)
                for q in pend:
                    if i in pend[q]:
                        pend[q].remove(i)
                if rec["raised"] and (was_pending or i in granted):
                    bad(f"cancel-raises: {where} raised although the request was pending or granted")
            elif a[0] == "proc":
                i = a[1]
                processed[i] = processed.get(i, 0) + 1
                if i not in granted:
                    bad(f"event-processed-untriggered: {where}")
            elif a[0] == "adv":
                # the clock is about to advance: state = snapshot after the previous action
                if prev["tr"]:
                    bad(f"advance-with-unprocessed-event: {where}: events {prev['tr']} were triggered and not processed")
                if pend["put"]:
                    i = pend["put"][0]
                    if satisfiable_put(prev, created[i][1]):
                        bad(f"put-stranded: {where}: oldest pending put #{i} {created[i][1]} is satisfiable "
                            f"(content {prev['c']}, capacity {case['cap']}) while the clock advances")
                if pend["get"]:
                    i = pend["get"][0]
                    if satisfiable_get(prev, created[i][1]):
                        bad(f"get-stranded: {where}: oldest pending get #{i} {created[i][1]} is satisfiable "
                            f"(content {prev['c']}) while the clock advances")
                    if kind == "filter":
                        for j in pend["get"][1:]:
                            if satisfiable_get(prev, created[j][1]):
                                bad(f"filter-get-stranded: {where}: pending get #{j} {created[j][1]} matches an item of {prev['c']}")
            # grants that happened during this action, in the order of the succeed() calls
            for (i, v) in obs["log"][nlog:snap["nlog"]]:
                if i < 0 or i >= len(created):
                    bad(f"unknown-request-triggered: {where}")
                    continue
                rk, p = created[i]
                if i in granted:
                    bad(f"triggered-twice: {where}: request #{i}")
                    continue
                if i not in pend[rk]:
                    bad(f"granted-not-pending: {where}: request #{i} was cancelled or never queued")
                else:
                    older = [j for j in pend[rk] if j < i]
                    if rk == "get" and kind == "filter":
                        for j in older:
                            if any(matches(created[j][1], x) for x in held):
                                bad(f"filter-overtake: {where}: get #{i} served while older get #{j} {created[j][1]} matches an item of {held}")
                    elif older:
                        bad(f"fcfs-violated: {where}: {rk} #{i} granted while older {rk} {older} pending")
                    pend[rk].remove(i)
                granted[i] = v
                if rk == "put":
                    if v is not None:
                        bad(f"put-value: {where}: put #{i} triggered with value {v}")
                    if kind == "container":
                        level += fr(p)
                    else:
                        accepted.append(p)
                        held.append(p)
                else:
                    if kind == "container":
                        level -= fr(p)
                        if v is not None:
                            bad(f"get-value: {where}: container get #{i} triggered with value {v}")
                    else:
                        delivered.append(v)
                        if v not in held:
                            bad(f"delivered-unknown-item: {where}: get #{i} received {v}, not among the held items {held}")
                            continue
                        if kind == "store" and held[0] != v:
                            bad(f"store-not-fifo: {where}: get #{i} received {v}, oldest held item is {held[0]} (held {held})")
                        if kind == "prio" and any(y[0] < v[0] for y in held):
                            bad(f"prio-not-min: {where}: get #{i} received {v} while {min(held)} is held")
                        if kind == "filter":
                            fm = [x for x in held if matches(p, x)]
                            if not matches(p, v):
                                bad(f"filter-mismatch: {where}: get #{i} filter {p} received {v}")
                            elif held.index(v) != held.index(fm[0]):
                                bad(f"filter-not-first-match: {where}: get #{i} filter {p} received {v}, first match is {fm[0]} (held {held})")
                        held.remove(v)
            nlog = snap["nlog"]
            # the observed state against the bookkeeping above
            if kind == "container":
                lv = fr(snap["c"])
                if lv < 0 or (cap is not None and lv > cap):
                    bad(f"level-out-of-bounds: {where}: level {lv}, capacity {case['cap']}")
                if lv != level:
                    bad(f"level-not-conserved: {where}: level {lv} is not EXACTLY init + granted puts - granted gets = {level}")
            else:
                if cap is not None and len(snap["c"]) > cap:
                    bad(f"store-over-capacity: {where}: {len(snap['c'])} items, capacity {case['cap']}")
                if sorted(map(repr, snap["c"])) != sorted(map(repr, held)):
                    bad(f"items-not-conserved: {where}: held {snap['c']}, accepted minus delivered {held}")
                elif kind != "prio" and snap["c"] != held:
                    bad(f"items-order: {where}: held {snap['c']}, insertion order {held}")
            if snap["pq"] != pend["put"] or snap["gq"] != pend["get"]:
                bad(f"queue-order: {where}: queues {snap['pq']} / {snap['gq']}, pending in arrival order {pend['put']} / {pend['get']}")
            if any(i not in granted for i in snap["tr"]):
                bad(f"pending-event-not-granted: {where}")
            prev = snap
        for i in granted:
            if processed.get(i, 0) != 1:
                bad(f"event-processed-{processed.get(i, 0)}-times: request #{i} was triggered and its event processed {processed.get(i, 0)} times")
        return msgs

    def nontrivial(self, case, obs):
        if obs.get("error") is not None:
            return False
        waited = any(r["snap"]["pq"] or r["snap"]["gq"] for r in obs["acts"])
        return waited and len(obs["log"]) >= 2

    def shrink(self, case):
        procs = case["procs"]
        for i in range(len(procs)):
            if len(procs) > 1:
                yield {**case, "procs": procs[:i] + procs[i + 1:]}
        for i in range(len(procs)):
            for j in range(len(procs[i])):
                yield {**case, "procs": procs[:i] + [procs[i][:j] + procs[i][j + 1:]] + procs[i + 1:]}
        for i in range(len(procs)):
            for j, ins in enumerate(procs[i]):
                if ins[0] in ("put", "get") and ins[2] != "nowait":
                    new = [ins[0], ins[1], "nowait", ins[3]]
                    yield {**case, "procs": procs[:i] + [procs[i][:j] + [new] + procs[i][j + 1:]] + procs[i + 1:]}
                if ins[0] == "cancel" and ins[1] > 0:
                    yield {**case, "procs": procs[:i] + [procs[i][:j] + [["cancel", ins[1] - 1]] + procs[i][j + 1:]] + procs[i + 1:]}
        if case["t0"] != "0/1":
            yield {**case, "t0": "0/1"}

    def describe(self, case, obs):
        keys = [case["kind"], case["kind"] + (":cap=inf" if case["cap"] is None else ":cap=finite")]
        if obs.get("error") is not None:
            return keys + ["raised"]
        acts = obs["acts"]
        if case.get("exact"):
            keys.append("exact-typed:" + case["exact"])
            keys.append(case["kind"] + ":exact-typed")
        if case.get("raw"):
            keys.append(case["kind"] + ":raw-python-values")
            puts = [r["a"][1] for r in acts if r["a"][0] == "put"]
            if any(p[1] == 3 for p in puts):
                keys.append("puts-None")
            if any(p[0] == 0 for p in puts):
                keys.append("puts-falsy-item")
        n_c = sum(1 for r in acts if r["a"][0] == "cancel")
        if n_c:
            keys.append("has-cancel")
        heads = 0
        for k, r in enumerate(acts):
            if r["a"][0] == "cancel" and k > 0:
                p = acts[k - 1]["snap"]
                if (p["pq"] and p["pq"][0] == r["a"][1]) or (p["gq"] and p["gq"][0] == r["a"][1]):
                    heads += 1
        if heads:
            keys.append("cancel-of-head")
        if any(r["raised"] for r in acts):
            keys.append("some-call-raised")
        if any(len(r["snap"]["tr"]) >= 2 for r in acts):
            keys.append(">=2-events-pending-at-one-instant")
        nadv = sum(1 for r in acts if r["a"][0] == "adv")
        keys.append("advances=%s" % ("1" if nadv <= 1 else "2-4" if nadv <= 4 else "5+"))
        keys.append("actions=%s" % ("<10" if len(acts) < 10 else "10-29" if len(acts) < 30 else "30+"))
        keys.append("grants=%s" % ("0-1" if len(obs["log"]) < 2 else "2-9" if len(obs["log"]) < 10 else "10+"))
        return keys


PROP = C07()
