"""Second tie (DESIGN 2.6) for the resource base class (C06 / C07): BaseResource._trigger_put / _trigger_get (the scan loops),
Put / Get .__init__ and .cancel, Request.__exit__, Release.__init__, PriorityRequest.__init__, SortedQueue.append,
FilterStore._do_get translated from the tree under test on every run (vlib/translate.py, fail closed) into
coq/Gen/Extracted_scan.v (loops: ONE iteration, the loop index is the state record) and coq/Gen/Extracted_baseres.v;
bridged to Res/Resource.v and Res/ContainerStore.v by coq/Res/ScanBridge.v, ResourceLoopBridge.v, ContainerLoopBridge.v;
obligations in Props/C06_BridgeLoop.v, C07_BridgeLoop.v.  Used by props/c06.py and props/c07.py (pre_build)."""
import os

# ---- the scan loops: while idx < len(queue): ev = queue[idx]; proceed = _do(ev); not triggered: idx += 1 / pop(idx); not proceed: break
SCAN_STATE = [("idx", "Z")]
SCAN_CONS = [("FxDo", ""),                  # proceed = self._do_put(put_event) / self._do_get(get_event)
             ("FxPopAtIdx", ""),            # self.put_queue.pop(idx) != put_event   (the comparison is the observation pop_mismatch)
             ("FxRaiseInvariant", ""),      # raise RuntimeError('Put/Get queue invariant violated')
             ("FxLoopAgain", "")]           # the body ran to its end: the test is evaluated again


def _scan_specs(path, which):
    from vlib import translate as tr
    q, ev, do = f"self.{which}_queue", f"{which}_event", f"self._do_{which}({which}_event)"
    kw = dict(reads=[(q, "n_queue", "len"), (f"{ev}.triggered", "triggered", "bool", "needs:FxDo")],
              effects=[(f"raise RuntimeError('{which.capitalize()} queue invariant violated')", "FxRaiseInvariant", [])],
              aliases=[(f"{ev} = {q}[idx]", ev)],
              draws=[(do, "proceed", "bool", "FxDo"), (f"{q}.pop(idx) != {ev}", "pop_mismatch", "bool", "FxPopAtIdx")],
              loop_again="FxLoopAgain", local_state=True)
    return [tr.FnSpec(path, "BaseResource", f"_trigger_{which}", f"gen_trigger_{which}_init", select="before_loop", local_state=True),
            tr.FnSpec(path, "BaseResource", f"_trigger_{which}", f"gen_trigger_{which}_iter", select="loop", **kw)]


def extracted_scan(repo):
    from vlib import translate as tr
    path = os.path.join(repo, "onl", "sim", "resources", "base.py")
    return tr.gen_module("onl/sim/resources/base.py: BaseResource._trigger_put / _trigger_get -- the initialisation and ONE "
                         "iteration of the scan loop (state record = the loop index)", "scan_st", "l_", SCAN_STATE, "scan_fx",
                         SCAN_CONS, _scan_specs(path, "put") + _scan_specs(path, "get"))


# ---- FilterStore._do_get: for i, item in enumerate(self.items): if event.filter(item): del self.items[i]; succeed(item); break
FILTER_CONS = [("FxDelAt", "(i : Z)"),        # del self.items[i]
               ("FxSucceedItem", ""),         # event.succeed(item)
               ("FxReturnTrue", ""),          # return True
               ("FxLoopAgain", "")]


def extracted_filterget(repo):
    from vlib import translate as tr
    path = os.path.join(repo, "onl", "sim", "resources", "store.py")
    spec = tr.FnSpec(path, "FilterStore", "_do_get", "gen_FilterStore_do_get_iter", select="loop", local_state=True,
                     reads=[("self.items", "n_items", "len"), ("event.filter(item)", "matches", "bool")],
                     effects=[("del self.items[_1]", "FxDelAt", ["Z"]), ("event.succeed(item)", "FxSucceedItem", []),
                              ("return True", "FxReturnTrue", [])],
                     loop_again="FxLoopAgain")
    return tr.gen_module("onl/sim/resources/store.py: FilterStore._do_get -- ONE iteration of `for i, item in enumerate(self.items)` "
                         "(state record = i, which enumerate starts at 0) and the return after the loop", "fget_st", "f_", [("i", "Z")],
                         "fget_fx", FILTER_CONS, [spec])


def write_extracted(repo, coq_dir):
    from vlib import translate as tr
    tr.write_if_changed(os.path.join(coq_dir, "Gen", "Extracted_scan.v"), extracted_scan(repo))
    tr.write_if_changed(os.path.join(coq_dir, "Gen", "Extracted_baseres.v"), extracted_baseres(repo))
    tr.write_if_changed(os.path.join(coq_dir, "Gen", "Extracted_filterget.v"), extracted_filterget(repo))


# ---- the straight-line bodies around the loops -------------------------------------------------------------------------
BASE_STATE = [("priority", "Z"), ("preempt", "bool"), ("time", "Z")]          # the fields PriorityRequest.__init__ sets
BASE_CONS = [("FxEventInit", ""),            # super().__init__(resource._env)
             ("FxSetResource", ""),          # self.resource = resource
             ("FxSetProc", ""),              # self.proc = self.env.active_process
             ("FxEnqueuePut", ""),           # resource.put_queue.append(self)     (PutQueue.append: list / SortedQueue)
             ("FxEnqueueGet", ""),           # resource.get_queue.append(self)
             ("FxCallbackTriggerGet", ""),   # self.callbacks.append(resource._trigger_get)
             ("FxCallbackTriggerPut", ""),   # self.callbacks.append(resource._trigger_put)
             ("FxTriggerPut", ""),           # resource._trigger_put(None)
             ("FxTriggerGet", ""),           # resource._trigger_get(None)
             ("FxDequeuePut", ""),           # self.resource.put_queue.remove(self)
             ("FxDequeueGet", ""),           # self.resource.get_queue.remove(self)
             ("FxCancel", ""),               # self.cancel()
             ("FxPutExit", ""),              # super().__exit__(exc_type, exc_value, traceback)   (Put.__exit__ = cancel)
             ("FxRelease", ""),              # self.resource.release(self)
             ("FxSetRequest", ""),           # self.request = request
             ("FxGetInit", ""),              # super().__init__(resource)   (Get.__init__)
             ("FxPutInit", ""),              # super().__init__(resource)   (Put.__init__, through Request)
             ("FxSetKey", "(p : Z) (t : Z) (not_preempt : bool)"),   # self.key = (self.priority, self.time, not self.preempt)
             ("FxRaiseQueueFull", ""),       # raise RuntimeError('Cannot append event. Queue is full.')
             ("FxListAppend", ""),           # super().append(item)
             ("FxSortByKey", "")]            # super().sort(key=lambda e: e.key)
BASE_FX = [("super().__init__(resource._env)", "FxEventInit", []),
           ("self.resource = resource", "FxSetResource", []),
           ("self.proc: Optional[Process] = self.env.active_process", "FxSetProc", []),
           ("self.proc = self.env.active_process", "FxSetProc", []),
           ("resource.put_queue.append(self)", "FxEnqueuePut", []),
           ("resource.get_queue.append(self)", "FxEnqueueGet", []),
           ("self.callbacks.append(resource._trigger_get)", "FxCallbackTriggerGet", []),
           ("self.callbacks.append(resource._trigger_put)", "FxCallbackTriggerPut", []),
           ("resource._trigger_put(None)", "FxTriggerPut", []),
           ("resource._trigger_get(None)", "FxTriggerGet", []),
           ("self.resource.put_queue.remove(self)", "FxDequeuePut", []),
           ("self.resource.get_queue.remove(self)", "FxDequeueGet", []),
           ("self.resource._trigger_put(None)", "FxTriggerPut", []),
           ("self.resource._trigger_get(None)", "FxTriggerGet", []),
           ("self.cancel()", "FxCancel", []),
           ("super().__exit__(exc_type, exc_value, traceback)", "FxPutExit", []),
           ("self.resource.release(self)", "FxRelease", []),
           ("self.request = request", "FxSetRequest", []),
           ("self.key = (_1, _2, _3)", "FxSetKey", ["Z", "Z", "bool"]),
           ("raise RuntimeError('Cannot append event. Queue is full.')", "FxRaiseQueueFull", []),
           ("super().append(item)", "FxListAppend", []),
           ("super().sort(key=lambda e: e.key)", "FxSortByKey", [])]


def extracted_baseres(repo):
    from vlib import translate as tr
    base = os.path.join(repo, "onl", "sim", "resources", "base.py")
    res = os.path.join(repo, "onl", "sim", "resources", "resource.py")
    trig = [("self.triggered", "triggered", "bool")]

    def S(path, cls, method, name, reads=(), fx=None):
        return tr.FnSpec(path, cls, method, name, reads=reads, effects=fx if fx is not None else BASE_FX)
    init_get = [e for e in BASE_FX if e[1] != "FxPutInit"] + [("super().__init__(resource)", "FxGetInit", [])]
    init_put = [e for e in BASE_FX if e[1] != "FxGetInit"] + [("super().__init__(resource)", "FxPutInit", [])]
    specs = [S(base, "Put", "__init__", "gen_Put_init"), S(base, "Get", "__init__", "gen_Get_init"),
             S(base, "Put", "cancel", "gen_Put_cancel", trig), S(base, "Get", "cancel", "gen_Get_cancel", trig),
             S(base, "Put", "__exit__", "gen_Put_exit"),
             S(res, "Request", "__exit__", "gen_Request_exit", [("exc_type is not GeneratorExit", "not_generator_exit", "bool")]),
             S(res, "Release", "__init__", "gen_Release_init", fx=init_get),
             S(res, "PriorityRequest", "__init__", "gen_PriorityRequest_init",
               [("priority", "priority_arg", "Z"), ("preempt", "preempt_arg", "bool"), ("resource._env.now", "now", "Z")], fx=init_put),
             S(res, "SortedQueue", "append", "gen_SortedQueue_append", [("self.maxlen", "maxlen", "optZ"), ("self", "n", "len")])]
    return tr.gen_module("onl/sim/resources/base.py: Put / Get .__init__, .cancel, Put.__exit__; resource.py: Request.__exit__, "
                         "Release.__init__, PriorityRequest.__init__, SortedQueue.append", "req_st", "q_", BASE_STATE, "base_fx",
                         BASE_CONS, specs)
