"""Part 'wfq': WFQ (onl/scheduler/wfq.py) and VirtualClock (onl/scheduler/virtual_clock.py) on top of
Scheduler (onl/scheduler/base.py) and the kernel PriorityStore.  Serves C14 (whole property), C12 (all
clauses for these two schedulers) and C08 (conservation).

Models: coq/Elem/WFQServer.v (the stamped-priority server: PriorityStore micro-steps, run() loop,
send_packet child, per-flow counters), coq/Elem/WFQ.v and coq/Elem/VC.v (the two stamping disciplines).
The monitors below are the property statements evaluated on the implementation's log; they recompute
virtual time, stamps and the required service order from the observed arrivals / transmission starts in
exact rationals and never look at the Coq model."""
from fractions import Fraction
from itertools import combinations

from vlib import coqfmt as cf
from props import elem_common as ec

F0 = Fraction(0)
TOL = Fraction(1, 10 ** 9)


# ------------------------------------------------------------------------------------------------------
# exactness of the floats WFQ computes
def _nice(n):
    """n = 2^a or 3*2^a : dividing a multiple of 3*2^-k by n stays dyadic"""
    while n % 2 == 0:
        n //= 2
    return n in (1, 3)


def exact_table(ws):
    """every non-empty sub-multiset of the weight table sums to 2^a or 3*2^a"""
    ws = list(ws)
    for r in range(1, len(ws) + 1):
        for sub in combinations(ws, r):
            if not _nice(sum(sub)):
                return False
    return True


EXACT_TABLES = {k: [t for t in __import__("itertools").product([1, 2, 3, 4], repeat=k) if exact_table(t)] for k in (1, 2, 3, 4)}
SIZES3 = [96, 192, 384, 768, 1536]                       # 3*2^j : 8*size/(rate*3) is dyadic
SIZES_ANY = [64, 100, 128, 500, 512, 1000, 1500]
LAT3 = [Fraction(0), Fraction(3, 4), Fraction(3, 2), Fraction(3), Fraction(9, 2), Fraction(6), Fraction(9), Fraction(12)]
RATES = [256, 512, 1024, 2048, 4096]
VTICKS = [Fraction(1, 4), Fraction(1, 2), Fraction(1), Fraction(3, 2), Fraction(2), Fraction(3)]


def close(a, b, exact):
    if exact:
        return a == b
    return abs(a - b) <= TOL * (1 + abs(b))


# ------------------------------------------------------------------------------------------------
# second tie (DESIGN 2.6): WFQ.put / update_vtime / reset_vtime and VC.put translated from the tree under test on
# every run (vlib/translate.py, fail closed) into coq/Gen/Extracted_wfq.v / Extracted_vc.v; bridged to wfq_put /
# update_vtime (Elem/WFQ.v) and vc_put (Elem/VC.v) and to the FPut step of Elem/WFQServer.v by coq/Elem/WFQBridge.v,
# VCBridge.v; obligations in Props/C14_Bridge.v.  Residue (whitelisted statements, not translated): the loop of
# reset_vtime over self.weights.keys() (a function parameter `reset_finish`) and the loop of update_vtime summing
# self.weights[i] over self.active_set (a parameter `active_weight` added to the local); a KeyError of
# self.weights[c] / self.vticks[c] / a plain dict and a division by a zero weight sum are outside the tie.

WFQ_STATE = [("vtime", "Q"), ("last_time", "Q"), ("arrivals", "Z"), ("finish_times", "mapQ"), ("class_count", "mapZ")]
SCHED_CONS = [("FxAddToQueue", ""),                                   # self.add_packet_to_queue(packet)
              ("FxActiveAdd", "(c : Z)"),                             # self.active_set.add(c)
              ("FxStorePut", "(stamp : Q) (t : Q) (n : Z)")]          # self.store.put(PriorityItem((stamp, t, n), packet))
SCHED_FX = [("self.add_packet_to_queue(packet)", "FxAddToQueue", [], ("n_active",)),
            ("self.active_set.add(_1)", "FxActiveAdd", ["Z"]),
            ("self.store.put(PriorityItem((_1, _2, _3), packet))", "FxStorePut", ["Q", "Q", "Z"])]
WFQ_READS = [("self.flow2class(packet.flow_id)", "class_id", "Z"),
             ("self.env.now", "now", "Q"),
             ("self.active_set", "n_active", "len", "volatile"),
             ("packet.size", "size", "Z"),
             ("self.rate", "rate", "Q"),
             ("self.weights[class_id]", "weight", "Z")]
WFQ_STATEOPS = [("for class_id in self.weights.keys():\n    self.finish_times[class_id] = 0.0", "finish_times", "reset_finish")]
WFQ_BINDINGS = [("for i in self.active_set:\n    weight_sum += self.weights[i]", "weight_sum", "active_weight", "Q")]
VC_STATE = [("arrivals", "Z"), ("vc", "mapQ"), ("aux_vc", "mapQ")]
VC_READS = [("self.flow2class(packet.flow_id)", "class_id", "Z"),
            ("self.env.now", "now", "Q"),
            ("packet.size", "size", "Z"),
            ("self.vticks[class_id]", "vtick", "Q")]


def extracted_wfq(repo):
    import os
    from vlib import translate as tr
    path = os.path.join(repo, "onl", "scheduler", "wfq.py")
    specs = [tr.FnSpec(path, "WFQ", "put", "gen_WFQ_put", reads=WFQ_READS, effects=SCHED_FX, stateops=WFQ_STATEOPS,
                       bindings=WFQ_BINDINGS, inline=["reset_vtime", "update_vtime"]),
             tr.FnSpec(path, "WFQ", "update_vtime", "gen_WFQ_update_vtime", reads=[("self.env.now", "now", "Q")],
                       bindings=WFQ_BINDINGS),
             tr.FnSpec(path, "WFQ", "reset_vtime", "gen_WFQ_reset_vtime", stateops=WFQ_STATEOPS)]
    return tr.gen_module("onl/scheduler/wfq.py: WFQ.put (with reset_vtime / update_vtime in place), update_vtime, reset_vtime",
                         "wfq_st", "w_", WFQ_STATE, "wfq_fx", SCHED_CONS, specs)


def extracted_vc(repo):
    import os
    from vlib import translate as tr
    path = os.path.join(repo, "onl", "scheduler", "virtual_clock.py")
    specs = [tr.FnSpec(path, "VC", "put", "gen_VC_put", reads=VC_READS, effects=SCHED_FX)]
    return tr.gen_module("onl/scheduler/virtual_clock.py: VC.put", "vc_st", "v_", VC_STATE, "vc_fx", SCHED_CONS, specs)


class WfqPart:
    name = "wfq"
    kinds = ["wfq", "vc", "wfq2", "vc2", "heap", "txfloat"]
    serves = ["C14", "C12", "C08"]
    coq_imports = ["From ONL Require Import Base.Cmp Elem.Packet Elem.StoreQ Elem.HeapList Elem.HeapRun Elem.WFQServer Elem.WFQ Elem.VC."]
    props_files = {"C14": ["Props/C14.v", "Props/C14_Bridge.v", "Props/C14_BridgeVC.v", "Props/C14_BridgeRun.v", "Props/C14_BridgeRunWFQ.v"], "C12": ["Props/C12_WFQ.v"], "C08": ["Props/C08_WFQ.v"]}
    weight = 2
    nontrivial_rule = {
        p: ("kinds wfq / vc (84%): one WFQ (60%) or VirtualClock (40%) with 1-4 classes, weights from {1,2,3,4} / dyadic vticks, rates 2^8..2^12, identity "
            "and many-to-one flow->class tables, 1-3 driver processes (created before or after the scheduler, with 0-3 zero-delay "
            "yields) injecting static backlogs (all at one instant before service), staggered class starts, bursts separated by "
            "idle periods that empty the scheduler, random bursty arrivals on a lattice that coincides with transmission ends, and "
            "equal stamps by construction (equal weights and sizes at one instant); kinds wfq2 / vc2 (16%): TWO instances in one "
            "Environment sharing class ids (same or different tables) with interleaved workloads, each replayed against its own "
            "copy of the model and monitored separately, plus an independence monitor (an action of one instance must not change "
            "the public state of the other); in 15% of the instances LATE CONFIGURATION: constructed with another rate, the public "
            "attribute `rate` assigned the case's rate (and `out` re-wired) before any traffic; the next hop behind every scheduler "
            "reads size()/byte_size()/queue_count/queue_byte_size/total_packets inside its put() (C12 clause sched-counters-at-forward, "
            "also compared with the model); (C12 only, 5%) kind txfloat: non-dyadic rate, odd sizes, burst at t=0, forward instants "
            "compared with the binary64 recurrence t += size*8.0/rate (no model term); non-trivial = at least 3 packets (per instance) and at least one service decision "
            "taken among >= 2 waiting packets; distinct by hash of the case")
        for p in ("C14", "C12", "C08")}
    trusted_base = {
        p: ["WFQ/VC are driven through put() by driver processes; every kernel step of the scheduler's processes is logged by "
            "props/elem_common.Harness and replayed by the Coq model, which must find every step admissible",
            "float rounding is outside the theorems. 85% of WFQ cases and all VC cases are EXACT: sizes 3*2^j, instants multiples "
            "of 3/4, rates 2^r and weight tables all of whose sub-sums are 2^a or 3*2^a, so every float WFQ computes is a dyadic "
            "rational and vtime / finish_times / aux_vc are compared with Qeq_bool; the remaining WFQ cases use arbitrary tables "
            "from {1,2,3,4} and sizes: there service ORDER, instants and counters are still compared exactly while vtime and "
            "finish_times are compared within 1e-9 relative tolerance (a case in which two stamps tie in Q is then skipped)",
            "VC.vc (a per-class clock the code maintains but never reads) is not modelled",
            "(C14) vlib/translate.py (Python ast, fail closed; tables above the part class in props/part_wfq.py) regenerates "
            "coq/Gen/Extracted_wfq.v and Extracted_vc.v from WFQ.put / update_vtime / reset_vtime and VC.put of the tree under test "
            "before every build; the C14_gen_* theorems (Props/C14_Bridge.v, C14_BridgeVC.v) bridge them to the hand-written model; the two loops over "
            "self.weights.keys() / self.active_set are whitelisted statements whose meaning is a parameter the bridge instantiates",
            "(C14) vlib/translate_gen.py (generator bodies cut at their yields; tables props/sched_tie.py) regenerates "
            "coq/Gen/Extracted_vc_run.v from VC.run before every build; the C14_gen_vc_run_* theorems (Props/C14_BridgeRun.v, proofs "
            "Elem/VCRunBridge.v) prove FInit / FGetDone / FChildEnd of the VirtualClock automaton equal to the generated functions; "
            "likewise coq/Gen/Extracted_wfq_run.v from WFQ.run (update_vtime / reset_vtime in place) and the C14_gen_wfq_run_* theorems "
            "(Props/C14_BridgeRunWFQ.v, proofs Elem/WFQRunBridge.v): FInit / FGetDone / FChildEnd and the bookkeeping after a transmission "
            "= wfq_done, up to == on virtual times; len(self.active_set) at run()'s test is an observation the bridge instantiates "
            "with the length of the model's set after the removal",
            "two-instance cases: run()/send_packet generator objects are renamed (runA, send_packetA, ...) from outside so that the "
            "harness can attribute kernel steps; the model has no state shared between instances by construction (each instance is "
            "its own srv record), which is what the independence monitor checks of the code"]
        for p in ("C14", "C12", "C08")}
    assumptions = {
        "C14": ["'the scheduler empties' is the moment its server process resumes after a transmission and finds nothing held; a "
                "packet put in the very instant the last transmission ends, before that resumption, continues the busy period",
                "the packet chosen for a transmission is chosen (popped from the PriorityStore) in the instant the transmission "
                "starts; 'waiting' packets at that choice are those put before the kernel step that pops",
                "packets belong to configured classes (C12: 'configured flow'); weights, vticks and the rate are positive"],
        "C12": ["packets belong to configured classes; weights, vticks and the rate are positive"],
        "C08": ["packets belong to configured classes; weights, vticks and the rate are positive"]}
    partial = {"C14": [], "C12": [], "C08": []}

    # ---- second tie: regenerate the translated bodies before the Coq build (fail closed) ---------------
    def pre_build(self, prop_id):
        if prop_id != "C14":
            return
        import os
        from vlib import framework as fw
        from vlib import translate as tr
        tr.write_if_changed(os.path.join(fw.COQ, "Gen", "Extracted_wfq.v"), extracted_wfq(fw.REPO))
        tr.write_if_changed(os.path.join(fw.COQ, "Gen", "Extracted_vc.v"), extracted_vc(fw.REPO))
        from props import sched_tie
        sched_tie.write_if_changed(fw.COQ, "Extracted_vc_run.v", sched_tie.extracted_vc_run(fw.REPO))
        sched_tie.write_if_changed(fw.COQ, "Extracted_wfq_run.v", sched_tie.extracted_wfq_run(fw.REPO))

    # ---- generation ---------------------------------------------------------------------------------
    def gen_case(self, rng, tier, prop_id):
        if prop_id == "C14" and rng.random() < 0.05:
            # the heapq transcription (Elem/Heap.v) against the real heapq on PriorityItem values, equal priorities included
            ops, size = [], 0
            for k in range(rng.randint(1, 40)):
                if size and rng.random() < 0.4 or (not size and rng.random() < 0.1):
                    ops.append(None)
                    size = max(0, size - 1)
                else:
                    ops.append([rng.choice([0, 1, 1, 2, 3, 5, 8, rng.randint(-5, 30)]), k])
                    size += 1
            return {"kind": "heap", "ops": ops}
        if prop_id == "C12" and rng.random() < 0.05:
            # float mode: a non-dyadic rate and odd sizes, everything put at t = 0; transmission ends are compared with the
            # Python floats  t := t + size * 8.0 / rate  (no model term: outside the exact-rational domain)
            kind = rng.choice(["wfq", "vc"])
            rate = rng.choice([1000, 3000, 8000, 10000, 48000, 56000, 1500000])
            n = rng.randint(1, 5)
            pk = {str(u): {"id": u + 1, "flow": 0, "size": rng.choice([41, 43, 51, 59, 71, 100, 333, 577, 1000, 1499, 1500]),
                           "time": "0/1", "src": "src0"} for u in range(n)}
            c = {"kind": kind, "classes": {"0": 1 if kind == "wfq" else "1/1"}, "rate": rate, "f2c": {},
                 "workload": {"packets": pk, "drivers": [{"late": 0, "bursts": [["0/1", list(range(n))]]}]},
                 "pre": False, "exact": False, "style": "float"}
            if rng.random() < 0.3:
                c["late_rate"] = rng.choice([r for r in (1000, 8000, 1024) if r != rate])
            return {"kind": "txfloat", "inst": c}
        r = rng.random()
        if r < 0.16:
            # two scheduler instances in ONE Environment, sharing class ids (same or different tables): instances
            # must not influence each other (each is replayed against its own copy of the model)
            kind = "wfq" if r < 0.11 else "vc"
            a = self._gen_single(rng, kind)
            b = self._gen_single(rng, kind)
            if rng.random() < 0.5:
                b["classes"], b["f2c"], b["exact"] = dict(a["classes"]), dict(a["f2c"]), (a["exact"] and b["exact"])
                flows = sorted(int(f) for f in b["f2c"]) or sorted(int(c) for c in b["classes"])
                for sp in b["workload"]["packets"].values():
                    if int(sp["flow"]) not in flows:
                        sp["flow"] = rng.choice(flows)
            b["workload"] = shift_workload(b["workload"], 100)
            return {"kind": kind + "2", "insts": [a, b], "pre": rng.random() < 0.3}
        return self._gen_single(rng, "wfq" if rng.random() < 0.6 else "vc")

    def _gen_single(self, rng, kind):
        k = rng.choice([1, 2, 2, 3, 3, 4])
        exact = True
        if kind == "wfq":
            if rng.random() < 0.15:
                exact = False
                table = [rng.choice([1, 2, 3, 4]) for _ in range(k)]
                if exact_table(table):
                    exact = True
            else:
                table = list(rng.choice(EXACT_TABLES[k]))
            if rng.random() < 0.3:
                table = [table[0]] * k if exact_table([table[0]] * k) else table          # equal weights: equal stamps
            classes = {str(c): table[c] for c in range(k)}
        else:
            table = [rng.choice(VTICKS) for _ in range(k)]
            if rng.random() < 0.3:
                table = [table[0]] * k
            classes = {str(c): cf.qjson(table[c]) for c in range(k)}
        rate = rng.choice(RATES)
        # flows
        if rng.random() < 0.35:
            nfl = rng.randint(k, k + 3)
            f2c = {str(10 + i): (i % k if i < k else rng.randrange(k)) for i in range(nfl)}      # flows 10.. onto classes
            flows = [10 + i for i in range(nfl)]
        else:
            f2c = {}
            flows = list(range(k))
        sizes = SIZES3 if (exact or kind == "vc") else rng.choice([SIZES3, SIZES_ANY])
        if rng.random() < 0.3:
            sizes = [rng.choice(sizes)]                    # one size: many equal stamps
        style = rng.choice(["static", "static", "stagger", "idle", "random", "random", "random"])
        w = self._workload(rng, style, flows, sizes, rate)
        case = {"kind": kind, "classes": classes, "rate": rate, "f2c": f2c, "workload": w, "pre": rng.random() < 0.3,
                "exact": exact, "style": style}
        if rng.random() < 0.15:
            # LATE CONFIGURATION: the scheduler is constructed with another rate and the public attribute `rate` is assigned
            # the case's rate (the one the model and the monitors use) before any traffic: the code reads self.rate at every
            # use (send_packet, WFQ.put), so a copy cached at construction shows
            case["late_rate"] = rng.choice([r for r in RATES + [1000, 8000] if r != rate])
        return case

    def _workload(self, rng, style, flows, sizes, rate):
        packets, drivers = {}, []
        uid = [0]

        def mk(t, fl, d):
            u = uid[0]
            uid[0] += 1
            packets[str(u)] = {"id": u + 1, "flow": fl, "size": rng.choice(sizes), "time": cf.qjson(t), "src": "src%d" % d}
            return u
        nd = rng.choice([1, 1, 2, 3])
        if style == "static":
            n = rng.randint(2, 12)
            t0 = rng.choice([F0, F0, Fraction(3, 2)])
            per = [[] for _ in range(nd)]
            for _ in range(n):
                d = rng.randrange(nd)
                per[d].append(mk(t0, rng.choice(flows), d))
            for d in range(nd):
                if per[d]:
                    drivers.append({"late": rng.choice([0, 0, 1]), "bursts": [[cf.qjson(t0), per[d]]]})
        elif style == "stagger":
            # each flow starts at its own instant and then sends a train
            nd = min(len(flows), 3)
            groups = [[] for _ in range(nd)]
            for i, fl in enumerate(flows):
                groups[i % nd].append(fl)
            for d in range(nd):
                t = rng.choice(LAT3[:5])
                bursts = []
                for _ in range(rng.randint(1, 4)):
                    b = [mk(t, rng.choice(groups[d]), d) for _ in range(rng.randint(1, 3))]
                    bursts.append([cf.qjson(t), b])
                    t = t + rng.choice(LAT3[1:5])
                drivers.append({"late": rng.choice([0, 0, 1, 2, 3]), "bursts": bursts})
        elif style == "idle":
            # bursts far apart: the scheduler empties in between and virtual time restarts
            t = rng.choice([F0, Fraction(3, 4)])
            bursts = []
            for _ in range(rng.randint(2, 4)):
                b = [mk(t, rng.choice(flows), 0) for _ in range(rng.randint(1, 4))]
                bursts.append([cf.qjson(t), b])
                busy = sum(Fraction(8 * packets[str(u)]["size"], rate) for u in b)
                # sometimes land exactly at the end of the busy period, sometimes well after it
                t = t + busy + rng.choice([F0, Fraction(3, 4), Fraction(3), Fraction(12)])
            drivers.append({"late": rng.choice([0, 0, 1, 2]), "bursts": bursts})
            if rng.random() < 0.4:
                t2 = rng.choice(LAT3)
                drivers.append({"late": rng.choice([0, 1, 2, 3]), "bursts": [[cf.qjson(t2), [mk(t2, rng.choice(flows), 1)]]]})
        else:
            w = ec.gen_workload(rng, flows=flows, n_max=12, sizes=sizes, horizon=24, gaps=LAT3)
            return w
        return {"packets": packets, "drivers": drivers}

    # ---- implementation -----------------------------------------------------------------------------
    def run_impl(self, case):
        if case["kind"] == "heap":
            from heapq import heappush, heappop
            from onl.sim.resources.store import PriorityItem
            h, popped = [], []
            for op in case["ops"]:
                if op is None:
                    try:
                        x = heappop(h)
                        popped.append([x.priority, x.item])
                    except IndexError:
                        popped.append(None)
                else:
                    heappush(h, PriorityItem(op[0], op[1]))
            return {"popped": popped, "final": [[x.priority, x.item] for x in h], "raised": None}
        if case["kind"] in ("wfq2", "vc2"):
            obs = self._run(case["insts"], case.get("pre"))
            return {"multi": obs[:-1], "interfere": obs[-1], "raised": obs[0]["raised"]}
        if case["kind"] == "txfloat":
            o = self._run([case["inst"]], False)[0]
            return {"inst": o, "raised": o["raised"]}
        return self._run([case], case.get("pre"))[0]

    def _run(self, cases, pre):
        """run one or several scheduler instances in ONE Environment; returns one observation per instance (each with
        the global clock advances and its own put/step entries, sampled on its own public state) + interference notes"""
        from onl.sim import Environment
        env = Environment()
        h = ec.Harness(env)
        n = len(cases)
        tags = [""] if n == 1 else ["A", "B", "C"][:n]
        owner = {}
        for i, c in enumerate(cases):
            h.add_packets(c["workload"]["packets"])
            for u in c["workload"]["packets"]:
                owner[int(u)] = i
        insts, samplers = [], []

        def make(i, c):
            tbl = {int(f): int(cl) for f, cl in c["f2c"].items()}
            f2c = lambda f: tbl.get(f, f)                                                   # noqa: E731
            rate0 = c.get("late_rate") or c["rate"]
            if c["kind"] == "wfq":
                from onl.scheduler.wfq import WFQ
                s = WFQ(env, rate0, {int(cl): int(v) for cl, v in c["classes"].items()}, flow2class=f2c)
                proc = s.action
            else:
                from onl.scheduler.virtual_clock import VC
                s = VC(env, rate0, {int(cl): ec.T(v) for cl, v in c["classes"].items()}, flow2class=f2c)
                proc = s.proc
            if c.get("late_rate"):
                s.out = h.tap("decoy" + tags[i])          # re-wired below: `out` is read at every forward, too
                s.rate = c["rate"]                         # link re-configured while idle, before any traffic
            flows_c = sorted({int(sp["flow"]) for sp in c["workload"]["packets"].values()})
            s.out = CountTap(h, h.tap("out" + tags[i]), s, flows_c)
            h.watch_store("store" + tags[i], s.store)
            if tags[i]:
                proc._generator.__name__ = "run" + tags[i]
                orig = s.send_packet

                def send_packet(packet, orig=orig, tag=tags[i]):
                    g = orig(packet)
                    g.__name__ = "send_packet" + tag
                    return g
                s.send_packet = send_packet
            cls = sorted(int(cl) for cl in c["classes"])
            flows = sorted({int(sp["flow"]) for sp in c["workload"]["packets"].values()})

            def sample():
                cur = s.current_packet
                cur = getattr(cur, "uid", -2) if cur is not None else -1
                per = [[f, s.queue_count.get(f, 0), s.queue_byte_size.get(f, 0)] for f in flows]
                if c["kind"] == "wfq":
                    extra = {"vtime": ec.qs(s.vtime), "last": ec.qs(s.last_time), "active": sorted(s.active_set),
                             "fin": [[cl, ec.qs(s.finish_times.get(cl, 0))] for cl in cls]}
                else:
                    extra = {"aux": [[cl, ec.qs(s.aux_vc.get(cl, 0))] for cl in cls]}
                return [cur, len(s.store.items), s.packets_received, per, extra]
            insts.append(s)
            samplers.append(sample)

        def drivers():
            for i, c in enumerate(cases):
                for d in c["workload"]["drivers"]:
                    h.add_driver(d["bursts"], late=d["late"], target=insts[i] if n > 1 else None)
        if pre and n == 1:
            for d in cases[0]["workload"]["drivers"]:
                h.add_driver(d["bursts"], late=d["late"])
        for i, c in enumerate(cases):
            make(i, c)
        h.attach(insts[0])
        h.after_action(lambda: [f() for f in samplers])
        if n > 1 or not pre:
            drivers()
        log = h.run(max_steps=9000)
        # split the global log per instance
        logs = [[] for _ in range(n)]
        interfere = []
        prev = None
        for e in log:
            k = e[0]
            samples = e[-1]
            if k == "adv":
                who = None
                for i in range(n):
                    logs[i].append(["adv", e[1], samples[i]])
            elif k == "put":
                who = owner[e[1]]
                logs[who].append(["put", e[1], e[2], samples[who]])
            elif k in ("step", "raise"):
                tgt = e[1][1] if e[1] else ""
                who = 0
                if n > 1:
                    who = next((i for i in range(n) if tgt.endswith(tags[i])), None)
                    if who is None:
                        interfere.append(f"instances-interfere: kernel step {e[1]} cannot be attributed to an instance")
                        who = 0
                    tgt = tgt.replace("send_packet" + tags[who], "send_packet").replace("run" + tags[who], "run")
                    if tgt.endswith(tags[who]) and tgt.startswith("store"):
                        tgt = "store"
                    for o in e[2]:
                        if o[1] != "out" + tags[who]:
                            interfere.append(f"instances-interfere: packet {o[2]} of instance {tags[who]} came out of tap {o[1]}")
                        o[1] = "out"
                entry = [k, [e[1][0], tgt] if e[1] else e[1], e[2]] + ([e[3]] if k == "raise" else []) + [samples[who]]
                logs[who].append(entry)
            else:
                who = None
            if prev is not None and n > 1 and not interfere:
                for i in range(n):
                    if i != who and samples[i] != prev[i]:
                        interfere.append(f"instances-interfere: a {k} action of instance {tags[who] if who is not None else '-'} changed the public "
                                         f"state of instance {tags[i]}: {prev[i]} -> {samples[i]}")
            prev = samples
        out = []
        for i, s in enumerate(insts):
            out.append({"log": logs[i], "raised": h.raised, "exhausted": h.exhausted,
                        "final": {"total": s.total_packets, "items": len(s.store.items), "cur": s.current_packet is None}})
        if n > 1:
            out.append(interfere[:2])
        return out

    # ---- the log as the monitors read it ----------------------------------------------------------------
    def _events(self, case, obs):
        """-> dict with arrivals / starts / departures / selections, each with instant and log index"""
        specs = case["workload"]["packets"]
        now = F0
        arr, starts, deps, sels, ends = {}, [], [], [], []
        prev_cur, prev_items = -1, 0
        order = 0
        for i, e in enumerate(obs["log"]):
            k = e[0]
            if k == "adv":
                now = Fraction(e[1])
            sample = e[-1] if k in ("adv", "put", "step", "raise") and isinstance(e[-1], list) and len(e[-1]) == 5 else None
            if k == "put":
                arr[e[1]] = (now, i, order)
                order += 1
            if k in ("put", "step", "raise"):
                for o in e[2]:
                    deps.append((o[2], now, i, o[3], o[4]))
            if k == "step" and e[1][0] == "Process":
                ends.append((now, i))
            if sample is not None:
                cur, items = sample[0], sample[1]
                if cur != prev_cur and cur != -1:
                    starts.append((cur, now, i))
                if items < prev_items:
                    sels.append((now, i))
                prev_cur, prev_items = cur, items
        return {"arr": arr, "starts": starts, "deps": deps, "sels": sels, "ends": ends, "specs": specs}

    def _cls(self, case, uid):
        fl = int(case["workload"]["packets"][str(uid)]["flow"])
        return int(case["f2c"].get(str(fl), fl))

    def _stamps(self, case, obs, ev, msgs):
        """recompute virtual time and the stamp of every arriving packet from the log (exact rationals) and compare with
        the public vtime / finish_times / aux_vc after the put and after the server noticed the end of a transmission"""
        specs = ev["specs"]
        exact = case.get("exact", True)
        rate = Fraction(case["rate"])
        stamp = {}
        if case["kind"] == "vc":
            vt = {int(c): Fraction(v) for c, v in case["classes"].items()}
            aux = {c: F0 for c in vt}
            now = F0
            for e in obs["log"]:
                if e[0] == "adv":
                    now = Fraction(e[1])
                elif e[0] == "put":
                    c = self._cls(case, e[1])
                    aux[c] = max(now, aux[c]) + vt[c]
                    stamp[e[1]] = aux[c]
                    got = dict((a, Fraction(b)) for a, b in e[-1][4]["aux"])
                    if got != aux:
                        msgs.append(f"vc-stamp: after put of packet {e[1]} (class {c}) at {now} aux_vc={ {a: str(b) for a, b in got.items()} } "
                                    f"expected max(now, aux)+vtick = { {a: str(b) for a, b in aux.items()} }")
                        return stamp
            return stamp
        ws = {int(c): int(v) for c, v in case["classes"].items()}
        V, tV = F0, F0
        Fin = {c: F0 for c in ws}
        held = {}                 # uid -> class, arrived and not yet departed
        snap = set()              # classes backlogged during the current open interval
        now = F0
        for e in obs["log"]:
            k = e[0]
            if k == "adv":
                now = Fraction(e[1])
                if snap:
                    V += (now - tV) / sum(ws[c] for c in snap)
                tV = now
                continue
            if k not in ("put", "step"):
                continue
            sample = e[-1]
            x = sample[4]
            if k == "put":
                c = self._cls(case, e[1])
                Fin[c] = max(Fin[c], V) + 8 * Fraction(specs[str(e[1])]["size"]) / (rate * ws[c])
                stamp[e[1]] = Fin[c]
                held[e[1]] = c
                gotF = dict((a, Fraction(b)) for a, b in x["fin"])
                if not close(gotF[c], Fin[c], exact):
                    msgs.append(f"wfq-stamp: packet {e[1]} of class {c} put at {now} got finish_time {gotF[c]} expected "
                                f"max(F_c, V) + 8*size/(rate*w) = {Fin[c]} (V={V})")
                    return stamp
                if not close(Fraction(x["vtime"]), V, exact):
                    msgs.append(f"wfq-vtime: after put at {now} vtime={x['vtime']} expected {V} (grows by dt / sum of backlogged weights)")
                    return stamp
            for o in e[2]:
                held.pop(o[2], None)
            if k == "step" and e[1][0] == "Process":
                if not held:
                    V = F0
                    Fin = {c: F0 for c in ws}
                    if Fraction(x["vtime"]) != 0 or any(Fraction(b) != 0 for _, b in x["fin"]):
                        msgs.append(f"wfq-reset: the scheduler emptied at {now} but vtime={x['vtime']} finish_times={x['fin']} (all must be 0)")
                        return stamp
                elif not close(Fraction(x["vtime"]), V, exact):
                    msgs.append(f"wfq-vtime: after the transmission end at {now} vtime={x['vtime']} expected {V}")
                    return stamp
                if sorted(set(held.values())) != x["active"]:
                    msgs.append(f"wfq-active: at {now} active_set={x['active']} but the classes holding a packet are {sorted(set(held.values()))}")
                    return stamp
            snap = set(held.values())
        return stamp

    # ---- the property as an oracle ----------------------------------------------------------------------
    def monitor(self, case, obs, prop_id):
        if case["kind"] == "heap":
            # heapq's contract as C14 uses it: every pop returns a least priority of what is in the heap; nothing lost
            bag, msgs = [], []
            it = iter(obs["popped"])
            for op in case["ops"]:
                if op is None:
                    x = next(it)
                    if x is None:
                        if bag:
                            msgs.append("heap-pop: pop of a non-empty heap raised IndexError")
                        continue
                    if x not in bag or any(y[0] < x[0] for y in bag):
                        msgs.append(f"heap-pop: popped {x} from {sorted(bag)[:6]}: not a least priority of the heap")
                        break
                    bag.remove(x)
                else:
                    bag.append(list(op))
            if not msgs and sorted(bag) != sorted(obs["final"]):
                msgs.append("heap-pop: the heap lost or invented items")
            return msgs
        if case["kind"] in ("wfq2", "vc2"):
            msgs = list(obs["interfere"])
            for c, o in zip(case["insts"], obs["multi"]):
                msgs += self.monitor(c, o, prop_id)
            return msgs[:3]
        if case["kind"] == "txfloat":
            return self._mon_float(case["inst"], obs["inst"], prop_id)
        kind = case["kind"]
        if obs["raised"]:
            return [f"{kind}-raises: {obs['raised'][0]}: {obs['raised'][1][:160]}"]
        ev = self._events(case, obs)
        msgs = []
        if prop_id == "C14":
            self._mon_c14(case, obs, ev, msgs)
        elif prop_id == "C12":
            self._mon_c12(case, obs, ev, msgs)
        else:
            self._mon_c08(case, obs, ev, msgs)
        return msgs[:3]

    def _mon_c14(self, case, obs, ev, msgs):
        kind = case["kind"]
        exact = case.get("exact", True)
        stamp = self._stamps(case, obs, ev, msgs)
        if msgs:
            return
        arr, specs = ev["arr"], ev["specs"]
        key = {u: (stamp[u], arr[u][0], arr[u][2]) for u in arr if u in stamp}
        # service order: the packet of the k-th transmission start was chosen at the k-th selection step
        started = set()
        for (k, (uid, ts, istart)) in enumerate(ev["starts"]):
            if k >= len(ev["sels"]):
                break
            tsel, isel = ev["sels"][k]
            if tsel != ts:
                msgs.append(f"{kind}-stamp-order: packet {uid} was taken from the store at {tsel} but its transmission started at {ts}")
                break
            waiting = [u for u in arr if arr[u][1] < isel and u not in started and u != uid]
            for q in waiting:
                if key[q] < key[uid]:
                    if not exact and abs(key[q][0] - key[uid][0]) <= TOL * (1 + abs(key[uid][0])):
                        continue
                    msgs.append(f"{kind}-stamp-order: transmission of packet {uid} (stamp {key[uid][0]}, arrived {key[uid][1]}, "
                                f"arrival no. {key[uid][2]}) started at {ts} while packet {q} (stamp {key[q][0]}, arrived {key[q][1]}, "
                                f"arrival no. {key[q][2]}) was waiting")
                    return
            started.add(uid)
        # static backlog fairness (WFQ)
        if kind == "wfq" and ev["starts"] and all(a[1] < ev["starts"][0][2] for a in arr.values()):
            ws = {int(c): int(v) for c, v in case["classes"].items()}
            lmax = max(int(s["size"]) for s in specs.values())
            W = {c: 0 for c in ws}
            start_at = {i: u for (u, _, i) in ev["starts"]}
            dep_at = {}
            for (u, _, i, _, _) in ev["deps"]:
                dep_at.setdefault(i, []).append(u)
            held = {u: self._cls(case, u) for u in arr}
            for i in range(ev["starts"][0][2], len(obs["log"])):
                if i in start_at:
                    u = start_at[i]
                    W[held_c(case, self, u)] += int(specs[str(u)]["size"])
                for u in dep_at.get(i, []):
                    held.pop(u, None)
                cl = sorted(set(held.values()))
                for a in cl:
                    for b in cl:
                        if a < b and abs(Fraction(W[a], ws[a]) - Fraction(W[b], ws[b])) > Fraction(lmax, ws[a]) + Fraction(lmax, ws[b]):
                            msgs.append(f"wfq-fairness: static backlog, after log entry {i}: classes {a},{b} still backlogged, started bytes "
                                        f"{W[a]},{W[b]} weights {ws[a]},{ws[b]}: |W_a/w_a - W_b/w_b| > Lmax/w_a + Lmax/w_b (Lmax={lmax})")
                            return

    def _mon_c12(self, case, obs, ev, msgs):
        kind = case["kind"]
        arr, specs, starts, deps = ev["arr"], ev["specs"], ev["starts"], ev["deps"]
        rate = Fraction(case["rate"])
        # one at a time, exact transmission time, never aborted
        if len(deps) > len(starts) or len(starts) > len(deps) + 1:
            msgs.append(f"{kind}-one-at-a-time: {len(starts)} transmission starts but {len(deps)} packets forwarded")
            return
        prev_end, prev_i = None, -1
        for k, (uid, ts, i) in enumerate(starts):
            if prev_end is not None and (ts < prev_end or i < prev_i):
                msgs.append(f"{kind}-one-at-a-time: transmission of {uid} started at {ts} before the previous one ended at {prev_end}")
                return
            if k < len(deps):
                (du, td, di, _, _) = deps[k]
                if du != uid:
                    msgs.append(f"{kind}-one-at-a-time: packet {du} was forwarded while packet {uid} was in transmission")
                    return
                want = ts + 8 * Fraction(specs[str(uid)]["size"]) / rate
                if td != want:
                    msgs.append(f"{kind}-tx-time: packet {uid} (size {specs[str(uid)]['size']}) started at {ts} and was forwarded at {td}, "
                                f"expected {want} = start + 8*size/rate")
                    return
                prev_end, prev_i = td, di
            elif obs["exhausted"]:
                msgs.append(f"{kind}-tx-time: the transmission of packet {uid} started at {ts} never ended")
                return
        # work conservation / back to back: s_k = max(e_{k-1}, k-th smallest arrival instant)
        atimes = sorted(a[0] for a in arr.values())
        for k, (uid, ts, i) in enumerate(starts):
            want = atimes[k] if k == 0 else max(atimes[k], deps[k - 1][1])
            if ts != want:
                msgs.append(f"{kind}-work-conserving: transmission no. {k + 1} (packet {uid}) started at {ts}, expected {want} "
                            f"(= max(end of the previous transmission, instant of the {k + 1}-th arrival))")
                return
        if obs["exhausted"] and len(starts) != len(arr):
            msgs.append(f"{kind}-exactly-once: {len(arr)} packets accepted, {len(starts)} transmitted when the simulation ran out of events")
            return
        self._fifo_once(case, obs, ev, msgs)
        if msgs:
            return
        self._mon_counters(case, obs, ev, msgs)

    def _mon_counters(self, case, obs, ev, msgs):
        """counters after every action, and as the next hop sees them inside its put() (the departing packet excluded)"""
        kind = case["kind"]
        arr, specs, deps = ev["arr"], ev["specs"], ev["deps"]
        cnt, byt = {}, {}
        dep_by_i = {}
        for (u, _, i, _, _) in deps:
            dep_by_i.setdefault(i, []).append(u)
        for i, e in enumerate(obs["log"]):
            if e[0] == "put":
                f = int(specs[str(e[1])]["flow"])
                cnt[f] = cnt.get(f, 0) + 1
                byt[f] = byt.get(f, 0) + int(specs[str(e[1])]["size"])
            for u in dep_by_i.get(i, []):
                f = int(specs[str(u)]["flow"])
                cnt[f] -= 1
                byt[f] -= int(specs[str(u)]["size"])
            for o in (e[2] if e[0] in ("put", "step") else []):
                if len(o) > 5:
                    snap = o[5]
                    for (f, sz, bs, qc, qb) in snap["per"]:
                        if (sz, qc) != (cnt.get(f, 0), cnt.get(f, 0)) or (bs, qb) != (byt.get(f, 0), byt.get(f, 0)):
                            msgs.append(f"sched-counters-at-forward: when packet {o[2]} was handed to the next hop ({kind}, log entry {i}) "
                                        f"flow {f} reported size()={sz} byte_size()={bs} queue_count={qc} queue_byte_size={qb}, but "
                                        f"{cnt.get(f, 0)} packets / {byt.get(f, 0)} bytes of it are still waiting or in transmission "
                                        f"(the departing packet has left)")
                            return
                    if snap["total"] != sum(cnt.values()):
                        msgs.append(f"sched-counters-at-forward: when packet {o[2]} was handed to the next hop ({kind}, log entry {i}) "
                                    f"total_packets={snap['total']} but {sum(cnt.values())} packets are still waiting or in transmission")
                        return
            if e[0] in ("put", "step", "adv"):
                for (f, c, b) in e[-1][3]:
                    if c != cnt.get(f, 0) or b != byt.get(f, 0):
                        msgs.append(f"{kind}-counters: after log entry {i} flow {f}: size()={c} byte_size()={b} but "
                                    f"{cnt.get(f, 0)} packets / {byt.get(f, 0)} bytes of it are waiting or in transmission")
                        return
                tot = e[-1][2]
                if tot != len([1 for x in arr.values() if x[1] <= i]):
                    msgs.append(f"{kind}-counters: packets_received={tot} after log entry {i}")
                    return

    def _mon_float(self, c, o, prop_id):
        """float mode (C12): one class, everything put at t = 0; the k-th packet is forwarded at the Python float
        t_k = t_(k-1) + size_k * 8.0 / rate  (t_0 = 0.0), i.e. every transmission lasts exactly the float 8*size/rate"""
        kind = c["kind"]
        if o["raised"]:
            return [f"{kind}-raises: {o['raised'][0]}: {o['raised'][1][:160]}"]
        if prop_id != "C12":
            return []
        ev = self._events(c, o)
        msgs = []
        specs = ev["specs"]
        order = sorted(ev["arr"], key=lambda u: ev["arr"][u][1])
        t = 0.0
        for k, u in enumerate(order):
            t = t + specs[str(u)]["size"] * 8.0 / c["rate"]
            if k < len(ev["deps"]):
                (du, td, _, _, _) = ev["deps"][k]
                if du != u or td != Fraction(t):
                    msgs.append(f"sched-tx-time-float: {kind} rate {c['rate']}: packet {u} (size {specs[str(u)]['size']}, no. {k + 1} of a burst at t=0) "
                                f"was forwarded at {float(td)!r} (packet {du}), expected {t!r} = previous end + size*8.0/rate in binary64")
                    return msgs
            elif o["exhausted"]:
                msgs.append(f"{kind}-exactly-once: packet {u} was never forwarded")
                return msgs
        self._mon_counters(c, o, ev, msgs)
        return msgs[:3]

    def _fifo_once(self, case, obs, ev, msgs):
        kind = case["kind"]
        arr, specs, deps = ev["arr"], ev["specs"], ev["deps"]
        seen = set()
        for (u, t, i, fields, same) in deps:
            if u not in arr or arr[u][1] > i:
                msgs.append(f"{kind}-invented: packet {u} forwarded at {t} was never put in")
                return
            if u in seen:
                msgs.append(f"{kind}-duplicated: packet {u} forwarded twice")
                return
            seen.add(u)
            sp = specs[str(u)]
            if (not same or fields[0] != sp["id"] or fields[1] != sp["flow"] or fields[2] != sp.get("src", "s") or fields[3] != sp["size"]
                    or Fraction(fields[4]) != Fraction(sp["time"]) or fields[5] != sp.get("payload")):
                msgs.append(f"{kind}-packet-altered: packet {u} forwarded as {fields} same-object={same}")
                return
        if obs["exhausted"] and seen != set(arr):
            msgs.append(f"{kind}-lost: packets {sorted(set(arr) - seen)[:6]} were put in and never forwarded although the simulation ran out of events")
            return
        flows = {}
        for u in sorted(arr, key=lambda u: arr[u][1]):
            flows.setdefault(int(specs[str(u)]["flow"]), []).append(u)
        out = {}
        for (u, _, _, _, _) in deps:
            out.setdefault(int(specs[str(u)]["flow"]), []).append(u)
        for f, o in out.items():
            if o != flows[f][:len(o)]:
                msgs.append(f"{kind}-flow-order: flow {f} entered as {flows[f][:8]} and left as {o[:8]}")
                return

    def _mon_c08(self, case, obs, ev, msgs):
        kind = case["kind"]
        self._fifo_once(case, obs, ev, msgs)
        if msgs:
            return
        if obs["exhausted"]:
            fin = obs["final"]
            if fin["total"] != 0 or fin["items"] != 0 or not fin["cur"]:
                msgs.append(f"{kind}-not-drained: the simulation ran out of events with total_packets={fin['total']} "
                            f"len(store.items)={fin['items']} current_packet None={fin['cur']}")

    # ---- bookkeeping ------------------------------------------------------------------------------------
    def nontrivial(self, case, obs, prop_id):
        if case["kind"] == "txfloat":
            return len(case["inst"]["workload"]["packets"]) >= 2 and not obs.get("raised")
        if case["kind"] == "heap":
            pr = [o[0] for o in case["ops"] if o is not None]
            return len(pr) >= 4 and len(set(pr)) < len(pr) and any(o is None for o in case["ops"])
        if case["kind"] in ("wfq2", "vc2"):
            return all(self.nontrivial(c, o, prop_id) for c, o in zip(case["insts"], obs["multi"]))
        if len(case["workload"]["packets"]) < 3 or obs.get("raised"):
            return False
        ev = self._events(case, obs)
        started = set()
        arr = ev["arr"]
        for k, (uid, ts, i) in enumerate(ev["starts"]):
            if k < len(ev["sels"]):
                isel = ev["sels"][k][1]
                if len([u for u in arr if arr[u][1] < isel and u not in started]) >= 2:
                    return True
            started.add(uid)
        return False

    def shrink(self, case):
        if case["kind"] == "txfloat":
            pk = case["inst"]["workload"]["packets"]
            for u in sorted(pk, key=int)[::-1]:
                if len(pk) > 1:
                    rest = {k: v for k, v in pk.items() if k != u}
                    w = {"packets": rest, "drivers": [{"late": 0, "bursts": [["0/1", sorted(int(k) for k in rest)]]}]}
                    yield {**case, "inst": {**case["inst"], "workload": w}}
            return
        if case["kind"] == "heap":
            for i in range(len(case["ops"])):
                yield {**case, "ops": case["ops"][:i] + case["ops"][i + 1:]}
            return
        if case["kind"] in ("wfq2", "vc2"):
            for i in (0, 1):
                for c in self.shrink(case["insts"][i]):
                    ins = list(case["insts"])
                    ins[i] = c
                    yield {**case, "insts": ins}
            return
        for w in ec.shrink_workload(case["workload"]):
            if w["packets"] and all(d["bursts"] for d in w["drivers"]):
                yield {**case, "workload": w}
        if case.get("pre"):
            yield {**case, "pre": False}
        used = {str(s["flow"]) for s in case["workload"]["packets"].values()}
        if any(f not in used for f in case["f2c"]):
            yield {**case, "f2c": {f: c for f, c in case["f2c"].items() if f in used}}

    def describe(self, case, obs):
        if case["kind"] == "txfloat":
            return ["txfloat", "txfloat:" + case["inst"]["kind"], "txfloat:rate=%d" % case["inst"]["rate"]] + (
                ["txfloat:late-rate"] if case["inst"].get("late_rate") else [])
        if case["kind"] == "heap":
            return ["heap", "heap:ops=%d" % (10 * (len(case["ops"]) // 10))]
        if case["kind"] in ("wfq2", "vc2"):
            a, b = case["insts"]
            return [case["kind"], case["kind"] + (":same-tables" if a["classes"] == b["classes"] else ":different-tables")]
        k = case["kind"]
        keys = [k, f"{k}:classes={len(case['classes'])}", f"{k}:style={case.get('style', '?')}",
                f"{k}:packets={min(len(case['workload']['packets']), 12)}", f"{k}:drivers={len(case['workload']['drivers'])}",
                f"{k}:{'exact' if case.get('exact', True) else 'tolerance'}"]
        if case["f2c"]:
            cls = list(case["f2c"].values())
            keys.append(f"{k}:flow2class=" + ("many-to-one" if len(set(cls)) < len(cls) else "renaming"))
        if case.get("pre"):
            keys.append(f"{k}:driver-created-before-element")
        if len(set(case["classes"].values())) < len(case["classes"]):
            keys.append(f"{k}:equal-weights")
        if case.get("late_rate"):
            keys.append(f"{k}:rate-assigned-after-construction")
        return keys

    # ---- log -> model actions; Coq terms -----------------------------------------------------------------
    STEP = {("Initialize", "run"): "FInit", ("StorePut", "store"): "FStoreCb", ("StoreGet", "store"): "FGetDone",
            ("Initialize", "send_packet"): "FChildInit", ("Timeout", "send_packet"): "FChildTimer",
            ("Process", "end:send_packet>run"): "FChildEnd"}

    def _cfg(self, case):
        tbl = cf.lst([cf.pair(cf.z(f), cf.z(c)) for f, c in sorted((int(f), int(c)) for f, c in case["f2c"].items())])
        if case["kind"] == "wfq":
            ws = cf.lst([cf.pair(cf.z(c), cf.z(w)) for c, w in sorted((int(c), int(w)) for c, w in case["classes"].items())])
            return (f"{{| wrate := {cf.q(case['rate'])}; wweights := {ws}; wf2c := f2c_of {tbl}; "
                    f"wfix_first := {cf.b(case.get('fix_first', True))} |}}")
        vt = cf.lst([cf.pair(cf.z(c), cf.q(v)) for c, v in sorted((int(c), v) for c, v in case["classes"].items())])
        return f"{{| vrate := {cf.q(case['rate'])}; vticks := {vt}; vf2c := f2c_of {tbl} |}}"

    def _actions(self, case, obs):
        specs = case["workload"]["packets"]
        acts = []
        for e in obs["log"]:
            k = e[0]
            if k == "adv":
                a, outs = f"FAdvance {cf.q(e[1])}", []
            elif k == "put":
                a, outs = f"FPut {ec.pkt_coq(specs[str(e[1])], e[1])}", e[2]
            elif k == "step":
                a = self.STEP.get((e[1][0], e[1][1]))
                if a is None:
                    return None, f"unexpected kernel step {e[1]}"
                outs = e[2]
            else:
                return None, f"unexpected log entry {e[:2]}"
            (cur, nit, nrecv, per, x) = e[-1]
            for y in outs:
                # what the next hop read inside its put() must be what the model has after FChildTimer (it decrements and forwards
                # in one step), i.e. the counters sampled after this action
                if len(y) > 5 and ([[f, a, b] for (f, a, b, _, _) in y[5]["per"]] != [list(z) for z in per]
                                   or [[f, a, b] for (f, _, _, a, b) in y[5]["per"]] != [list(z) for z in per]):
                    return None, f"counters read by the next hop at the forward of packet {y[2]} differ from the model's"
            o = cf.lst([ec.pkt_coq(specs[str(y[2])], y[2]) for y in outs])
            so = f"({cf.z(cur)}, {cf.nat(nit)}, {cf.z(nrecv)}, {cf.lst([cf.pair(cf.z(f), cf.z(c), cf.z(b)) for f, c, b in per])})"
            if case["kind"] == "wfq":
                xo = (f"({cf.q(x['vtime'])}, {cf.q(x['last'])}, {cf.lst([cf.z(c) for c in x['active']])}, "
                      f"{cf.lst([cf.pair(cf.z(c), cf.q(v)) for c, v in x['fin']])})")
            else:
                xo = cf.lst([cf.pair(cf.z(c), cf.q(v)) for c, v in x["aux"]])
            acts.append(f"({a}, {o}, {so}, {xo})")
        return acts, None

    def _float_tie_mismatch(self, case, obs):
        """tolerance mode only: two packets whose stamps are equal in Q but not as the floats the code computed (or the
        other way round): the service order of the rational model and of the float code may then differ legitimately"""
        ev = self._events(case, obs)
        st = self._stamps(case, obs, ev, [])
        fl = {}
        for e in obs["log"]:
            if e[0] == "put":
                c = self._cls(case, e[1])
                fl[e[1]] = dict((a, Fraction(b)) for a, b in e[-1][4]["fin"])[c]
        us = [u for u in st if u in fl]
        for i, a in enumerate(us):
            for b in us[i + 1:]:
                if (st[a] == st[b]) != (fl[a] == fl[b]):
                    return True
        return False

    def agree_term(self, case, obs):
        if case["kind"] == "txfloat":
            return None                      # binary64 arithmetic with a non-dyadic rate: outside the rational model's compared domain
        if case["kind"] == "heap":
            hi = lambda x: cf.pair(cf.z(x[0]), cf.z(x[1]))                              # noqa: E731
            return (f"heap_agree {cf.lst([cf.opt(o, hi) for o in case['ops']])} {cf.lst([cf.opt(o, hi) for o in obs['popped']])} "
                    f"{cf.lst([hi(x) for x in obs['final']])}")
        if case["kind"] in ("wfq2", "vc2"):
            if obs["interfere"]:
                return "false (* instances interfere *)"
            ts = [self.agree_term(c, o) for c, o in zip(case["insts"], obs["multi"])]
            if any(t is None for t in ts):
                return None
            return "(" + ") && (".join(ts) + ")"
        if obs["raised"]:
            return "false"
        acts, err = self._actions(case, obs)
        if acts is None:
            return f"false (* {err} *)"
        body = cf.lst(acts, sep=";\n    ")
        if case["kind"] == "wfq":
            exact = case.get("exact", True)
            if not exact and self._float_tie_mismatch(case, obs):
                return None
            tol = "0" if exact else "(1 # 1000000000)"
            return f"wfq_agree {self._cfg(case)} {tol} {body}"
        return f"vc_agree {self._cfg(case)} {body}"

    def model_term(self, case):
        return None

    def diag_term(self, case, obs):
        acts, err = self._actions(case, obs)
        body = cf.lst(acts, sep=";\n    ")
        if case["kind"] == "wfq":
            tol = "0" if case.get("exact", True) else "(1 # 1000000000)"
            return f"wfq_first_bad {self._cfg(case)} {tol} {body}"
        return f"vc_first_bad {self._cfg(case)} {body}"


class CountTap:
    """the next hop behind the scheduler: at the moment its put() is called it reads the scheduler's public counters
    (size(f), byte_size(f), queue_count, queue_byte_size, total_packets) and attaches them to the logged output"""

    def __init__(self, h, inner, sched, flows):
        self.h, self.inner, self.sched, self.flows = h, inner, sched, flows

    def put(self, p):
        s = self.sched
        per = []
        for f in self.flows:
            known = f in s.queue_count
            per.append([f, s.size(f) if known else 0, s.byte_size(f) if known else 0,
                        s.queue_count.get(f, 0), s.queue_byte_size.get(f, 0)])
        snap = {"per": per, "total": s.total_packets}
        self.inner.put(p)
        if self.h.cur_outs:
            self.h.cur_outs[-1].append(snap)


def shift_workload(w, k):
    """renumber the uids of a workload by +k (second instance)"""
    pk = {str(int(u) + k): {**sp, "id": sp["id"] + k} for u, sp in w["packets"].items()}
    dr = [{"late": d["late"], "bursts": [[t, [u + k for u in uids]] for (t, uids) in d["bursts"]]} for d in w["drivers"]]
    return {"packets": pk, "drivers": dr}


def held_c(case, part, uid):
    return part._cls(case, uid)


PART = WfqPart()
