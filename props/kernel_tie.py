"""Second tie (DESIGN 2.6) for the kernel leaves (C01 / C02 / C04): Environment.schedule / peek / step, Event.succeed /
fail / defused, Timeout.__init__, Initialize.__init__, Interruption.__init__ / _interrupt, Process.interrupt translated
from the tree under test on every run (vlib/translate.py, fail closed) into coq/Gen/Extracted_kernel.v; bridged to
coq/Kernel/Model.v by coq/Kernel/LeafBridge.v; obligations in Props/C01_Bridge.v, C02_Bridge.v, C04_Bridge.v.
Used by props/c01.py, c02.py, c04.py (pre_build).

The kernel works on objects, not numbers: nearly every statement is a listed EFFECT (a field store, a call) and the
decisions are listed OBSERVATIONS (booleans); the generated definitions are the order of the effects and the tests
between them.  Whitelisted as ONE statement each (meaning given in the bridge, not translated): step()'s
`try: .. = heappop(..) / except IndexError: raise EmptySchedule()` (a guard on "the queue is empty"), step()'s whole
`for callback in callbacks:` loop with its stop bookkeeping (FxRunCallbacks), peek()'s try statement (FxPeek).
Process._resume (a `while True` around two try/except statements whose handlers assign and break) is outside the
subset: the translator has no exception control flow."""
import os

KERNEL_CONS = [
    # Environment
    ("FxHeapPush", "(t : Q) (prio : Z)"),   # heappush(self._queue, (t, prio, next(self._eid), event))
    ("FxPeek", ""),                         # try: return self._queue[0][0] / except IndexError: return Infinity
    ("FxRaiseEmptySchedule", ""),           # the heappop raised IndexError: raise EmptySchedule()
    ("FxPop", ""),                          # self._now, _, _, event = heappop(self._queue)
    ("FxDetachCallbacks", ""),              # callbacks, event.callbacks = event.callbacks, None
    ("FxStopNone", ""),                     # stop = None
    ("FxRunCallbacks", ""),                 # for callback in callbacks: ... (the stop callback's exception is remembered in `stop`, the rest still runs)
    ("FxRaiseStop", ""),                    # raise stop
    ("FxCopyFailure", ""),                  # exc = type(event._value)(*event._value.args)
    ("FxSetCause", ""),                     # exc.__cause__ = event._value
    ("FxRaiseFailure", ""),                 # raise exc
    # Event
    ("FxRaiseAlreadyTriggered", ""),        # raise RuntimeError(f'{self} has already been triggered')
    ("FxRaiseNotException", ""),            # raise ValueError(f'{exception} is not an exception.')
    ("FxSetOk", "(b : bool)"),              # self._ok = b
    ("FxSetValueArg", ""),                  # self._value = value / = exception   (the argument)
    ("FxSetValueNone", ""),                 # self._value: Any = None
    ("FxSetValueInterrupt", ""),            # self._value = Interrupt(cause)
    ("FxSetDefused", ""),                   # self._defused = True
    ("FxSchedule", "(prio : Z) (delay : Q)"),   # env.schedule(self[, prio[, delay]])  (defaults NORMAL = 1, 0)
    ("FxReturnSelf", ""),                   # return self
    # constructors
    ("FxRaiseNegativeDelay", ""),           # raise ValueError(f'Negative delay {delay}')
    ("FxEventInit", ""),                    # super().__init__(env): self.env = env; self.callbacks = []
    ("FxSetDelay", "(d : Q)"),              # self._delay = delay
    ("FxSetEnv", ""),                       # self.env = env / = process.env
    ("FxSetCallbacksResume", ""),           # self.callbacks = [process._resume]
    ("FxSetCallbacksInterrupt", ""),        # self.callbacks = [self._interrupt]
    ("FxRaiseTerminated", ""),              # raise RuntimeError(f'{process} has terminated and cannot be interrupted.')
    ("FxRaiseSelfInterrupt", ""),           # raise RuntimeError('A process is not allowed to interrupt itself.')
    ("FxSetProcess", ""),                   # self.process = process
    # Interruption._interrupt, Process.interrupt
    ("FxRemoveResumeFromTarget", ""),       # self.process._target.callbacks.remove(self.process._resume)
    ("FxResumeProcess", ""),                # self.process._resume(self)
    ("FxNewInterruption", ""),              # Interruption(self, cause)
    # StopSimulation.callback
    ("FxRaiseStopValue", ""),               # raise cls(event.value)
    ("FxRaiseEventValue", ""),              # raise event._value
    # Event.trigger, Process.__init__
    ("FxCopyOk", ""),                       # self._ok = event._ok
    ("FxCopyValue", ""),                    # self._value = event._value
    ("FxRaiseNotGenerator", ""),            # raise ValueError(f'{generator} is not a generator.')
    ("FxSetCallbacksEmpty", ""),            # self.callbacks: EventCallbacks = []
    ("FxSetGenerator", ""),                 # self._generator = generator
    ("FxNewInitialize", ""),                # self._target: Event = Initialize(env, self)
    # Event.value
    ("FxRaiseValuePending", ""),            # raise AttributeError(f'Value of {self} is not yet available')
    ("FxReturnValue", ""),                  # return self._value
]

STEP_TRY = """try:
    self._now, _, _, event = heappop(self._queue)
except IndexError:
    raise EmptySchedule()"""
STEP_LOOP = """for callback in callbacks:
    if callback == StopSimulation.callback:
        try:
            callback(event)
        except BaseException as exc:
            stop = exc
    else:
        callback(event)"""
PEEK_TRY = """try:
    return self._queue[0][0]
except IndexError:
    return Infinity"""

KERNEL_FX = [
    ("heappush(self._queue, (_1, _2, next(self._eid), event))", "FxHeapPush", ["Q", "Z"]),
    (PEEK_TRY, "FxPeek", []),
    ("callbacks, event.callbacks = event.callbacks, None", "FxDetachCallbacks", []),
    ("stop = None", "FxStopNone", []),
    (STEP_LOOP, "FxRunCallbacks", []),
    ("exc = type(event._value)(*event._value.args)", "FxCopyFailure", []),
    ("exc.__cause__ = event._value", "FxSetCause", []),
    ("raise stop", "FxRaiseStop", []),
    ("raise exc", "FxRaiseFailure", []),
    ("raise RuntimeError(f'{self} has already been triggered')", "FxRaiseAlreadyTriggered", []),
    ("raise ValueError(f'{exception} is not an exception.')", "FxRaiseNotException", []),
    ("self._ok = event._ok", "FxCopyOk", []),
    ("self._ok = _1", "FxSetOk", ["bool"]),
    ("self._value = value", "FxSetValueArg", []),
    ("self._value = exception", "FxSetValueArg", []),
    ("self._value: Any = None", "FxSetValueNone", []),
    ("self._value = Interrupt(cause)", "FxSetValueInterrupt", []),
    ("self._defused = True", "FxSetDefused", []),
    ("self.env.schedule(self)", "FxSchedule (1)%Z (0 # 1)", []),
    ("env.schedule(self, NORMAL, _1)", "FxSchedule (1)%Z", ["Q"]),
    ("env.schedule(self, URGENT)", "FxSchedule (0)%Z (0 # 1)", []),
    ("self.env.schedule(self, URGENT)", "FxSchedule (0)%Z (0 # 1)", []),
    ("return self", "FxReturnSelf", []),
    ("raise ValueError(f'Negative delay {delay}')", "FxRaiseNegativeDelay", []),
    ("super().__init__(env)", "FxEventInit", []),
    ("self._delay = _1", "FxSetDelay", ["Q"]),
    ("self.env = env", "FxSetEnv", []),
    ("self.env = process.env", "FxSetEnv", []),
    ("self.callbacks: EventCallbacks = [process._resume]", "FxSetCallbacksResume", []),
    ("self.callbacks: EventCallbacks = [self._interrupt]", "FxSetCallbacksInterrupt", []),
    ("raise RuntimeError(f'{process} has terminated and cannot be interrupted.')", "FxRaiseTerminated", []),
    ("raise RuntimeError('A process is not allowed to interrupt itself.')", "FxRaiseSelfInterrupt", []),
    ("self.process = process", "FxSetProcess", []),
    ("self.process._target.callbacks.remove(self.process._resume)", "FxRemoveResumeFromTarget", []),
    ("self.process._resume(self)", "FxResumeProcess", []),
    ("Interruption(self, cause)", "FxNewInterruption", []),
    ("raise cls(event.value)", "FxRaiseStopValue", []),
    ("raise event._value", "FxRaiseEventValue", []),
    ("self._ok = event._ok", "FxCopyOk", []),
    ("self._value = event._value", "FxCopyValue", []),
    ("raise ValueError(f'{generator} is not a generator.')", "FxRaiseNotGenerator", []),
    ("self.callbacks: EventCallbacks = []", "FxSetCallbacksEmpty", []),
    ("self._generator = generator", "FxSetGenerator", []),
    ("self._target: Event = Initialize(env, self)", "FxNewInitialize", []),
    ("raise AttributeError(f'Value of {self} is not yet available')", "FxRaiseValuePending", []),
    ("return self._value", "FxReturnValue", []),
]


def _specs(repo):
    from vlib import translate as tr
    core = os.path.join(repo, "onl", "sim", "core.py")
    ev = os.path.join(repo, "onl", "sim", "events.py")

    def S(path, cls, method, reads=(), **kw):
        name = kw.pop("name", f"gen_{cls}_{method.strip('_')}")
        return tr.FnSpec(path, cls, method, name, reads=reads, effects=KERNEL_FX, **kw)
    return [
        S(core, "Environment", "schedule", [("self._now", "now", "Q"), ("delay", "delay", "Q"), ("priority", "priority", "Z")]),
        S(core, "Environment", "peek"),
        S(core, "Environment", "step",
          [("stop is not None", "stop_raised", "bool", "needs:FxRunCallbacks"),          # the stop callback raised (remembered)
           ("event._ok", "ok", "bool", "needs:FxRunCallbacks"),                           # read after the callbacks ran
           ("hasattr(event, '_defused')", "defused", "bool", "needs:FxRunCallbacks")],
          guards=[(STEP_TRY, "queue_empty", "FxRaiseEmptySchedule", "FxPop")]),
        S(ev, "Event", "succeed", [("self._value is not PENDING", "triggered", "bool")]),
        S(ev, "Event", "fail", [("self._value is not PENDING", "triggered", "bool"),
                                ("isinstance(exception, BaseException)", "is_exception", "bool")]),
        S(ev, "Event", "defused", [("hasattr(self, '_defused')", "has_defused", "bool")], decorator="property", ret="bool",
          name="gen_Event_defused_get"),
        S(ev, "Event", "defused", decorator="defused.setter", name="gen_Event_defused_set"),
        S(ev, "Timeout", "__init__", [("delay", "delay", "Q")], name="gen_Timeout_init"),
        S(ev, "Initialize", "__init__", name="gen_Initialize_init"),
        S(ev, "Interruption", "__init__",
          [("process.triggered", "process_triggered", "bool"),
           ("process is self.env.active_process", "process_is_active", "bool")], name="gen_Interruption_init"),
        S(ev, "Interruption", "_interrupt", [("self.process.triggered", "process_triggered", "bool")]),
        S(ev, "Process", "interrupt"),
        S(core, "StopSimulation", "callback", [("event.ok", "ok", "bool")], decorator="classmethod"),
        S(ev, "Event", "trigger"),
        S(ev, "Process", "__init__", [("hasattr(generator, 'throw')", "is_generator", "bool")], name="gen_Process_init"),
        S(ev, "Process", "is_alive", [("self._value is PENDING", "pending", "bool")], decorator="property", ret="bool"),
        S(ev, "Event", "triggered", [("self._value is not PENDING", "triggered", "bool")], decorator="property", ret="bool"),
        S(ev, "Event", "processed", [("self.callbacks is None", "processed", "bool")], decorator="property", ret="bool"),
        S(ev, "Event", "ok", [("self._ok", "ok", "bool")], decorator="property", ret="bool"),
        S(ev, "Event", "value", [("self._value is PENDING", "pending", "bool")], decorator="property"),
    ]


def extracted_kernel(repo):
    from vlib import translate as tr
    return tr.gen_module("onl/sim/core.py: Environment.schedule, peek, step; onl/sim/events.py: Event.succeed, fail, defused, "
                         "Timeout / Initialize / Interruption .__init__, Interruption._interrupt, Process.interrupt",
                         None, "", [], "kernel_fx", KERNEL_CONS, _specs(repo))


def write_extracted_kernel(repo, coq_dir):
    from vlib import translate as tr
    return tr.write_if_changed(os.path.join(coq_dir, "Gen", "Extracted_kernel.v"), extracted_kernel(repo))


# ------------------------------------------------------------------------------------------------
# Conditions (C05): Condition.all_events / any_events / _check / _build_value -> coq/Gen/Extracted_cond.v, bridged to
# cond_evaluate / cond_check / cond_build of Kernel/Model.v by coq/Kernel/CondLeafBridge.v; obligations in Props/C05_Bridge.v.
# Condition.__init__, _populate_value and _remove_check_callbacks are loops over the operands: not translated (the latter
# two are effects of _build_value whose meaning is the model's remove_checks / populate).

COND_CONS = [("FxDefuseOperand", ""),        # event._defused = True
             ("FxFailWithOperandValue", ""), # self.fail(event._value)
             ("FxSucceed", ""),              # self.succeed()
             ("FxRemoveChecks", ""),         # self._remove_check_callbacks()
             ("FxNewValue", ""),             # self._value = ConditionValue()
             ("FxPopulate", "")]             # self._populate_value(self._value)
COND_FX = [("event._defused = True", "FxDefuseOperand", []),
           ("self.fail(event._value)", "FxFailWithOperandValue", []),
           ("self.succeed()", "FxSucceed", []),
           ("self._remove_check_callbacks()", "FxRemoveChecks", []),
           ("self._value = ConditionValue()", "FxNewValue", []),
           ("self._populate_value(self._value)", "FxPopulate", [])]


def extracted_cond(repo):
    from vlib import translate as tr
    ev = os.path.join(repo, "onl", "sim", "events.py")
    ev_reads = [("events", "n_events", "len"), ("count", "count", "Z")]
    specs = [
        tr.FnSpec(ev, "Condition", "all_events", "gen_Condition_all_events", reads=ev_reads, ret="bool", decorator="staticmethod"),
        tr.FnSpec(ev, "Condition", "any_events", "gen_Condition_any_events", reads=ev_reads, ret="bool", decorator="staticmethod"),
        tr.FnSpec(ev, "Condition", "_check", "gen_Condition_check",
                  reads=[("self._value is not PENDING", "triggered", "bool"), ("event._ok", "operand_ok", "bool"),
                         # self._evaluate(self._events, self._count) with the count as it is after `self._count += 1`
                         ("self._evaluate(self._events, self._count)", "met", "bool")],
                  effects=COND_FX),
        tr.FnSpec(ev, "Condition", "_build_value", "gen_Condition_build_value", reads=[("event._ok", "ok", "bool")], effects=COND_FX),
    ]
    return tr.gen_module("onl/sim/events.py: Condition.all_events, any_events, _check, _build_value", "cond_st", "c_", [("_count", "Z")],
                         "cond_fx", COND_CONS, specs)


def write_extracted_cond(repo, coq_dir):
    from vlib import translate as tr
    return tr.write_if_changed(os.path.join(coq_dir, "Gen", "Extracted_cond.v"), extracted_cond(repo))


# ------------------------------------------------------------------------------------------------
# Process._resume (C04, also C02): ONE iteration of its `while True` -> coq/Gen/Extracted_resume.v, bridged to one
# unfolding of resume_loop (Kernel/Model.v) by coq/Kernel/ResumeBridge.v; obligation in Props/C04_BridgeResume.v.
# generator.send / generator.throw are effects that may raise inside the first try (StopIteration: the generator
# returned; BaseException: it raised): their handlers ARE translated.  The second try statement (is what was yielded a
# pending event / a processed event / not an event?) is one whitelisted statement with three ways on.

RESUME_CONS = [("FxSetActive", ""),            # self.env._active_proc = self
               ("FxSend", ""),                 # event = self._generator.send(event._value)
               ("FxDefuseEvent", ""),          # event._defused = True
               ("FxCopyFailure", ""),          # exc = type(event._value)(*event._value.args)
               ("FxSetCause", ""),             # exc.__cause__ = event._value
               ("FxThrow", ""),                # event = self._generator.throw(exc)
               ("FxEventNone", ""),            # event = None
               ("FxSetOk", "(b : bool)"),      # self._ok = b
               ("FxSetValueReturn", ""),       # self._value = e.args[0] if len(e.args) else None
               ("FxStripTraceback", ""),       # e.__traceback__ = e.__traceback__.tb_next
               ("FxSetValueExc", ""),          # self._value = e
               ("FxScheduleSelf", ""),         # self.env.schedule(self)
               ("FxAppendResume", ""),         # event.callbacks.append(self._resume)     (the yielded event is pending)
               ("FxRaiseInvalidYield", ""),    # what was yielded has no `callbacks`: RuntimeError('Invalid yield value ...')
               ("FxLoopAgain", ""),            # the yielded event is already processed: next iteration with it
               ("FxSetTarget", ""),            # self._target = event
               ("FxClearActive", "")]          # self.env._active_proc = None
RESUME_SECOND_TRY = """try:
    if event.callbacks is not None:
        event.callbacks.append(self._resume)
        break
except AttributeError:
    if hasattr(event, 'callbacks'):
        raise
    msg = f'Invalid yield value "{event}"'
    descr = _describe_frame(self._generator.gi_frame)
    error = RuntimeError(f'\\n{descr}{msg}')
    error.__cause__ = None
    raise error"""
RESUME_FX = [("self.env._active_proc = self", "FxSetActive", []),
             ("event = self._generator.send(event._value)", "FxSend", []),
             ("event._defused = True", "FxDefuseEvent", []),
             ("exc = type(event._value)(*event._value.args)", "FxCopyFailure", []),
             ("exc.__cause__ = event._value", "FxSetCause", []),
             ("event = self._generator.throw(exc)", "FxThrow", []),
             ("event = None", "FxEventNone", []),
             ("self._ok = _1", "FxSetOk", ["bool"]),
             ("self._value = e.args[0] if len(e.args) else None", "FxSetValueReturn", []),
             ("e.__traceback__ = e.__traceback__.tb_next", "FxStripTraceback", []),
             ("self._value = e", "FxSetValueExc", []),
             ("self.env.schedule(self)", "FxScheduleSelf", []),
             ("self._target = event", "FxSetTarget", []),
             ("self.env._active_proc = None", "FxClearActive", [])]
_GEN_ENDS = [("StopIteration", "returned"), ("BaseException", "raised")]


def extracted_resume(repo):
    from vlib import translate as tr
    spec = tr.FnSpec(os.path.join(repo, "onl", "sim", "events.py"), "Process", "_resume", "gen_Process_resume",
                     reads=[("event._ok", "event_ok", "bool")], effects=RESUME_FX, loop_again="FxLoopAgain",
                     raising=[("FxSend", _GEN_ENDS), ("FxThrow", _GEN_ENDS)],
                     switches=[(RESUME_SECOND_TRY, [("target_pending", "FxAppendResume", "break"),
                                                    ("target_invalid", "FxRaiseInvalidYield", "end"),
                                                    (None, None, "go")])])
    return tr.gen_module("onl/sim/events.py: Process._resume, ONE iteration of its `while True`", None, "", [], "resume_fx",
                         RESUME_CONS, [spec])


def write_extracted_resume(repo, coq_dir):
    from vlib import translate as tr
    return tr.write_if_changed(os.path.join(coq_dir, "Gen", "Extracted_resume.v"), extracted_resume(repo))


# ------------------------------------------------------------------------------------------------
# Environment.run (C03): the prelude and ONE iteration of `while True: self.step()` with the two handlers ->
# coq/Gen/Extracted_run.v, bridged to run_prelude / run_loop / run_empty of Kernel/Model.v by coq/Kernel/RunBridge.v;
# obligations in Props/C03_BridgeRun.v.  `until` is None, a number or an Event: which, is three boolean observations;
# its numeric value is read through `until` (int) / `float(until)`; after `until = Event(self)` the name denotes the sentinel.

RUN_CONS = [("FxRaiseUntilPast", ""),       # raise ValueError(f'until(={at}) must be > the current simulation time.')
            ("FxNewSentinel", ""),          # until = Event(self)
            ("FxSentinelOk", ""),           # until._ok = True
            ("FxSentinelValueNone", ""),    # until._value = None
            ("FxScheduleUrgent", "(delay : Q)"),   # self.schedule(until, URGENT, delay)
            ("FxReturnUntilValue", ""),     # return until.value          (the until event was already processed)
            ("FxAppendStop", ""),           # until.callbacks.append(StopSimulation.callback)
            ("FxStep", ""),                 # self.step()
            ("FxReturnStopValue", ""),      # return exc.args[0]           (StopSimulation)
            ("FxAssertUntriggered", ""),    # assert not until.triggered
            ("FxRaiseNotTriggered", ""),    # raise RuntimeError('No scheduled events left but "until" event was not triggered: ...')
            ("FxReturnNone", ""),           # return None
            ("FxLoopAgain", "")]
RUN_FX = [("raise ValueError(f'until(={at}) must be > the current simulation time.')", "FxRaiseUntilPast", []),
          ("until = Event(self)", "FxNewSentinel", []),
          ("until._ok = True", "FxSentinelOk", []),
          ("until._value = None", "FxSentinelValueNone", []),
          ("self.schedule(until, URGENT, _1)", "FxScheduleUrgent", ["Q"]),
          ("return until.value", "FxReturnUntilValue", []),
          ("until.callbacks.append(StopSimulation.callback)", "FxAppendStop", []),
          ("self.step()", "FxStep", []),
          ("return exc.args[0]", "FxReturnStopValue", []),
          ("assert not until.triggered", "FxAssertUntriggered", []),
          ("raise RuntimeError(f'No scheduled events left but \"until\" event was not triggered: {until}')", "FxRaiseNotTriggered", []),
          ("return None", "FxReturnNone", [])]
RUN_READS = [("until is not None", "until_given", "bool"),
             ("isinstance(until, Event)", "until_is_event", "bool"),
             ("isinstance(until, int)", "until_is_int", "bool"),
             ("until", "until_int", "Q"),                   # the number, when it is an int
             ("float(until)", "until_float", "Q"),          # the number otherwise
             ("self.now", "now", "Q"),
             ("until.callbacks is None", "until_processed", "bool")]


def extracted_run(repo):
    from vlib import translate as tr
    spec = tr.FnSpec(os.path.join(repo, "onl", "sim", "core.py"), "Environment", "run", "gen_Environment_run",
                     reads=RUN_READS, effects=RUN_FX, ignore_stmts=["at: SimTime"], loop_again="FxLoopAgain",
                     raising=[("FxStep", [("StopSimulation", "stopped"), ("EmptySchedule", "empty")])])
    return tr.gen_module("onl/sim/core.py: Environment.run -- the part before the loop and ONE iteration of `while True: self.step()` "
                         "with the StopSimulation / EmptySchedule handlers", None, "", [], "run_fx", RUN_CONS, [spec])


def write_extracted_run(repo, coq_dir):
    from vlib import translate as tr
    return tr.write_if_changed(os.path.join(coq_dir, "Gen", "Extracted_run.v"), extracted_run(repo))


# ------------------------------------------------------------------------------------------------
# The loops of Condition (C05): __init__ (the part before the subscription loop; ONE iteration of the loop; what follows),
# _populate_value and _remove_check_callbacks (ONE iteration each; the recursion into a nested condition is an effect)
# -> coq/Gen/Extracted_condloops.v, bridged to call_cond / cond_subscribe / populate_ops / remove_ops of Kernel/Model.v by
# coq/Kernel/CondLoopBridge.v; obligations in Props/C05_BridgeLoop.v.  The loops are `for event in self._events`: the
# position is the hidden loop-carried local `k` (state record).  The mixed-environment check loop of __init__ is ONE
# whitelisted statement (the model has one environment).

CLOOP_CONS = [("FxEventInit", ""),            # super().__init__(env)
              ("FxSetEvaluate", ""),          # self._evaluate = evaluate
              ("FxSetEvents", ""),            # self._events = tuple(events)
              ("FxCountZero", ""),            # self._count = 0
              ("FxSucceedEmpty", ""),         # self.succeed(ConditionValue())
              ("FxCheckSameEnv", ""),         # for event in self._events: if self.env != event.env: raise ValueError(..)
              ("FxCheckOperand", ""),         # self._check(event)                       (the operand is already processed)
              ("FxSubscribe", ""),            # event.callbacks.append(self._check)
              ("FxAssertCallbacks", ""),      # assert isinstance(self.callbacks, list)
              ("FxAppendBuild", ""),          # self.callbacks.append(self._build_value)
              ("FxPopulateNested", ""),       # event._populate_value(value)             (a nested condition)
              ("FxAppendLeaf", ""),           # value.events.append(event)               (a processed leaf)
              ("FxRemoveCheck", ""),          # event.callbacks.remove(self._check)
              ("FxRemoveNested", ""),         # event._remove_check_callbacks()
              ("FxLoopAgain", "")]
SAME_ENV_LOOP = """for event in self._events:
    if self.env != event.env:
        raise ValueError(
            'It is not allowed to mix events from different '
            'environments'
        )"""
CLOOP_FX = [("super().__init__(env)", "FxEventInit", []),
            ("self._evaluate = evaluate", "FxSetEvaluate", []),
            ("self._events = tuple(events)", "FxSetEvents", []),
            ("self._count = 0", "FxCountZero", []),
            ("self.succeed(ConditionValue())", "FxSucceedEmpty", []),
            (SAME_ENV_LOOP, "FxCheckSameEnv", []),
            ("self._check(event)", "FxCheckOperand", []),
            ("event.callbacks.append(self._check)", "FxSubscribe", []),
            ("assert isinstance(self.callbacks, list)", "FxAssertCallbacks", []),
            ("self.callbacks.append(self._build_value)", "FxAppendBuild", []),
            ("event._populate_value(value)", "FxPopulateNested", []),
            ("value.events.append(event)", "FxAppendLeaf", []),
            ("event.callbacks.remove(self._check)", "FxRemoveCheck", []),
            ("event._remove_check_callbacks()", "FxRemoveNested", [])]
CLOOP_READS = [("self._events", "n_events", "len"),
               ("event.callbacks is None", "operand_processed", "bool"),
               ("isinstance(event, Condition)", "operand_is_condition", "bool"),
               ("event.callbacks and self._check in event.callbacks", "check_registered", "bool")]


def extracted_condloops(repo):
    from vlib import translate as tr
    ev = os.path.join(repo, "onl", "sim", "events.py")
    kw = dict(reads=CLOOP_READS, effects=CLOOP_FX, loop_again="FxLoopAgain", local_state=True, loop_index="k")
    specs = [tr.FnSpec(ev, "Condition", "__init__", "gen_Condition_init_before", select="before_loop", **kw),
             tr.FnSpec(ev, "Condition", "__init__", "gen_Condition_init_loop", select="loop", **kw),
             tr.FnSpec(ev, "Condition", "_populate_value", "gen_Condition_populate_iter", select="loop", **kw),
             tr.FnSpec(ev, "Condition", "_remove_check_callbacks", "gen_Condition_remove_iter", select="loop", **kw)]
    return tr.gen_module("onl/sim/events.py: Condition.__init__ (before its subscription loop; ONE iteration of it and what follows), "
                         "_populate_value, _remove_check_callbacks (ONE iteration each); state record = the position k in self._events",
                         "cloop_st", "o_", [("k", "Z")], "cloop_fx", CLOOP_CONS, specs)


def write_extracted_condloops(repo, coq_dir):
    from vlib import translate as tr
    return tr.write_if_changed(os.path.join(coq_dir, "Gen", "Extracted_condloops.v"), extracted_condloops(repo))
