"""C04 -- interrupts reach a live process once, in issue order, ahead of ordinary events.
Model: coq/Kernel/Model.v + coq/Kernel/Intr*.v (statements in coq/Props/C04.v).
Correspondence: script families (props/kernel_common.py) on the real onl.sim.Environment vs the model, whole trace.
Monitor: the property statement over the implementation's observation only (trace + klog + the monitor-only
record `xlog` of IHarness: interrupt() calls, generator start/end, yields, conditions); independent of the model.

Cases: ~45% kernel_common random families with interrupt-heavy knobs, the rest hand-shaped families
  S1 dead-at-same-instant   (interrupt() on a process whose generator ended in the very same instant)
  S2 condition-target       (the victim is the only waiter of a pending condition; it, or a later waiter, waits again)
  S3 general                (interrupters x victims, exactly at / off the victim's due instant, reactions, bursts, self,
                             spawn-then-interrupt, shared / failing targets with co-waiters, re-yield of the old target)
"""
import json
from collections import Counter
from fractions import Fraction

from vlib.framework import Prop
from props import kernel_common as kc

F = Fraction
LATTICE = [F(1, 8), F(1, 4), F(1, 2), F(1), F(3, 2), F(2), F(3)]          # DEFAULT_KNOBS["delays"] without 0


# ================================================================================================
# harness: kc.Harness + a monitor-only record (the trace / results / klog stay exactly kc's)

class IHarness(kc.Harness):
    def __init__(self, case, env_factory=None):
        super().__init__(case, env_factory)
        self.xlog = []
        self._gens = []          # [generator, {"pid": p}] of every process body created
        self._iseq = 0

    # -- helpers
    def _pos(self):
        return len(self.trace), len(self.klog)

    def running_pid(self):
        """pid of the process whose generator is executing right now (None: module level); independent of
        env.active_process"""
        for g, cell in self._gens:
            if g.gi_running:
                return cell["pid"]
        return None

    def _x(self, kind, **kw):
        t, k = self._pos()
        d = {"k": kind, "t": t, "kl": k}
        d.update(kw)
        self.xlog.append(d)
        return d

    # -- process bodies: note start / end without touching the trace
    def body(self, code, arg):
        cell = {"pid": None}
        g = self._body_gen(code, arg, cell)
        self._gens.append([g, cell])
        return g

    def _body_gen(self, code, arg, cell):
        self._x("start", pid=cell["pid"])
        try:
            r = yield from kc.Harness.body(self, code, arg)
        except (GeneratorExit, kc.HarnessAbort):
            raise
        except BaseException as e:
            self._x("end", pid=cell["pid"], how="raise", val=self.conv_exn(e))
            raise
        self._x("end", pid=cell["pid"], how="return", val=self.conv(r))
        return r

    def mk_process(self, code, arg):
        n0 = len(self._gens)
        p = super().mk_process(code, arg)
        pid = self.pid[id(p)]
        if len(self._gens) > n0:
            self._gens[-1][1]["pid"] = pid
        self._x("spawn", pid=pid, evid=self.evid.get(id(p), -1), code=code,
                sids=[self.sid.get(id(ev), -1) for ev in self.call_sched],
                by=self.running_pid())
        return p

    def mk_interrupt(self, p, cause):
        from onl.sim.events import Process
        t0, k0 = self._pos()
        ap = self.env.active_process
        rec = {"k": "intr", "t": t0, "kl": k0, "seq": self._iseq,
               "issuer": self.running_pid(), "active": None if ap is None else self.pid.get(id(ap), -1),
               "victim": self.pid.get(id(p), -1) if isinstance(p, Process) else None,
               "cause": self.conv(cause), "now": self.now()}
        self._iseq += 1
        try:
            super().mk_interrupt(p, cause)
        except kc.HarnessAbort:
            raise
        except Exception as e:
            rec["raised"] = self.conv_exn(e)
            raise
        else:
            rec["raised"] = None
        finally:
            rec["nsched"] = len(self.call_sched)
            rec["sids"] = [self.sid.get(id(ev), -1) for ev in self.call_sched]
            rec["evids"] = [self.evid.get(id(ev), -1) for ev in self.call_sched]
            rec["kl1"] = len(self.klog)
            self.xlog.append(rec)
        return None

    def mk_cond(self, all_, evs):
        t0, k0 = self._pos()
        c = super().mk_cond(all_, evs)
        self.xlog.append({"k": "cond", "t": t0, "kl": k0, "kl1": len(self.klog), "evid": self.evid.get(id(c), -1),
                          "all": bool(all_), "ops": [self.evid.get(id(e), -1) for e in evs], "by": self.running_pid()})
        return c

    def exec_i(self, ins, regs):
        from onl.sim.events import Event, Process
        op = ins[0]
        if op == "yield":
            target = self.ev(ins[2], regs)
            mode = ins[4]
            self._x("yield", pid=self.running_pid(), lbl=ins[1],
                    evid=(self.evid.get(id(target), -1) if isinstance(target, Event) else None),
                    retry=(mode[1] if isinstance(mode, list) else 0))
        elif op in ("succeed", "fail"):
            v = self.read(ins[1], regs)
            if isinstance(v, Process):
                self._x("misuse", pid=self.pid.get(id(v), -1), evid=self.evid.get(id(v), -1))
        return (yield from super().exec_i(ins, regs))

    def _step(self):
        from onl.sim.core import EmptySchedule, StopSimulation
        try:
            return super()._step()
        except EmptySchedule:
            raise
        except StopSimulation:
            self._x("step-exc", how="stop")          # run(until=...) ends here; the repaired kernel raises it after the callback loop
            raise
        except kc.HarnessAbort:
            raise
        except BaseException as e:
            self._x("step-exc", how="raise", exn=self.conv_exn(e))
            raise

    def run_item(self, it):
        i = len(self.results)
        u = self.glob.get(it[1]) if it[0] == "run_ev" else None
        self._x("item", i=i, what=it[0], until=(self.evid.get(id(u), -1) if u is not None else None))
        try:
            super().run_item(it)
        finally:
            self._x("item-end", i=i, what=it[0])

    def run(self):
        from onl.sim.events import Process
        obs = super().run()
        obs["xlog"] = self.xlog
        pid_evid, pid_sid, ev_final = {}, {}, {}
        for o in self.keep:
            i = id(o)
            if i in self.evid:
                ev_final[str(self.evid[i])] = [type(o).__name__, bool(o.triggered), getattr(o, "_ok", None),
                                               bool(o.processed)]
            if isinstance(o, Process) and i in self.pid:
                pid_evid[str(self.pid[i])] = self.evid.get(i, -1)
                pid_sid[str(self.pid[i])] = self.sid.get(i, -1)
        obs["pid_evid"], obs["pid_sid"], obs["ev_final"] = pid_evid, pid_sid, ev_final
        return obs


# ================================================================================================
# hand-shaped case families

def qs(x):
    return kc.qs(x)


class _Code:
    def __init__(self, b):
        self.b = b
        self.ins = []
        self.nl = 1

    def newl(self):
        self.nl += 1
        return ["L", self.nl - 1]

    def add(self, *ins):
        self.ins.extend(ins)

    def timeout(self, d, v=None, probe=None):
        r = self.newl()
        self.ins.append(["timeout", r, qs(d), v if v is not None else self.b.val()])
        if probe if probe is not None else self.b.rng.random() < 0.6:
            self.ins.append(["probe", r, self.b.newprobe()])
        return r

    def sleep(self, d, mode="catch", parts=1):
        """sleep d in total (as `parts` timeouts); returns nothing"""
        ds = [d]
        if parts == 2:
            cands = [x for x in LATTICE if x < d and (d - x) in LATTICE]
            if cands:
                a = self.b.rng.choice(cands)
                ds = [a, d - a]
        for x in ds:
            r = self.timeout(x, probe=False)
            self.ins.append(["yield", self.b.newlbl(), ["reg", r], self.newl(), mode])

    def wait(self, reg, mode="catch"):
        lbl = self.b.newlbl()
        dst = self.newl()
        self.ins.append(["yield", lbl, ["reg", reg], dst, mode])
        return lbl, dst


class _B:
    """builds one case: codes, the set-up block (spawns into G slots), plan"""

    def __init__(self, rng):
        self.rng = rng
        self.lbl = 0
        self.probe = 0
        self.cause = 100
        self.ng = 0
        self.codes = []
        self.pre = []            # module-level instructions before the spawns
        self.spawns = []         # (code index, G slot, arg)
        self.post = []           # module-level instructions after the spawns
        self.tags = set()
        self.expect = []

    def newlbl(self):
        self.lbl += 1
        return self.lbl

    def newprobe(self):
        self.probe += 1
        return self.probe

    def newcause(self):
        self.cause += 1
        return ["int", self.cause]

    def newg(self):
        self.ng += 1
        return ["G", self.ng - 1]

    def val(self):
        r = self.rng.random()
        return ["none"] if r < 0.4 else ["int", self.rng.randint(0, 9)]

    def userexc(self):
        return ["user", self.rng.randint(0, 3), self.rng.randint(0, 9)]

    def code(self):
        c = _Code(self)
        self.codes.append(c)
        c.index = len(self.codes) - 1
        return c

    def proc(self):
        """a main process: its code and the G slot that will hold it"""
        c = self.code()
        c.slot = self.newg()
        return c

    def spawn_order(self, procs):
        for c in procs:
            self.spawns.append(c)

    def t0(self):
        return self.rng.choice(["0", "0", "0", "1", "1/2", "-1", "5/4"])

    def plan_tail(self):
        return [["run"]] * self.rng.choice([1, 2, 2])

    def case(self, kind, plan_mid=None, t0=None):
        rng = self.rng
        setup = list(self.pre)
        for c in self.spawns:
            setup.append(["spawn", c.slot, c.index, self.val()])
            if rng.random() < 0.5:
                setup.append(["probe", c.slot, self.newprobe()])
        setup += self.post
        plan = [["exec", setup]] + (plan_mid or []) + self.plan_tail()
        case = {"t0": t0 if t0 is not None else self.t0(), "codes": [c.ins for c in self.codes], "plan": plan,
                "kind": kind, "tags": sorted(self.tags)}
        if rng.random() < 0.12:
            case["num"] = "fraction"
        if self.expect:
            case["expect"] = self.expect
        return case


def end_of(b, c, how):
    if how == "return":
        c.add(["return", b.val()])
    elif how == "raise":
        c.add(["raise", b.userexc()])


def gen_s1(rng):
    """dead-at-same-instant"""
    b = _B(rng)
    d = rng.choice(LATTICE)
    when = rng.choice(["same", "same", "same", "same", "earlier", "processed", "shared"])
    how = rng.choice(["fall", "return", "raise", "return"])
    n_int = rng.choice([1, 1, 1, 2])
    victim = b.proc()
    mode = rng.choice(["catch", "catch", "prop", ["retry", 1]])
    gt = None
    if when == "shared":
        gt = b.newg()
        b.pre.append(["timeout", gt, qs(d), b.val()])
        if rng.random() < 0.5:
            b.pre.append(["probe", gt, b.newprobe()])
        victim.wait(gt, mode)
    else:
        dv = d
        if when == "earlier":
            c = [x for x in LATTICE if x < d]
            dv = rng.choice(c) if c else F(0)
        victim.sleep(dv, mode, parts=rng.choice([1, 1, 2]))
    end_of(b, victim, how)
    procs = [victim]
    for _ in range(n_int):
        it = b.proc()
        if when == "shared":
            it.wait(gt, "catch")
        else:
            it.sleep(d, "catch", parts=rng.choice([1, 1, 2]))
        if when == "processed":
            it.sleep(F(0), "catch")
        it.add(["interrupt", victim.slot, b.newcause()])
        if rng.random() < 0.3:
            it.add(["interrupt", victim.slot, b.newcause()])
            b.tags.add("s1:twice")
        r = rng.random()
        if r < 0.3:
            it.wait(victim.slot, "catch")
            b.tags.add("s1:interrupter-joins")
        elif r < 0.5:
            it.sleep(rng.choice(LATTICE), "catch")
            it.add(["interrupt", victim.slot, b.newcause()])
        procs.append(it)
    if rng.random() < 0.3:
        j = b.proc()
        if rng.random() < 0.5:
            j.sleep(rng.choice([F(0)] + LATTICE), "catch")
        j.wait(victim.slot, "catch")
        procs.insert(rng.randrange(len(procs) + 1), j)
        b.tags.add("s1:joiner")
    b.tags.add("s1:victim-" + how)
    b.spawn_order(procs)
    mid = []
    if rng.random() < 0.2:
        mid = [["step", rng.choice([1, 2, 3, 4])], ["exec", [["interrupt", victim.slot, b.newcause()]]]]
    return b.case({"same": "s1-dead-same-instant", "shared": "s1-dead-same-step", "earlier": "s1-dead-earlier",
                   "processed": "s1-dead-processed"}[when], mid)


def gen_s2(rng):
    """condition-target"""
    b = _B(rng)
    variant = rng.choice(["rewait-retry", "rewait-explicit", "late-waiter", "late-waiter", "co-waiter"])
    shape = rng.choice(["and", "or", "all3", "any3", "nested", "and", "or"])
    t0s = b.t0()
    t0 = F(t0s)
    V = b.proc()
    gc = b.newg()
    exact = True                         # completion time known in closed form (all operands are V's own timeouts)

    def operand(d):
        nonlocal exact
        r = rng.random()
        if r < 0.75:
            return V.timeout(d, probe=rng.random() < 0.4)
        g = b.newg()
        if r < 0.9:                      # module-level timeout, created at t0 like V's own
            b.pre.append(["timeout", g, qs(d), b.val()])
            return g
        exact = False                    # plain event, succeeded by a helper at d
        b.pre.append(["event", g])
        h = b.proc()
        h.sleep(d, "catch")
        h.add(["succeed", g, b.val()])
        helpers.append(h)
        return g
    helpers = []
    ds = [rng.choice(LATTICE) for _ in range(3)]
    if shape in ("and", "or"):
        ops = [operand(ds[0]), operand(ds[1])]
        all_ = shape == "and"
        V.add(["cond", gc, all_, ops])
        T = max(ds[:2]) if all_ else min(ds[:2])
    elif shape in ("all3", "any3"):
        ops = [operand(x) for x in ds]
        all_ = shape == "all3"
        V.add(["cond", gc, all_, ops])
        T = max(ds) if all_ else min(ds)
    else:
        inner_all, outer_all = rng.random() < 0.5, rng.random() < 0.5
        o1, o2, o3 = operand(ds[0]), operand(ds[1]), operand(ds[2])
        inner = V.newl()
        V.add(["cond", inner, inner_all, [o1, o2]])
        V.add(["cond", gc, outer_all, [inner, o3] if rng.random() < 0.5 else [o3, inner]])
        ti = max(ds[:2]) if inner_all else min(ds[:2])
        T = max(ti, ds[2]) if outer_all else min(ti, ds[2])
    if rng.random() < 0.25:
        V.add(["probe", gc, b.newprobe()])
        b.tags.add("s2:cond-probed")
    # interrupts strictly before the completion, sometimes exactly at it
    before = [F(0)] + [x for x in LATTICE if x < T]
    n_intr = rng.choice([1, 1, 1, 2])
    deltas = sorted(rng.choice(before) for _ in range(n_intr))
    if rng.random() < 0.15:
        deltas[-1] = T
        b.tags.add("s2:interrupt-at-completion")
    procs = [V]
    vlbl = b.newlbl()
    vdst = V.newl()
    if variant == "rewait-retry":
        k = rng.choice([1, 2, 2])
        V.add(["yield", vlbl, ["reg", gc], vdst, ["retry", k]])
        final_lbl = vlbl if n_intr <= k else None
    elif variant == "rewait-explicit":
        V.add(["yield", vlbl, ["reg", gc], vdst, "catch"])
        l2 = b.newlbl()
        V.add(["ifexn", vdst, ["yield", l2, ["reg", gc], V.newl(), rng.choice(["catch", ["retry", 1]])]])
        final_lbl = l2 if n_intr == 1 else None
    else:
        V.add(["yield", vlbl, ["reg", gc], vdst, "catch"])
        final_lbl = None
        r = rng.random()
        if r < 0.4:
            V.add(["ifexn", vdst, ["return", ["reg", vdst]]])
        elif r < 0.7:
            far = V.newl()
            V.ins.insert(0, ["timeout", far, qs(T + rng.choice(LATTICE)), ["none"]])
            V.add(["ifexn", vdst, ["yield", b.newlbl(), ["reg", far], V.newl(), "catch"]])
    if rng.random() < 0.5:
        V.add(["log", ["reg", vdst]])
    # the interrupter(s): one process per interrupt, or one process issuing all
    pid_of = {}
    for dl in deltas:
        I = b.proc()
        if dl > 0 or rng.random() < 0.5:
            I.sleep(dl, "catch", parts=rng.choice([1, 1, 2]))
        I.add(["interrupt", V.slot, b.newcause()])
        procs.insert(rng.randrange(len(procs) + 1) if rng.random() < 0.3 else len(procs), I)
    W = None
    if variant in ("late-waiter", "co-waiter"):
        W = b.proc()
        if variant == "late-waiter":
            later = [x for x in LATTICE if x > deltas[-1]] or [F(3)]
            d2 = rng.choice(later)
            W.sleep(d2, "catch")
        else:
            d2 = F(0)
            if rng.random() < 0.3:
                W.sleep(F(0), "catch")
        wl, wd = W.wait(gc, rng.choice(["catch", "prop"]))
        W.add(["log", ["reg", wd]])
        procs.append(W)                   # after V: gc is set when W reads it
    procs += helpers
    b.spawn_order(procs)
    for i, c in enumerate(procs):
        pid_of[id(c)] = i
    if exact and deltas[-1] < T:
        vp = pid_of[id(V)]
        if variant.startswith("rewait"):
            # the victim is interrupted at the condition's yield; (the interrupt exactly at t0 may arrive before the
            # victim's first statement: it is then delivered at the same yield, same instant)
            b.expect.append([vp, vlbl, qs(t0 + deltas[0]), "Interrupt"])
            if final_lbl is not None:
                b.expect.append([vp, final_lbl, qs(t0 + T), "ok"])
        else:
            b.expect.append([vp, vlbl, qs(t0 + deltas[0]), "Interrupt"])
            b.expect.append([pid_of[id(W)], wl, qs(t0 + max(T, d2)), "ok"])
    b.tags.add("s2:" + shape)
    mid = []
    if rng.random() < 0.2:
        mid = [["run_num", qs(t0 + rng.choice(LATTICE))]]
    return b.case("s2-cond-" + variant, mid, t0=t0s)


def gen_s3(rng):
    """general: interrupters x victims"""
    b = _B(rng)
    nv = rng.choice([1, 1, 2, 2, 3])
    ni = rng.choice([1, 1, 2, 2, 3, 4])
    t0s = b.t0()
    # shared targets
    shared = []                              # (G reg, due (relative to t0) or None)
    helpers = []
    if rng.random() < 0.55:
        g = b.newg()
        b.pre.append(["event", g])
        if rng.random() < 0.8:
            b.pre.append(["probe", g, b.newprobe()])
        tau = rng.choice(LATTICE)
        h = b.proc()
        h.sleep(tau, "catch", parts=rng.choice([1, 2]))
        if rng.random() < 0.3:
            h.add(["fail", g, b.userexc()])
            b.tags.add("s3:failing-shared-target")
        else:
            h.add(["succeed", g, b.val()])
        helpers.append(h)
        shared.append((g, tau))
    if rng.random() < 0.4:
        g = b.newg()
        d = rng.choice(LATTICE)
        b.pre.append(["timeout", g, qs(d), b.val()])
        if rng.random() < 0.8:
            b.pre.append(["probe", g, b.newprobe()])
        shared.append((g, d))
    if rng.random() < 0.25:
        g = b.newg()
        b.pre.append(["event", g])           # never triggered
        shared.append((g, None))
    victims = []
    for _ in range(nv):
        V = b.proc()
        r = rng.random()
        if r < 0.5 or not (shared or victims):
            dv = rng.choice(LATTICE)
            tgt = V.timeout(dv, probe=rng.random() < 0.7)
            due = dv
        elif r < 0.85 and shared:
            tgt, due = rng.choice(shared)
            b.tags.add("s3:shared-target")
        else:
            w = rng.choice(victims + helpers) if (victims + helpers) else None
            if w is None:
                tgt, due = rng.choice(shared)
            else:
                tgt, due = w.slot, getattr(w, "due", None)
                b.tags.add("s3:join-target")
        V.due = due
        V.tgt = tgt
        reaction = rng.choice(["ignore", "retry", "elsewhere", "return", "raise", "prop", "rewait", "ignore", "retry"])
        lbl, dst = b.newlbl(), V.newl()
        if reaction == "retry":
            V.add(["yield", lbl, ["reg", tgt], dst, ["retry", rng.choice([1, 2, 3])]])
        elif reaction == "prop":
            V.add(["yield", lbl, ["reg", tgt], dst, "prop"])
        else:
            V.add(["yield", lbl, ["reg", tgt], dst, "catch"])
            if reaction == "return":
                V.add(["ifexn", dst, ["return", ["reg", dst] if rng.random() < 0.5 else b.val()]])
            elif reaction == "raise":
                V.add(["ifexn", dst, ["raise", ["reg", dst] if rng.random() < 0.5 else b.userexc()]])
            elif reaction == "rewait":
                V.add(["ifexn", dst, ["yield", b.newlbl(), ["reg", tgt], V.newl(), rng.choice(["catch", ["retry", 1]])]])
            elif reaction == "elsewhere":
                r2 = rng.random()
                if r2 < 0.6:
                    far = V.newl()
                    extra = rng.choice(LATTICE)
                    V.ins.insert(0, ["timeout", far, qs((due or F(0)) + extra), ["none"]])
                    other = far
                    b.tags.add("s3:old-target-fires-while-elsewhere")
                elif shared:
                    other = rng.choice(shared)[0]
                else:
                    other = tgt
                V.add(["ifexn", dst, ["yield", b.newlbl(), ["reg", other], V.newl(), rng.choice(["catch", "catch", ["retry", 1]])]])
                if rng.random() < 0.6:
                    # back to the old target, which has been processed meanwhile: must continue at once with its outcome
                    V.add(["yield", b.newlbl(), ["reg", tgt], V.newl(), "catch"])
                    b.tags.add("s3:re-yield-old-target")
        b.tags.add("s3:victim-" + reaction)
        for _ in range(rng.choice([0, 0, 1, 2])):
            V.sleep(rng.choice([F(0)] + LATTICE), rng.choice(["catch", "catch", ["retry", 1]]))
        if rng.random() < 0.3:
            V.add(["yield", b.newlbl(), ["reg", tgt], V.newl(), "catch"])
            b.tags.add("s3:re-yield-old-target")
        end_of(b, V, rng.choice(["fall", "return", "fall", "raise"]))
        victims.append(V)
    cow = []
    for g, due in shared:
        for _ in range(rng.choice([0, 1, 1, 2])):
            W = b.proc()
            if rng.random() < 0.3:
                W.sleep(rng.choice([F(0)] + LATTICE), "catch")
            wl, wd = W.wait(g, rng.choice(["catch", "catch", "prop"]))
            W.add(["log", ["reg", wd]])
            cow.append(W)
            b.tags.add("s3:co-waiter")
    child = None
    inters = []
    for _ in range(ni):
        I = b.proc()
        tv = rng.choice(victims)
        r = rng.random()
        if r < 0.5 and tv.due is not None:
            D = tv.due
            b.tags.add("s3:at-due-instant")
        elif r < 0.6:
            D = F(0)
        else:
            D = rng.choice(LATTICE)
        if tv.tgt[0] == "G" and rng.random() < 0.3:
            # the interrupter waits for the very event its victim waits for: both are resumed in ONE step, in waiting order
            I.wait(tv.tgt, "catch")
            b.tags.add("s3:interrupter-in-victims-callback-list")
        elif D > 0 or rng.random() < 0.5:
            I.sleep(D, "catch", parts=rng.choice([1, 1, 2]))
        burst = rng.choice([1, 1, 1, 2, 3, 3])
        if burst > 1:
            b.tags.add("s3:burst")
        for _ in range(burst):
            I.add(["interrupt", (tv if rng.random() < 0.75 else rng.choice(victims)).slot, b.newcause()])
        r = rng.random()
        if r < 0.15:
            I.add(["interrupt", I.slot, b.newcause()])
            b.tags.add("s3:self")
        elif r < 0.4:
            if child is None:
                child = b.code()
                child.sleep(rng.choice(LATTICE), rng.choice(["catch", "prop", ["retry", 1]]))
                if rng.random() < 0.5:
                    child.sleep(rng.choice(LATTICE), "catch")
            cr = I.newl()
            I.add(["spawn", cr, child.index, b.val()])
            for _ in range(rng.choice([1, 1, 2])):
                I.add(["interrupt", cr, b.newcause()])
            b.tags.add("s3:spawn-then-interrupt")
        if rng.random() < 0.35:
            I.sleep(rng.choice([F(0)] + LATTICE), "catch")
            I.add(["interrupt", rng.choice(victims).slot, b.newcause()])
            b.tags.add("s3:second-round")
        if rng.random() < 0.2:
            I.wait(rng.choice(victims).slot, "catch")
        inters.append(I)
    procs = victims + inters + cow + helpers
    if rng.random() < 0.6:
        rng.shuffle(procs)
    b.spawn_order(procs)
    if rng.random() < 0.25:
        v = rng.choice(victims)
        for _ in range(rng.choice([1, 1, 2, 3])):
            b.post.append(["interrupt", v.slot, b.newcause()])
        b.tags.add("s3:module-level-before-first-statement")
    mid = []
    r = rng.random()
    if r < 0.2:
        mid = [["run_num", qs(F(t0s) + rng.choice(LATTICE))],
               ["exec", [["interrupt", rng.choice(victims).slot, b.newcause()]]]]
        b.tags.add("s3:module-level-between-runs")
    elif r < 0.35:
        mid = [["step", rng.choice([1, 2, 3, 5, 8])], ["exec", [["interrupt", rng.choice(victims).slot, b.newcause()]]],
               ["step", rng.choice([1, 2, 3])]]
        b.tags.add("s3:module-level-between-steps")
    return b.case("s3-general", mid, t0=t0s)


KC_KNOBS = {"procs": (2, 7), "w_interrupt": 6, "w_intr_then_spawn": 2, "w_interrupt_self": 0.8, "w_cond": 4,
            "p_retry": 0.3, "p_catch": 0.55, "p_probe": 0.9, "w_bad_yield": 0.02, "w_neg_delay": 0.1,
            "w_double_trigger": 0.3}


# ================================================================================================
# the property as an oracle over the observation

RUNTIME_DEAD = ["Runtime", [["int", 2]]]
RUNTIME_SELF = ["Runtime", [["int", 3]]]


def _tag(entry):
    items = entry[3][1]
    return items[0][1] if items and items[0][0] == "int" else None


def _tag1(entry):
    """(lbl, is_exn, value) of a 'received at yield' log entry"""
    items = entry[3][1]
    pl = items[2][1]
    return items[1][1], pl[0][1] == 1, pl[1]


def _outcome(is_exn, v):
    if is_exn:
        return ["fail", [v[1], v[2]]] if v[0] == "exn" else ["fail", v]
    return ["ok", v]


def analyse(case, obs):
    """walks the merged record; returns (messages, stats Counter)"""
    msgs = []
    st = Counter()
    trace, klog = obs["trace"], obs["klog"]
    xlog = [dict(x) for x in obs.get("xlog", [])]     # the walk annotates its records: work on copies (analyse is re-run on one obs)
    results = obs["results"]
    if obs.get("aborted"):
        return msgs, st
    ev_final = obs.get("ev_final", {})
    sid_of_evid = {}
    for s, e in obs["evid_of_sid"].items():
        sid_of_evid.setdefault(e, int(s))

    def say(slug, text):
        msgs.append(slug + ": " + text)

    # ---- klog: S record in force when an entry is processed; P entries in step order
    last_s = {}
    p_info = []                       # per processed step: (klog index, sid, now_before, now_after, prio, kind, delay)
    s_at = []                         # (klog index, sid, kind, prio, delay)
    r_at = []
    for i, k in enumerate(klog):
        if k[0] == "S":
            last_s[k[1]] = k
            s_at.append((i, k[1], k[5], k[4], k[3]))
        elif k[0] == "P":
            s = last_s.get(k[1])
            p_info.append((i, k[1], k[2], k[3], None if s is None else s[4], None if s is None else s[5]))
        elif k[0] == "P?":
            p_info.append((i, None, k[2], k[3], None, None))
        elif k[0] == "R":
            r_at.append(i)
    step_idx = [j for j, t in enumerate(trace) if t[0] == "step"]
    aligned = len(step_idx) == len(p_info)
    stepno_of_tidx = {j: n for n, j in enumerate(step_idx)}

    def k_end_of_step(n):
        """klog index where the records made during step n end"""
        lo = p_info[n][0]
        hi = p_info[n + 1][0] if n + 1 < len(p_info) else len(klog)
        for r in r_at:
            if lo < r < hi:
                hi = r
                break
        return hi

    def scheduled_between(sid, lo, hi):
        return any(lo <= i < hi and s == sid for (i, s, _, _, _) in s_at)

    # ---- merged timeline
    items = [(x["t"], 0, i, "x", x) for i, x in enumerate(xlog)] + [(j, 1, j, "t", t) for j, t in enumerate(trace)]
    items.sort(key=lambda a: a[:3])

    proc = {}                          # pid -> state
    misused_ev = set()
    processed = Counter()              # evid -> times processed
    intr_by_evid = {}
    accepted = {}                      # victim -> [rec...]
    outcomes = {}                      # evid -> [(who, outcome)]
    conds = {}                         # evid -> {"all","ops","count","decided","detached","exempt"}
    until_evs = set()
    cur = None                         # the step being processed
    stale_active = False

    def P(pid):
        if pid not in proc:
            proc[pid] = {"st": "unknown", "lbl": None, "tgt": None, "k": 0, "imm": False, "exempt": True, "logged": False,
                         "started": False}
        return proc[pid]

    def exempt(pid):
        return pid is None or pid < 0 or P(pid)["exempt"]

    def ev_ok(e):
        f = ev_final.get(str(e))
        return None if f is None else f[2]

    def ev_kind(e):
        f = ev_final.get(str(e))
        return None if f is None else f[0]

    def cond_operand_processed(c, cd, e, where_lo, where_hi, what):
        """one more operand occurrence of condition c has been processed (event e)"""
        if cd["decided"] or cd["detached"] or cd["exempt"]:
            return
        cd["count"] += 1
        ok = ev_ok(e)
        if ok is None:
            cd["exempt"] = True
            return
        n = len(cd["ops"])
        if not ok:
            cd["decided"] = "fail"
        elif (cd["count"] == n) if cd["all"] else (cd["count"] > 0):
            cd["decided"] = "ok"
        if cd["decided"]:
            st["cond-decided"] += 1
            sid = sid_of_evid.get(c)
            # (triggered there, or earlier by hand: succeed()/fail() on the condition itself)
            if where_lo is not None and (sid is None or not scheduled_between(sid, cd["kl"], where_hi)):
                say("condition-never-triggered",
                    f"condition event {c} ({'all' if cd['all'] else 'any'} of {cd['ops']}) is decided ({cd['decided']}) "
                    f"{what} but was not triggered there (its waiters would wait for ever)")

    def detach(c):
        for o in conds[c]["ops"]:
            if o in conds and not conds[o]["decided"]:
                conds[o]["detached"] = True
            if o in conds:
                detach(o)

    def finalize():
        nonlocal cur
        if cur is None:
            return
        c, cur = cur, None
        if c.get("skip"):
            return
        rec = c.get("deliver")
        if rec is not None and not rec.get("delivered") and not c.get("raised_broken"):
            say("interrupt-lost", f"interrupt #{rec['seq']} (cause {rec['cause']}) of process {rec['victim']}, issued at "
                f"{rec['now']}, was processed at {c['now']} while the victim was suspended at yield {c['vlbl']} but the victim "
                f"received nothing")
        rec = c.get("discard")
        if rec is not None and c.get("raised") is not None:
            say("interrupt-to-dead", f"processing the pending interrupt #{rec['seq']} of the finished process {rec['victim']} "
                f"raised {c['raised']} (it must be discarded without error)")
        if rec is not None and c["nlogs"]:
            say("interrupt-to-dead", f"processing the pending interrupt #{rec['seq']} of the finished process {rec['victim']} "
                f"resumed somebody ({c['nlogs']} log entries in that step); it must have no effect")
        w = c.get("waiters")
        cut = c.get("aborted") or c.get("cut")
        if w and cut:
            for p in w:
                proc[p]["exempt"] = True
        elif w:
            p = sorted(w)[0]
            say("waiter-not-resumed", f"event {c['evid']} was processed at {c['now']} while process {p} was suspended on it "
                f"(yield {proc[p]['lbl']}), but the process was not resumed in that step")
        # a failure nobody is there to handle must crash the step: detaching a victim from its target must not defuse it
        if ("anywaiter" in c and not c["anywaiter"] and not c.get("conds") and not cut and ev_ok(c["evid"]) is False
                and c["evid"] not in until_evs and not c["nlogs"]):
            st["unhandled-failure-steps"] += 1
            if c.get("raised") is None:
                say("failure-swallowed", f"the failed event {c['evid']} ({ev_kind(c['evid'])}) was processed at {c['now']} with no "
                    f"process waiting for it and no condition over it, yet step() raised nothing (its failure was lost)")
        for (cc, mult) in c.get("conds", []):
            cd = conds[cc]
            if cut:
                cd["exempt"] = True
                continue
            for _i in range(mult):
                cond_operand_processed(cc, cd, c["evid"], c["klo"], c["khi"],
                                       f"by the processing of its operand {c['evid']} at {c['now']}")

    for (_tpos, _o, tidx, src, x) in items:
        if src == "t":
            t = x
            if t[0] == "step":
                finalize()
                e, now = t[1], t[2]
                n = stepno_of_tidx[tidx]
                cur = {"evid": e, "now": now, "n": n, "nlogs": 0}
                processed[e] += 1
                for p, s in proc.items():
                    if s["st"] == "susp" and s["imm"] and not s["exempt"]:
                        say("waiter-not-resumed", f"process {p} yielded the already processed event {s['tgt']} at yield "
                            f"{s['lbl']} and did not continue at once")
                        s["exempt"] = True
                if e < 0 or processed[e] > 1 or e in misused_ev or not aligned:
                    cur["skip"] = True
                    for cd in conds.values():
                        if e in cd["ops"]:
                            cd["exempt"] = True
                    continue
                klo, khi = p_info[n][0], k_end_of_step(n)
                if e in intr_by_evid:
                    rec = intr_by_evid[e]
                    v = rec["victim"]
                    if rec.get("stepped"):
                        say("interrupt-duplicated", f"interrupt #{rec['seq']} of process {v} was processed twice")
                    rec["stepped"] = True
                    for r2 in accepted.get(v, []):
                        if r2["seq"] < rec["seq"] and not r2.get("stepped"):
                            say("interrupt-out-of-order", f"process {v}: interrupt #{rec['seq']} (cause {rec['cause']}) took "
                                f"effect before interrupt #{r2['seq']} (cause {r2['cause']}) that was issued earlier")
                            break
                    # nothing but urgent entries of the same instant between the call and the delivery
                    late = None
                    for (ki, sid, nb, na, prio, kind) in p_info[:n + 1]:
                        if ki < rec["kl1"]:
                            continue
                        if F(na) != F(rec["now"]):
                            late = f"the clock moved to {na}"
                        elif ki < klo and prio is not None and prio != 0:
                            late = f"a normal-priority {kind} event was processed first at {na}"
                        if late:
                            break
                    if late:
                        say("interrupt-late", f"interrupt #{rec['seq']} of process {v} issued at {rec['now']}: {late} before "
                            f"it took effect")
                    if exempt(v):
                        cur["skip"] = True
                    else:
                        s = proc[v]
                        if s["st"] == "ended":
                            cur["discard"] = rec
                            st["intr-discarded-victim-ended"] += 1
                        elif s["st"] == "susp":
                            cur["deliver"] = rec
                            cur["vlbl"] = s["lbl"]
                        elif s["st"] == "unstarted":
                            say("interrupted-before-start", f"interrupt #{rec['seq']} of process {v} took effect before the "
                                f"process had run its first statement")
                            s["exempt"] = True
                        else:
                            cur["skip"] = True
                else:
                    cur["waiters"] = {p for p, s in proc.items()
                                      if s["st"] == "susp" and s["tgt"] == e and not s["imm"] and not s["exempt"]}
                    cur["anywaiter"] = any(s["st"] in ("susp", "unknown", "broken") and s["tgt"] in (e, None)
                                           for s in proc.values())
                    cur["klo"], cur["khi"] = klo, khi
                    cur["conds"] = [(c, cd["ops"].count(e)) for c, cd in conds.items() if e in cd["ops"]]
                    if e in conds:
                        detach(e)
            elif t[0] == "probe":
                if t[2] >= 0:
                    outcomes.setdefault(t[2], []).append(("probe %d" % t[1], t[4]))
            elif t[0] == "log":
                pid = t[1]
                if cur is not None:
                    cur["nlogs"] += 1
                if pid is None or pid < 0:
                    continue
                s = P(pid)
                tag = _tag(t)
                if not s["logged"]:
                    s["logged"] = True
                    if tag != 0 and not s["exempt"]:
                        say("interrupted-before-start", f"the first thing process {pid} logs is {t[3]} (not its start)")
                if tag != 1:
                    continue
                lbl, is_exn, v = _tag1(t)
                is_intr = is_exn and v[0] == "exn" and v[1] == "Interrupt"
                if s["exempt"]:
                    s["st"] = "running"
                    continue
                if s["st"] != "susp" or s["lbl"] != lbl:
                    say("resumed-by-old-target", f"process {pid} was resumed at yield {lbl} with {v} at {t[2]} (step of event "
                        f"{cur['evid'] if cur else None}) while it was {s['st']}"
                        + (f" at yield {s['lbl']}" if s["st"] == "susp" else ""))
                    s["exempt"] = True
                    continue
                rec = cur.get("deliver") if cur else None
                if rec is not None and rec["victim"] == pid and not rec.get("delivered"):
                    rec["delivered"] = True
                    st["intr-delivered"] += 1
                    want = ["exn", "Interrupt", [rec["cause"]]]
                    if v != want or not is_exn:
                        say("interrupt-wrong-cause", f"process {pid} received {v} for interrupt #{rec['seq']} issued with "
                            f"cause {rec['cause']}")
                    if F(t[2]) != F(rec["now"]):
                        say("interrupt-late", f"interrupt #{rec['seq']} issued at {rec['now']} was received at {t[2]}")
                else:
                    src_ev = None
                    if s["imm"]:
                        src_ev = s["tgt"]
                        st["immediate-continuation"] += 1
                    elif cur is not None and cur["evid"] == s["tgt"] and not cur.get("skip"):
                        src_ev = s["tgt"]
                        cur["waiters"].discard(pid)
                    elif cur is not None and cur.get("skip"):
                        pass
                    else:
                        r0 = intr_by_evid.get(cur["evid"]) if cur is not None else None
                        if is_intr and r0 is not None and r0["victim"] == pid and r0.get("delivered"):
                            say("interrupt-duplicated", f"process {pid} received interrupt #{r0['seq']} (cause {r0['cause']}) "
                                f"a second time, at yield {lbl} at {t[2]}")
                        elif is_intr and r0 is not None:
                            say("spurious-interrupt", f"process {pid} received {v} at yield {lbl} at {t[2]} while interrupt "
                                f"#{r0['seq']} aimed at process {r0['victim']} was processed")
                        else:
                            say("resumed-by-old-target", f"process {pid}, suspended at yield {lbl} on event {s['tgt']}, was "
                                f"resumed with {v} at {t[2]} by the processing of event {cur['evid'] if cur else None}, which "
                                f"it is not waiting for")
                        s["exempt"] = True
                        continue
                    if src_ev is not None and src_ev >= 0:
                        outcomes.setdefault(src_ev, []).append(("process %d at yield %d" % (pid, lbl), _outcome(is_exn, v)))
                        if is_intr and ev_ok(src_ev) is True:
                            say("spurious-interrupt", f"process {pid} received {v} at yield {lbl} from the successful event "
                                f"{src_ev} ({ev_kind(src_ev)})")
                if is_intr and s["k"] > 0:
                    s["k"] -= 1
                    s["imm"] = processed[s["tgt"]] > 0
                    st["retry"] += 1
                else:
                    s["st"] = "running"
            continue
        # ---- xlog entries
        k = x["k"]
        if k == "spawn":
            proc[x["pid"]] = {"st": "unstarted", "lbl": None, "tgt": None, "k": 0, "imm": False, "exempt": False,
                              "logged": False, "started": False, "sids": x["sids"], "evid": x["evid"]}
        elif k == "start":
            s = P(x["pid"])
            s["st"] = "running"
            s["started"] = True
        elif k == "end":
            s = P(x["pid"])
            s["st"] = "ended"
        elif k == "misuse":
            P(x["pid"])["exempt"] = True
            misused_ev.add(x["evid"])
            st["misused-process-event"] += 1
        elif k == "yield":
            pid = x["pid"]
            if pid is None:
                continue
            s = P(pid)
            if x["evid"] is None:
                s["st"] = "broken"
                s["exempt"] = True
                if cur is not None:
                    cur["aborted"] = True
                st["invalid-yield"] += 1
            else:
                s["st"] = "susp"
                s["lbl"], s["tgt"], s["k"] = x["lbl"], x["evid"], x["retry"]
                s["imm"] = x["evid"] >= 0 and processed[x["evid"]] > 0
                if x["evid"] < 0:
                    s["exempt"] = True
        elif k == "cond":
            c = x["evid"]
            cd = {"all": x["all"], "ops": x["ops"], "count": 0, "decided": None, "detached": False, "kl": x["kl"],
                  "exempt": c < 0 or any(o < 0 or o in misused_ev for o in x["ops"])}
            conds[c] = cd
            if not cd["ops"] and not cd["exempt"]:
                cd["decided"] = "ok"
                sid = sid_of_evid.get(c)
                if sid is None or not scheduled_between(sid, x["kl"], x["kl1"]):
                    say("condition-never-triggered", f"condition {c} without operands was not triggered at creation")
            for o in x["ops"]:
                if processed[o] > 0:
                    cond_operand_processed(c, cd, o, x["kl"], x["kl1"], f"at creation (operand {o} already processed)")
        elif k == "item":
            if x.get("until") is not None:
                until_evs.add(x["until"])
        elif k == "step-exc":
            if cur is not None:
                if x["how"] == "stop":
                    pass                         # StopSimulation is raised after the callback loop (repaired kernel): nothing is cut
                else:
                    exn = x["exn"]
                    cur["raised"] = exn
                    if exn[0] in ("Attribute", "Value") and exn[1] in ([["int", 12]], [["int", 13]]):
                        cur["raised_broken"] = True
        elif k == "item-end":
            finalize()
        elif k == "intr":
            v = x["victim"]
            if v is None or v < 0:
                continue
            st["intr-calls"] += 1
            s = P(v)
            during = [kk for kk in klog[x["kl"]:x["kl1"]] if kk[0] == "S"]
            if x["issuer"] != x["active"]:
                stale_active = True
                st["stale-active-process"] += 1
                if x["raised"] is None:
                    intr_by_evid[x["evids"][0] if x["evids"] else -1] = x
                    accepted.setdefault(v, []).append(x)
                continue
            if s["exempt"]:
                if x["raised"] is None and x["evids"]:
                    intr_by_evid[x["evids"][0]] = x
                    accepted.setdefault(v, []).append(x)
                continue
            dead = s["st"] == "ended"
            selfi = x["issuer"] is not None and x["issuer"] == v
            if dead or selfi:
                want = RUNTIME_DEAD if dead else RUNTIME_SELF
                what = "the finished process" if dead else "itself: process"
                st["intr-refused-dead" if dead else "intr-refused-self"] += 1
                if x["raised"] is None:
                    say("dead-interrupt-accepted" if dead else "self-interrupt-accepted",
                        f"interrupt() on {what} {v} at {x['now']} (issuer {x['issuer']}) did not raise RuntimeError"
                        + (" (its generator had ended; its termination event was %s)" %
                           ("already processed" if processed[s.get("evid", -1)] else "not yet processed") if dead else ""))
                elif x["raised"] != want:
                    say("refused-wrong-exception", f"interrupt() on {what} {v} raised {x['raised']}, expected {want}")
                if during or x["nsched"]:
                    say("refused-but-scheduled", f"interrupt() on {what} {v} at {x['now']} scheduled "
                        f"{[d[5] for d in during]} although it must have no effect")
                if x["raised"] is None and x["evids"]:
                    intr_by_evid[x["evids"][0]] = x
                    accepted.setdefault(v, []).append(x)
                    if not dead:
                        s["exempt"] = True
            else:
                if x["raised"] is not None:
                    say("live-interrupt-refused", f"interrupt() by {x['issuer']} on the live process {v} ({s['st']}) at "
                        f"{x['now']} raised {x['raised']}")
                    if during or x["nsched"]:
                        say("refused-but-scheduled", f"the refused interrupt() on process {v} scheduled {[d[5] for d in during]}")
                    continue
                st["intr-accepted"] += 1
                if s["st"] == "unstarted":
                    st["intr-before-first-statement"] += 1
                if len(during) != 1 or x["nsched"] != 1:
                    say("interrupt-schedule-count", f"interrupt() on the live process {v} made {len(during)} schedule calls "
                        f"({[d[5] for d in during]}), expected exactly one")
                for d in during[:1]:
                    if d[5] != "Interruption" or d[4] != 0 or F(d[3]) != 0:
                        say("interruption-not-urgent", f"interrupt() on process {v} scheduled a {d[5]} with priority {d[4]} and "
                            f"delay {d[3]} (expected an Interruption, urgent, delay 0)")
                if x["evids"]:
                    intr_by_evid[x["evids"][0]] = x
                    accepted.setdefault(v, []).append(x)
                    if s["st"] == "susp":
                        # is the victim's target due at this very instant?  (statistics only)
                        sid = sid_of_evid.get(s["tgt"])
                        rs = last_s.get(sid)
                        if rs is not None and F(rs[2]) + F(rs[3]) == F(x["now"]) and not processed[s["tgt"]]:
                            st["intr-while-target-due-now"] += 1
    finalize()

    # ---- end of the run
    agenda_empty = bool(results) and results[-1][2] is None
    for v, recs in accepted.items():
        for rec in recs:
            if not rec.get("stepped"):
                if agenda_empty and not exempt(v) and not stale_active:
                    say("interrupt-lost", f"interrupt #{rec['seq']} of process {v} issued at {rec['now']} never took effect "
                        f"although the agenda ran empty")
                else:
                    st["intr-still-pending-at-end"] += 1
    if aligned:
        done_sids = {p[1] for p in p_info}
        for pid, s in proc.items():
            if s.get("sids") and not s["started"]:
                if any(sd in done_sids for sd in s["sids"]) and not s["exempt"]:
                    say("interrupted-before-start", f"the start of process {pid} was processed but its body never ran its "
                        f"first statement")
    # outcomes: one event, one outcome for every observer
    for e, obsv in outcomes.items():
        if e in misused_ev or processed[e] > 1:
            continue
        first = obsv[0]
        for who, o in obsv[1:]:
            if o != first[1]:
                say("wrong-outcome", f"event {e}: {first[0]} saw {first[1]} but {who} saw {o}")
                break
    # what the generator of a hand-shaped case says must happen
    for (pid, lbl, when, kind) in case.get("expect", []):
        found = False
        for t in trace:
            if t[0] == "log" and t[1] == pid and _tag(t) == 1 and F(t[2]) == F(when):
                l2, is_exn, v = _tag1(t)
                got = ("Interrupt" if (is_exn and v[0] == "exn" and v[1] == "Interrupt") else "fail" if is_exn else "ok")
                if l2 == lbl and got == kind:
                    found = True
                    break
        if not found:
            say("expected-resumption-missing", f"process {pid} must be resumed at yield {lbl} at {when} with {kind}; it was not")
    return msgs, st


class C04(Prop):
    id = "C04"
    props_file = ["Props/C04.v", "Props/C04_Bridge.v", "Props/C04_BridgeResume.v", "Props/C04_Examples.v", "Props/C04_Examples_Bridge.v"]
    coq_imports = kc.COQ_IMPORTS
    n_quick = 600
    n_thorough = 15000
    shard = 80
    case_timeout = 30
    nontrivial_rule = ("script families on the real kernel: 45% random (kernel_common with interrupt-heavy knobs, 2-7 initial "
                       "processes), 55% hand-shaped: S1 interrupt() on a process whose generator ended in the same instant / "
                       "same step / earlier, S2 victim is the only waiter of a pending condition and it or a later process "
                       "waits again, S3 1-4 interrupters x 1-3 victims at and off the victim's due instant with reactions "
                       "ignore/retry/re-wait/elsewhere/return/raise/propagate, bursts, self, spawn-then-interrupt, module-level "
                       "interrupts, shared and failing targets with co-waiters; dyadic delays; non-trivial = at least one "
                       "interrupt() call on a process and at least 5 processed events; distinct by hash of the case")
    trusted_base = ["vlib/translate.py (Python ast, fail closed; observation/effect tables in props/kernel_tie.py) regenerates coq/Gen/Extracted_kernel.v from the kernel leaves of the tree under test (Environment.schedule/peek/step, Event.succeed/fail/defused, Timeout/Initialize/Interruption.__init__, Interruption._interrupt, Process.interrupt) before every build; the C04_gen_* theorems (Props/C04_Bridge.v) bridge them to Kernel/Model.v; step()'s heappop try/except, its callback loop and peek()'s try/except are whitelisted as one statement each; ONE iteration of the loop of Process._resume is translated (coq/Gen/Extracted_resume.v, C04_gen_resume in Props/C04_BridgeResume.v: the handlers of the send/throw try are translated, the second try statement is one whitelisted statement)",
                    "kernel harness props/kernel_common.py: real generators on the real Environment; env.schedule/env.step wrapped "
                    "as instance attributes (no change in /repo); events named by creation index",
                    "props/c04.py IHarness: monitor-only record of interrupt() calls, generator start/end (a `yield from` wrapper "
                    "around the script body), yields and conditions; does not alter the trace compared with the model",
                    "times are exact: dyadic delays, Python numbers converted with fractions.Fraction; float rounding is outside the theorems",
                    "CPython generator semantics (send/throw/StopIteration) and heapq are modelled, not verified"]
    assumptions = ["process bodies do not call env.run()/step() re-entrantly",
                   "one Environment (no mixing of environments); Event.trigger (unused public method) is not modelled",
                   "monitor clauses are not applied to processes whose Process event was triggered by hand (succeed/fail on a "
                   "live Process), to processes that yielded a non-event, nor after env.active_process was left stale by such a crash"]
    assumptions += ["theorems: an execution is followed up to the first step whose callback loop is left by an exception escaping "
                    "from a callback (invalid yield, a forged event id) or by out-of-fuel (step_clean); RFuel/RBroken results are excluded",
                    "interrupt_delivery assumes the victim was not made to wait for the Interruption event aimed at itself (the "
                    "kernel never hands that object out; an automaton of the model could forge its id)"]
    partial = []


    # ---- second tie: the kernel leaves translated from the tree under test before the Coq build (fail closed) ----
    def pre_build(self):
        from vlib import framework as fw
        from props import kernel_tie
        kernel_tie.write_extracted_kernel(fw.REPO, fw.COQ)
        kernel_tie.write_extracted_resume(fw.REPO, fw.COQ)

    def gen_case(self, rng, tier):
        r = rng.random()
        if r < 0.45:
            c = kc.gen_case(rng, KC_KNOBS)
            c["kind"] = "kc-random"
            return c
        if r < 0.62:
            return gen_s1(rng)
        if r < 0.80:
            return gen_s2(rng)
        return gen_s3(rng)

    def run_impl(self, case):
        return IHarness(case).run()

    def agree_term(self, case, obs):
        return kc.agree_term(case, obs)

    def model_term(self, case):
        return kc.model_term(case)

    def nontrivial(self, case, obs):
        return (any(x["k"] == "intr" and x["victim"] is not None for x in obs.get("xlog", []))
                and len(kc.steps_of(obs)) >= 5)

    def shrink(self, case):
        if "expect" in case:
            # the expectation belongs to the unshrunk shape: drop it first, shrink only what still fails without it
            yield {k: v for k, v in case.items() if k != "expect"}
            return
        yield from kc.shrink(case)

    def describe(self, case, obs):
        keys = list(kc.describe(case, obs))
        keys.append("kind=" + case.get("kind", "corpus"))
        keys += ["tag=" + t for t in case.get("tags", [])]
        try:
            _, st = analyse(case, obs)
            keys += ["obs=" + k for k in st]
        except Exception:
            keys.append("obs=analyse-crashed")
        return keys

    def monitor(self, case, obs):
        msgs = list(kc.basic_monitor(case, obs))
        m2, _ = analyse(case, obs)
        msgs += m2
        seen, out = set(), []
        for m in msgs:
            s = m.split(":")[0]
            if s not in seen:
                seen.add(s)
                out.append(m)
        return out


PROP = C04()
