"""Second tie for the GENERATOR body TCPPacketGenerator.run (C17 / C16): the body cut at its yields and at the heads of its two
loops that can go around without yielding (vlib/translate_gen.py, fail closed) into coq/Gen/Extracted_tcprun.v on every run;
bridged to the modes of `arun` (coq/Tcp/AppSender.v) by coq/Tcp/RunBridge.v; obligations in Props/C17_BridgeRun.v."""
import os

TCPRUN_STATE = [("next_seq", "Z"), ("send_buffer", "Z"), ("last_arrival", "Q")]
TCPRUN_READS = [("self.flow.start_time", "start_time", "optQ"),                    # None | number: `if self.flow.start_time:`
                # finish_time defaults to float("inf"): the outcome of the loop test is the observation
                ("env.now < self.flow.finish_time", "before_finish", "bool"),
                ("self.flow.finish_time > env.now", "before_finish", "bool"),       # (the flipped spelling)
                ("self.flow.size", "flow_size", "optZ"),                           # None | int
                ("self.flow.arrival_dist", "has_arrival_dist", "optobj"),
                ("self.flow.size_dist", "has_size_dist", "optobj"),
                ("self.mss", "mss", "Z"), ("self.last_ack", "last_ack", "Z"),
                ("self.congestion_control.cwnd", "cwnd", "Q"), ("self.rto", "rto", "Q"),
                ("env.now", "now", "Q"), ("self.env.now", "now", "Q"),
                ("self.out", "out_set", "optobj"),
                ("packet.size", "psize", "Z"), ("packet.packet_id", "pid", "Z")]    # of the packet just created (FxNewPacket)
TCPRUN_DRAWS = [("self.flow.arrival_dist()", "arr", "Q", "FxArrivalDist"), ("self.flow.size_dist()", "sz", "Z", "FxSizeDist")]
TCPRUN_FX = [("packet = Packet(time=_1, size=_2, packet_id=_3, src=self.flow.src, flow_id=self.flow.flow_id)",
              "FxNewPacket", ["Q", "Z", "Z"]),
             ("self.sent_packets[packet.packet_id] = packet", "FxRecordSent", []),
             ("self.out.put(packet)", "FxOutPut", []),
             ("self.timers[packet.packet_id] = Timer(env, timeout=_1, timeout_callback=self.timeout_callback, "
              "args=packet.packet_id)", "FxNewTimer", ["Q"])]
TCPRUN_FX_CONS = [("FxArrivalDist", ""), ("FxSizeDist", ""), ("FxNewPacket", "(t : Q) (size : Z) (id : Z)"),
                  ("FxRecordSent", ""), ("FxOutPut", ""), ("FxNewTimer", "(rto : Q)")]
TCPRUN_REQUESTS = [("env.timeout(_1)", "RqTimeout", ["Q"], None), ("self.cwnd_avaialbe.get()", "RqWindowGet", [], None)]
TCPRUN_REQ_CONS = [("RqTimeout", "(d : Q)"), ("RqWindowGet", "")]
TCPRUN_PASS = ["env.now < self.flow.finish_time", "self.flow.finish_time > env.now",
               "self.next_seq >= self.send_buffer", "self.send_buffer <= self.next_seq"]


def extracted_tcprun(repo):
    from vlib import translate_gen as tg
    spec = tg.GenSpec(os.path.join(repo, "onl", "packet", "tcp_generator.py"), "TCPPacketGenerator", "run", "gen_TCPGen_run",
                      reads=TCPRUN_READS, draws=TCPRUN_DRAWS, effects=TCPRUN_FX, requests=TCPRUN_REQUESTS, objects=["packet"],
                      binds={"FxNewPacket": "packet"}, pass_loops=TCPRUN_PASS)
    return tg.gen_run_module("onl/packet/tcp_generator.py: TCPPacketGenerator.run", spec, TCPRUN_STATE, "tcprun_st", "tg_",
                             "tcprun_fx", TCPRUN_FX_CONS, TCPRUN_REQ_CONS, types="tcprun")


def write_extracted_tcprun(repo, coq_dir):
    from vlib import translate as tr
    return tr.write_if_changed(os.path.join(coq_dir, "Gen", "Extracted_tcprun.v"), extracted_tcprun(repo))
