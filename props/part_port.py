"""Part 'port' -- Port / REDPort / PortMonitor (onl/netdev/port.py, red_port.py, port_monitor.py).
Serves C09 (line rate, tail drop, occupancy, counters, stamps, monitor samples, RED) and the port's share of
C08 (conservation, per-flow order, drained).  Models: coq/Elem/Port.v, coq/Elem/Red.v.

kinds:  'port'     a Port alone
        'portmon'  a Port observed by a PortMonitor (scripted sampling distribution, both service_included settings)
        'redport'  a REDPort with scripted random.uniform
        'port2' / 'redport2'  TWO instances (Port+Port / REDPort+REDPort or Port+REDPort, different parameters) in ONE
                   Environment with interleaved workloads: each instance's log is replayed against its own copy of the
                   model, the monitors run per instance, and `instances-interfere` checks that an action of one instance
                   leaves the other's public state alone (state kept at class level would be shared)
"""
from fractions import Fraction

from vlib import coqfmt as cf
from props import elem_common as ec

F = Fraction
EID_KEYS = {None: None, "": 0, "p1": 1, "sw3": 2}           # element ids -> the model's ekey
FAR = 2 ** 40                                               # delay returned by an exhausted sampling script
TWO = ("port2", "redport2")                                 # kinds with two instances in one Environment


def _cpk(uids, size, t, flow):
    return {str(u): {"id": i + 1, "flow": flow, "size": size, "time": t, "src": "src0"} for i, u in enumerate(uids)}


CANARY_CASES = [
    {"kind": "redport2", "pre": False, "order": 0, "uniforms": ["1/4", "1/8", "1/2", "0/1", "3/4", "1/8", "1/2", "1/4"],
     "insts": [{"kind": "redport", "rate": 64, "eid": "p1", "limit_bytes": False, "qlimit": 4, "late_cfg": True,
                "red": {"min": 1, "max": 3, "maxp": "1/2", "w": 1},
                "workload": {"packets": {**_cpk([0, 1, 2], 8, "0/1", 0), **_cpk([3], 8, "1/1", 1)},
                             "drivers": [{"late": 0, "bursts": [["0/1", [0, 1, 2]], ["1/1", [3]]]}]}},
               {"kind": "redport", "rate": 64, "eid": "sw3", "limit_bytes": True, "qlimit": 64,
                "red": {"min": 16, "max": 32, "maxp": "1/4", "w": 0},
                "workload": {"packets": {**_cpk([100, 101], 16, "0/1", 1), **_cpk([102, 103], 16, "1/1", 2)},
                             "drivers": [{"late": 1, "bursts": [["0/1", [100, 101]], ["1/1", [102, 103]]]}]}}]},
    {"kind": "portmon", "rate": 8, "eid": "p1", "pre": False, "limit_bytes": False, "qlimit": 3, "late_cfg": True,
     "mon": {"incl": True, "dist": ["2/1", "1/1", "3/1"], "first": False},
     "workload": {"packets": {**_cpk([0, 1, 2], 4, "1/1", 0), **_cpk([3], 2, "1/1", 1)},
                  "drivers": [{"late": 0, "bursts": [["1/1", [0, 1, 3, 2]]]}]}},
]
CANARY_DIGEST = "1b0d74dab2e8ef01"         # recorded on the repaired tree (/repo 4170594); PortPart()._canary() prints it


class Script:
    """scripted random source: dist() and random.uniform(0,1) pop from the case's lists"""

    def __init__(self, vals, after=None):
        self.vals = [ec.T(v) for v in vals]
        self.n = 0
        self.after = after

    def __call__(self, *a):
        if self.n >= len(self.vals) and self.after is not None:
            self.n += 1
            return self.after
        v = self.vals[self.n]          # IndexError = the case did not provide enough draws (harness error)
        self.n += 1
        return v

    def uniform(self, a, b):
        return self()


class PHarness(ec.Harness):
    """records what put() wrote into packet.perhop_time as an extra output of the put action"""

    def _do_put(self, element, uid):
        pkt = self.packets[uid]
        before = dict(pkt.perhop_time)
        super()._do_put(element, uid)
        entry = self.log[-1]
        for k, v in pkt.perhop_time.items():
            if k not in before or before[k] != v:
                entry[2].append(["stamp", k if (k is None or isinstance(k, str)) else repr(k), ec.qs(v)])


def _num(x):
    """python number for a constructor argument: int when integral (as users write them), else exact float"""
    f = cf.frac(x)
    return int(f) if f.denominator == 1 else ec.T(f)


# ------------------------------------------------------------------------------------------------
# second tie (DESIGN 2.6): Port.put / REDPort.put translated from the tree under test on every run
# (vlib/translate.py, fail closed) into coq/Gen/Extracted_port.v; bridged to Elem/Port.v, Elem/Red.v by
# coq/Elem/PortBridge.v; the bridging theorems are the obligations of Props/C09_Bridge.v.
# The tables below are ALL the translator knows beyond numeric straight-line code.

PORT_STATE = [("packets_received", "Z"), ("byte_size", "Z"), ("packets_dropped", "Z")]
PORT_EFFECTS = [("FxStamp", "(k : option Z) (t : Q)"),        # packet.perhop_time[k] = t
                ("FxStorePut", "")]                          # self.store.put(packet)
PORT_READS = [("self.element_id", "element_id", "optZ"),      # None | str; the plugin encodes "" as 0 (same truthiness)
              ("self.qlimit", "qlimit", "optZ"),
              ("self.limit_bytes", "limit_bytes", "bool"),
              ("self.debug", "debug", "bool"),
              ("self.env.now", "now", "Q"),
              ("packet.size", "size", "Z"),
              ("self.store.items", "n_items", "len", "volatile")]
PORT_FX = [("packet.perhop_time[_1] = _2", "FxStamp", ["optZ", "Q"], ("n_items",)),   # does not touch the store
           ("self.store.put(packet)", "FxStorePut", [])]


def extracted_port(repo):
    import os
    from vlib import translate as tr
    spec = tr.FnSpec(os.path.join(repo, "onl", "netdev", "port.py"), "Port", "put", "gen_Port_put",
                     reads=PORT_READS, effects=PORT_FX)
    return tr.gen_module("onl/netdev/port.py: Port.put", "port_st", "g_", PORT_STATE, "port_fx", PORT_EFFECTS, [spec])


RED_STATE = PORT_STATE + [("average_queue_size", "Q")]
RED_EFFECTS = [("FxStamp", "(k : option Z) (t : Q)"),         # packet.perhop_time[k] = t
               ("FxDraw", ""),                               # rand = random.uniform(0, 1)   (the value is the parameter u)
               ("FxStorePut", "")]                           # self.store.put(packet)
RED_READS = [("self.element_id", "element_id", "optZ"),
             ("self.limit_bytes", "limit_bytes", "bool"),
             ("self.debug", "debug", "bool"),
             ("self.env.now", "now", "Q"),
             ("packet.size", "size", "Z"),
             ("self.store.items", "n_items", "len", "volatile"),
             ("self.weight_factor", "weight_factor", "Z"),
             ("self.qlimit", "qlimit", "Q"),                 # REDPort(qlimit=None) is outside the statement (assumptions)
             ("self.max_threshold", "max_threshold", "Q"),
             ("self.min_threshold", "min_threshold", "Q"),
             ("self.max_probability", "max_probability", "Q")]
RED_DRAWS = [("random.uniform(0, 1)", "u", "Q", "FxDraw")]


def extracted_red(repo):
    import os
    from vlib import translate as tr
    spec = tr.FnSpec(os.path.join(repo, "onl", "netdev", "red_port.py"), "REDPort", "put", "gen_REDPort_put",
                     reads=RED_READS, effects=PORT_FX, draws=RED_DRAWS)
    return tr.gen_module("onl/netdev/red_port.py: REDPort.put", "red_st", "r_", RED_STATE, "red_fx", RED_EFFECTS, [spec])


MON_EFFECTS = [("FxSize", "(n : Z)"),                        # self._sizes.append(n)
               ("FxSizeByte", "(b : Z)")]                    # self._sizes_byte.append(b)
MON_READS = [("self.pkt_in_service_included", "incl", "bool"),
             ("self.port.byte_size", "byte_size", "Z"),
             ("self.port.store.items", "n_items", "len"),
             ("self.port.busy", "busy", "Z"),
             ("self.port.busy_packet_size", "busy_packet_size", "Z")]
MON_FX = [("self._sizes.append(_1)", "FxSize", ["Z"]), ("self._sizes_byte.append(_1)", "FxSizeByte", ["Z"])]


def extracted_portmon(repo):
    import os
    from vlib import translate as tr
    spec = tr.FnSpec(os.path.join(repo, "onl", "netdev", "port_monitor.py"), "PortMonitor", "run", "gen_PortMonitor_sample",
                     reads=MON_READS, effects=MON_FX, select="loop_after_yield")
    return tr.gen_module("onl/netdev/port_monitor.py: PortMonitor.run, the statements after each `yield timeout(dist())`",
                         None, "", [], "mon_fx", MON_EFFECTS, [spec])


# Port.run, the server process, cut at its yields (vlib/translate_gen.py): Gen/Extracted_port_run.v; bridged to the PInit /
# PGet / PTimer steps of Elem/Port.v by coq/Elem/PortRunBridge.v; obligations in Props/C09_BridgeRun.v
PORT_RUN_STATE = [("byte_size", "Z"), ("busy", "Z"), ("busy_packet_size", "Z")]
PORT_RUN_READS = [("self.rate", "rate", "Q"), ("packet.size", "size", "Z"), ("self.out", "out_set", "optobj")]
PORT_RUN_FX = [("self.out.put(packet)", "FxOutPut", [])]
# FxOutPut carries what the downstream element can see of the port while its put() runs
PORT_RUN_SEES = {"FxOutPut": ["busy", "busy_packet_size", "byte_size"]}
PORT_RUN_FX_CONS = [("FxOutPut", "(busy : Z) (busy_packet_size : Z) (byte_size : Z)")]
PORT_RUN_REQUESTS = [("self.store.get()", "RqStoreGet", [], "obj"),       # resumes with the packet
                     ("env.timeout(_1)", "RqTimeout", ["Q"], None),
                     ("self.env.timeout(_1)", "RqTimeout", ["Q"], None)]      # the same Environment (self.env is env)
PORT_RUN_REQ_CONS = [("RqStoreGet", ""), ("RqTimeout", "(d : Q)")]


def extracted_port_run(repo):
    import os
    from vlib import translate_gen as tg
    spec = tg.GenSpec(os.path.join(repo, "onl", "netdev", "port.py"), "Port", "run", "gen_Port_run",
                      reads=PORT_RUN_READS, effects=PORT_RUN_FX, requests=PORT_RUN_REQUESTS, objects=["packet"],
                      sees=PORT_RUN_SEES)
    return tg.gen_run_module("onl/netdev/port.py: Port.run", spec, PORT_RUN_STATE, "port_run_st", "pr_", "port_run_fx",
                             PORT_RUN_FX_CONS, PORT_RUN_REQ_CONS, types="port_run")


class PortPart:
    name = "port"
    kinds = ["port", "redport", "portmon", "port2", "redport2"]
    serves = ["C09", "C08"]
    props_files = {"C09": ["Props/C09.v", "Props/C09_Bridge.v", "Props/C09_BridgeRed.v", "Props/C09_BridgeMon.v", "Props/C09_BridgeRun.v", "Props/C09_Examples.v"], "C08": ["Props/C08_Port.v"]}
    coq_imports = ["From ONL Require Import Base.Cmp Elem.Packet Elem.StoreQ Elem.Port Elem.Red."]
    weight = 1
    nontrivial_rule = {
        "C09": ("Port/REDPort/PortMonitor driven by 1-3 driver processes (late knobs, created before or after the port) with "
                "bursty workloads on a dyadic lattice; rates {0,8,64,1024,2^20} with sizes making 8*size/rate a lattice value "
                "(arrivals coincide with departures, also placed exactly at predicted departure instants); limits None / bytes / "
                "packets at and around the fill level; RED thresholds/weights from small sets with scripted uniform draws on the "
                "k/8 lattice (hits u = p); non-trivial = at least 3 packets and (a packet waited behind another, or a packet "
                "was refused, or a RED draw was made); kinds port2 / redport2 (12%): two instances with different parameters in one "
"Environment, interleaved workloads, per-instance replay and monitors plus the independence clause; 16% of the "
                "(sub-)cases are BOUNDARY configurations (RED: min=max step curve, min=max=qlimit, max=qlimit, min=0, all zero, "
                "max_probability 0 / 1 with draws 0 and 1, gain 1 and 2, an average landing exactly on qlimit; Port: limit 0 in "
                "both modes, limit 1, a limit of exactly one packet, packets of size 0, rate 0); 13% are configured late by "
                "assignment, 7% reconfigure rate/qlimit between packets, 20% run a fixed canary before and after; distinct "
                "by hash of the case"),
        "C08": "same case stream as C09; non-trivial = at least 3 packets of which one waited or was refused",
    }
    trusted_base = {
        "C09": ["random.uniform (REDPort) and the PortMonitor sampling distribution are replaced by scripted sequences; the "
                "classes' own code is untouched",
                "float rounding is outside the theorems: generated times, sizes, rates, thresholds and weights are dyadic so "
                "every float the port computes is exact (the monitor recomputes everything with exact rationals)",
                "what put() wrote into packet.perhop_time and what PortMonitor appended to sizes/sizes_byte are read from the "
                "objects after each action",
                "vlib/translate.py (Python ast, fail closed; observation/effect tables in props/part_port.py) regenerates "
                "coq/Gen/Extracted_port.v, Extracted_red.v and Extracted_portmon.v from the put() bodies and PortMonitor's sampling statements of the tree under test before every build; the C09_gen_* theorems "
                "(Props/C09_Bridge.v, C09_BridgeRed.v, C09_BridgeMon.v) bridge them to the hand-written model; print() calls are ignored",
                "vlib/translate_gen.py (same subset and tables, plus the cut of a generator body at its yields; request / effect "
                "tables PORT_RUN_* in props/part_port.py) regenerates coq/Gen/Extracted_port_run.v from Port.run before every build; "
                "the C09_gen_port_run_* theorems (Props/C09_BridgeRun.v, proofs Elem/PortRunBridge.v) prove the automaton's PInit / "
                "PGet / PTimer steps equal to the generated functions; that the kernel resumes the generator exactly at these "
                "steps (Initialize, granted StoreGet, Timeout) stays with the per-run correspondence"],
        "C08": ["packet identity = Python object identity recorded by the downstream tap"],
    }
    assumptions = {
        "C09": ["'drops with the probability given by the RED curve' is read as: refused iff the uniform draw u <= p(avg) "
                "(definition of a uniform draw; the step to a probability is not formalised)",
                "packet sizes are non-negative (needed by the occupancy and never-late theorems only)",
                "RED thresholds satisfy min_threshold <= max_threshold <= qlimit for red_no_drop_below_min (otherwise the "
                "property's clauses contradict each other); REDPort with qlimit=None is outside the statement",
                "self.out is set (a Port without downstream silently discards: not modelled)"],
        "C08": ["self.out is set"],
    }
    partial = {"C09": [], "C08": []}

    # ---- second tie: regenerate the translated bodies before the Coq build (fail closed) -----------
    def pre_build(self, prop_id):
        if prop_id != "C09":
            return
        import os
        from vlib import framework as fw
        from vlib import translate as tr
        tr.write_if_changed(os.path.join(fw.COQ, "Gen", "Extracted_port.v"), extracted_port(fw.REPO))
        tr.write_if_changed(os.path.join(fw.COQ, "Gen", "Extracted_red.v"), extracted_red(fw.REPO))
        tr.write_if_changed(os.path.join(fw.COQ, "Gen", "Extracted_portmon.v"), extracted_portmon(fw.REPO))
        tr.write_if_changed(os.path.join(fw.COQ, "Gen", "Extracted_port_run.v"), extracted_port_run(fw.REPO))

    # ---- generation -----------------------------------------------------------------------------
    SIZES = {0: (10, 64, 100, 512, 1500), 8: (1, 2, 3, 4), 64: (2, 4, 8, 12, 16, 24),
             1024: (32, 64, 128, 192, 256, 384, 512), 2 ** 20: (32768, 65536, 131072, 64, 1000, 1500)}

    def gen_case(self, rng, tier, prop_id):
        kind = rng.choices(["port", "redport", "portmon", "port2", "redport2"], weights=[44, 26, 18, 6, 6])[0]
        if kind in ("port2", "redport2"):
            kinds = ["port", "port"] if kind == "port2" else rng.choice([["redport", "redport"], ["redport", "redport"],
                                                                         ["port", "redport"], ["redport", "port"]])
            insts = []
            for i, k in enumerate(kinds):
                sub = self._gen_single(rng, k, nmax=7)
                sub.pop("pre", None)
                self._offset_uids(sub, 100 * i)
                insts.append(sub)
            if insts[0]["eid"] == insts[1]["eid"] and rng.random() < 0.7:
                insts[1]["eid"] = "sw3" if insts[0]["eid"] != "sw3" else "p1"
            unis = insts[0].pop("uniforms", []) + insts[1].pop("uniforms", [])
            rng.shuffle(unis)
            for sub in insts:
                sub.pop("reconf", None)
                sub.pop("canary", None)
            return {"kind": kind, "insts": insts, "uniforms": unis, "pre": rng.random() < 0.3, "order": rng.choice([0, 1]),
                    "canary": rng.random() < 0.2}
        return self._gen_single(rng, kind)

    @staticmethod
    def _offset_uids(sub, k):
        """renumber the packets of a sub-case so that the instances of a two-instance case have disjoint uids"""
        w = sub["workload"]
        w["packets"] = {str(int(u) + k): dict(sp) for u, sp in w["packets"].items()}     # ids stay per flow from 1
        for d in w["drivers"]:
            d["bursts"] = [[t, [u + k for u in us]] for (t, us) in d["bursts"]]

    def _gen_single(self, rng, kind, nmax=None):
        rate = rng.choice([0, 8, 64, 1024, 2 ** 20])
        sizes = self.SIZES[rate]
        nmax = nmax or (10 if kind == "redport" else 12)
        w = ec.gen_workload(rng, flows=(0, 1, 2), n_max=nmax, sizes=sizes, burst_p=0.45)
        if rate > 0 and len(w["drivers"]) > 1 and rng.random() < 0.4:
            self._align_to_departures(rng, w, rate)
        self._renumber_ids(w)
        case = {"kind": kind, "workload": w, "rate": rate, "eid": rng.choice([None, "", "p1", "p1", "sw3"]),
                "pre": rng.random() < 0.3}
        specs = w["packets"]
        szs = [specs[k]["size"] for k in sorted(specs, key=int)]
        if kind == "redport":
            lb = rng.random() < 0.5
            wf = rng.choice([0, 0, 1, 1, 2, 3, 9])
            if wf == 9:
                self._truncate(w, 4)
            if lb:
                unit = rng.choice(szs)
                mn = rng.choice([0, unit, 2 * unit, unit // 2])
                span = rng.choice([1, 2, 4, 8]) * (1 << (max(unit, 1).bit_length() - 1))
                mx = mn + span
                ql = mx + rng.choice([0, unit, 2 * unit, 4 * unit])
            else:
                mn = rng.choice([0, 0, 1, 1, 2])
                mx = mn + rng.choice([1, 2, 4])
                ql = mx + rng.choice([0, 1, 2, 4])
            case.update({"limit_bytes": lb, "qlimit": ql,
                         "red": {"min": mn, "max": mx, "maxp": cf.qjson(rng.choice([F(1, 2), F(1, 4), F(1), F(1, 8), F(0), F(3, 4)])),
                                 "w": wf},
                         "uniforms": [cf.qjson(F(rng.randint(0, 8), 8)) for _ in range(len(specs))]})
        else:
            mode = rng.choice(["none", "bytes", "bytes", "packets", "packets"])
            if mode == "none":
                case.update({"limit_bytes": rng.random() < 0.5, "qlimit": None})
            elif mode == "bytes":
                k = rng.randint(0, min(4, len(szs)))
                base = sum(szs[:k])
                case.update({"limit_bytes": True, "qlimit": max(0, base + rng.choice([0, 0, -1, 1, szs[0], -szs[0]]))})
            else:
                case.update({"limit_bytes": False, "qlimit": rng.choice([0, 1, 2, 2, 3, 3, 4, 5])})
            if kind == "portmon":
                lat = [F(0), F(1, 4), F(1, 4), F(1, 2), F(1, 2), F(1), F(1), F(3, 2), F(2), F(3)]
                case["mon"] = {"incl": rng.random() < 0.5, "dist": [cf.qjson(rng.choice(lat)) for _ in range(rng.randint(1, 14))],
                               "first": rng.random() < 0.3}
        # boundary configurations: a fixed share of the cases sits ON the edges of the parameter space
        if rng.random() < 0.16:
            self._apply_boundary(rng, case, szs)
        # late configuration: built with other values (optional arguments left to their defaults), then the public
        # attributes the code reads at every use are assigned before any traffic
        case["late_cfg"] = rng.random() < 0.15
        # a reconfiguration of rate / qlimit BETWEEN packets (the model follows the configuration as of each action)
        if rng.random() < 0.07:
            times = sorted({F(t) for d in w["drivers"] for (t, _) in d["bursts"]})
            at = rng.choice(times) if times and rng.random() < 0.6 else (rng.choice(times) + rng.choice([F(1, 4), F(1, 2), F(1)]) if times else F(1))
            if kind == "redport":
                nq = case["red"]["max"] + rng.choice([0, 1, 2]) if not case["limit_bytes"] else max(0, case["qlimit"] + rng.choice([-64, 0, 64, 128]))
            elif case["limit_bytes"]:
                nq = rng.choice([None, 0, szs[0], sum(szs[:2]), sum(szs[:3]) + 1])
            else:
                nq = rng.choice([None, 0, 1, 2, 3, 4])
            case["reconf"] = {"at": cf.qjson(at), "late": rng.choice([0, 0, 1, 2]),
                              "rate": rng.choice([r for r in (0, 8, 64, 1024, 2 ** 20) if r != rate] + [rate]), "qlimit": nq}
        # a fixed small scenario run before and after this case in the same process: nothing may leak between runs
        case["canary"] = rng.random() < 0.2
        return case

    RED_BOUNDARIES = ["min=max", "min=max", "min=max=qlimit", "max=qlimit", "min=0", "maxp=0", "maxp=1", "gain=1",
                      "avg-hits-qlimit", "all-zero", "gain=2"]
    PORT_BOUNDARIES = ["qlimit=0:packets", "qlimit=0:bytes", "qlimit=1:packets", "qlimit=one-packet:bytes", "size-0-packets",
                       "size-0-packets", "rate=0", "unlimited:bytes"]

    def _apply_boundary(self, rng, case, szs):
        """degenerate but legal parameterisations: step-function RED (min == max, the linear branch is unreachable and
        nothing may divide), thresholds meeting the limit, zero thresholds, probabilities 0 and 1 (with draws 0 and 1 in
        the script), gain 1 (and 2), an average that lands exactly on qlimit; tail drop with limit 0, limit 1, a limit of
        exactly one packet, packets of size 0, rate 0"""
        specs = case["workload"]["packets"]
        if case["kind"] == "redport":
            b = rng.choice(self.RED_BOUNDARIES)
            r, lb = case["red"], case["limit_bytes"]
            unit = max(szs) if lb else 1
            if b == "min=max":
                r["min"] = r["max"] = rng.choice([0, unit, 2 * unit])
                case["qlimit"] = r["max"] + rng.choice([0, unit, 2 * unit])
            elif b == "min=max=qlimit":
                r["min"] = r["max"] = case["qlimit"] = rng.choice([unit, 2 * unit])
            elif b == "all-zero":
                r["min"] = r["max"] = case["qlimit"] = 0
            elif b == "max=qlimit":
                case["qlimit"] = r["max"]
            elif b == "min=0":
                r["max"] = r["max"] - r["min"]
                case["qlimit"] = max(case["qlimit"] - r["min"], r["max"])
                r["min"] = 0
            elif b == "maxp=0":
                r["maxp"] = "0/1"
            elif b == "maxp=1":
                r["maxp"] = "1/1"
            elif b == "gain=1":
                r["w"] = 0
            elif b == "gain=2":
                r["w"] = -1
            elif b == "avg-hits-qlimit":           # gain 1: the average IS the queue measure found, so it lands on qlimit
                r["w"] = 0
                r["min"], r["max"], case["qlimit"] = 0, unit, 2 * unit
                r["maxp"] = rng.choice(["0/1", "1/8"])
                if lb:
                    for sp in specs.values():
                        sp["size"] = unit
            if r["w"] in (0, -1):
                case["uniforms"] = [cf.qjson(rng.choice([F(0), F(0), F(1, 8), F(1, 2), F(1), F(1)])) for _ in case["uniforms"]]
        else:
            b = rng.choice(self.PORT_BOUNDARIES)
            if b.startswith("qlimit=0"):
                case.update({"qlimit": 0, "limit_bytes": b.endswith("bytes")})
            elif b == "qlimit=1:packets":
                case.update({"qlimit": 1, "limit_bytes": False})
            elif b == "qlimit=one-packet:bytes":
                case.update({"qlimit": rng.choice(szs), "limit_bytes": True})
            elif b == "size-0-packets":
                for sp in specs.values():
                    if rng.random() < 0.4:
                        sp["size"] = 0
                left = [sp["size"] for sp in specs.values()]
                case.update({"limit_bytes": True, "qlimit": rng.choice([0, 0, max(left), sum(left[:2])])})
            elif b == "rate=0":
                case["rate"] = 0
            elif b == "unlimited:bytes":
                case.update({"qlimit": None, "limit_bytes": True})
        case["boundary"] = b

    @staticmethod
    def _renumber_ids(w):
        """packet ids per flow from 1 in arrival order, as DistPacketGenerator numbers them: equal ids of different flows
        are inside the port together (the harness uid stays the identity)"""
        order = sorted(((F(t), di, bi) for di, d in enumerate(w["drivers"]) for bi, (t, _) in enumerate(d["bursts"])))
        nxt = {}
        for (_, di, bi) in order:
            for u in w["drivers"][di]["bursts"][bi][1]:
                sp = w["packets"][str(u)]
                nxt[sp["flow"]] = nxt.get(sp["flow"], 0) + 1
                sp["id"] = nxt[sp["flow"]]

    @staticmethod
    def _truncate(w, n):
        keep = set(sorted((int(k) for k in w["packets"]))[:n])
        for d in w["drivers"]:
            d["bursts"] = [[t, [u for u in us if u in keep]] for (t, us) in d["bursts"]]
            d["bursts"] = [b for b in d["bursts"] if b[1]]
        w["drivers"] = [d for d in w["drivers"] if d["bursts"]] or [{"late": 0, "bursts": []}]
        w["packets"] = {k: v for k, v in w["packets"].items() if int(k) in keep}

    @staticmethod
    def _align_to_departures(rng, w, rate):
        """move the bursts of the other drivers onto the departure instants the first driver's packets would have alone"""
        specs = w["packets"]
        fin = F(0)
        deps = []
        for (t, uids) in w["drivers"][0]["bursts"]:
            for u in uids:
                fin = max(F(t), fin) + F(8 * specs[str(u)]["size"], rate)
                deps.append(fin)
        if not deps:
            return
        for d in w["drivers"][1:]:
            k = len(d["bursts"])
            times = sorted(set(rng.choice(deps) for _ in range(k)))
            nb = []
            for t, (_, uids) in zip(times, d["bursts"]):
                nb.append([cf.qjson(t), uids])
                for u in uids:
                    specs[str(u)]["time"] = cf.qjson(t)
            lost = [u for (_, uids) in d["bursts"][len(times):] for u in uids]
            if nb and lost:
                nb[-1][1] = nb[-1][1] + lost
                for u in lost:
                    specs[str(u)]["time"] = nb[-1][0]
            d["bursts"] = nb

    # ---- implementation -------------------------------------------------------------------------
    def run_impl(self, case):
        if not case.get("canary"):
            return self._run_impl1(case)
        before = self._canary()
        obs = self._run_impl1(case)
        obs["canary"] = [before, self._canary()]
        return obs

    def _canary(self):
        """digest of the observations of two fixed small scenarios (two REDPorts in one Environment, a monitored Port
        built with default arguments and configured late)"""
        import hashlib
        import json
        out = []
        for c in CANARY_CASES:
            o = self._run_impl1(c)
            out.append([o.get("raised"), [[e[0], e[1] if e[0] in ("adv", "put") else e[1][0],
                                           [x[:3] for x in e[2]] if e[0] in ("put", "step") else [], e[-1]] for e in o["log"]]])
        return hashlib.sha1(json.dumps(out, sort_keys=True, default=str).encode()).hexdigest()[:16]

    def _run_impl1(self, case):
        if case["kind"] in TWO:
            return self._run_impl2(case)
        from onl.sim import Environment
        import onl.netdev.port as pmod
        import onl.netdev.red_port as rmod
        import onl.netdev.port_monitor as mmod
        env = Environment()
        h = PHarness(env)
        w = case["workload"]
        h.add_packets(w["packets"])
        unis = Script(case.get("uniforms", []))
        rate = _num(case["rate"])

        class FakeRandom:
            uniform = staticmethod(unis.uniform)
        saved = rmod.random
        rmod.random = FakeRandom
        mon = None
        dist = None
        try:
            if case.get("pre"):
                for d in w["drivers"]:
                    h.add_driver(d["bursts"], late=d["late"])
            try:
                port = self._make_port(env, case, pmod, rmod)
            except Exception as e:
                return {"log": [], "raised": [type(e).__name__, str(e)[:300]], "exhausted": False, "where": "constructor"}
            tap = h.tap("out")
            tap.put = self._reading_tap(h, port, tap.put)
            port.out = tap
            h.attach(port)
            h.watch_store("store", port.store)
            m = case.get("mon")
            if m and m.get("first"):
                dist = Script(m["dist"], after=FAR)
                mon = self._make_monitor(env, port, dist, case, mmod)
            if not case.get("pre"):
                for d in w["drivers"]:
                    h.add_driver(d["bursts"], late=d["late"])
            if m and not m.get("first"):
                dist = Script(m["dist"], after=FAR)
                mon = self._make_monitor(env, port, dist, case, mmod)
            rc = case.get("reconf")
            if rc:
                def reconfigure():
                    d = ec.T(rc["at"]) - env.now
                    if d > 0:
                        yield env.timeout(d)
                    for _ in range(rc["late"]):
                        yield env.timeout(0)
                    port.rate = _num(rc["rate"])
                    port.qlimit = rc["qlimit"]
                    h._action(["cfg", 1])
                h.driver_procs.add(env.process(reconfigure()))

            def sample():
                return [port.packets_received, port.packets_dropped, port.byte_size, len(port.store.items), int(port.busy),
                        ec.qs(getattr(port, "average_queue_size", 0)), unis.n,
                        [getattr(p, "uid", -1) for p in port.store.items], port.busy_packet_size,
                        [] if mon is None else [len(mon.sizes)] + [[a, b] for a, b in zip(mon.sizes[-1:], mon.sizes_byte[-1:])]]
            h.after_action(sample)
            log = h.run(until=2 ** 30)
        finally:
            rmod.random = saved
        exhausted = all(e[0] > 2 ** 30 for e in env._queue)
        return {"log": log, "raised": h.raised, "exhausted": exhausted}

    # ---- two instances in one Environment -------------------------------------------------------------
    @staticmethod
    def _make_port(env, sub, pmod, rmod):
        rate = _num(sub["rate"])
        late = sub.get("late_cfg")
        if sub["kind"] == "redport":
            r = sub["red"]
            if not late:
                return rmod.REDPort(env, rate, max_threshold=r["max"], min_threshold=r["min"], max_probability=_num(r["maxp"]),
                                    element_id=sub["eid"], qlimit=sub["qlimit"], weight_factor=r["w"], limit_bytes=sub["limit_bytes"])
            # other values and the defaults of the optional arguments first, the case's values by assignment
            port = rmod.REDPort(env, 8 if rate != 8 else 64, r["max"] + 5, r["min"] + 3, 0.75 if _num(r["maxp"]) != 0.75 else 0.25,
                                "zz", sub["qlimit"] + 7)
            port.max_threshold, port.min_threshold, port.max_probability = r["max"], r["min"], _num(r["maxp"])
            port.weight_factor = r["w"]
        else:
            if not late:
                return pmod.Port(env, rate, sub["qlimit"], sub["limit_bytes"], sub["eid"])
            port = pmod.Port(env, 8 if rate != 8 else 64, 1 if sub["qlimit"] != 1 else None, not sub["limit_bytes"], "zz")
        port.rate, port.qlimit, port.limit_bytes, port.element_id = rate, sub["qlimit"], sub["limit_bytes"], sub["eid"]
        return port

    @staticmethod
    def _make_monitor(env, port, dist, case, mmod):
        m = case["mon"]
        if case.get("late_cfg"):
            mon = mmod.PortMonitor(env, port, lambda: 1)            # default pkt_in_service_included, another distribution
            mon.dist, mon.pkt_in_service_included = dist, m["incl"]
        else:
            mon = mmod.PortMonitor(env, port, dist, pkt_in_service_included=m["incl"])
        g = mon.run()
        g.__name__ = "mon"
        env.process(g)
        return mon

    @staticmethod
    def _reading_tap(h, port, tap_put):
        """what the port advertises at the very moment it hands the packet on (a downstream element that reacts inside its
        own put() -- an echo, a loop back into this port, a monitor hook -- sees exactly this)"""
        def put(p):
            at = [port.byte_size, int(port.busy), port.busy_packet_size, port.packets_received, port.packets_dropped,
                  len(port.store.items)]
            tap_put(p)
            if h.cur_outs:
                h.cur_outs[-1].append(["at-forward"] + at)
        return put

    def _run_impl2(self, case):
        """both instances live in ONE Environment; the global log carries, after every action, the public state of BOTH"""
        from onl.sim import Environment
        import onl.netdev.port as pmod
        import onl.netdev.red_port as rmod
        env = Environment()
        h = PHarness(env)
        insts = case["insts"]
        for sub in insts:
            h.add_packets(sub["workload"]["packets"])
        unis = Script(case.get("uniforms", []))

        class FakeRandom:
            uniform = staticmethod(unis.uniform)
        saved = rmod.random
        rmod.random = FakeRandom
        ports = [None, None]
        try:
            def drivers(i):
                for d in insts[i]["workload"]["drivers"]:
                    h.add_driver(d["bursts"], late=d["late"], target=Target(i))

            class Target:                      # drivers may be created before the instances exist
                def __init__(self, i):
                    self.i = i

                def put(self, p):
                    return ports[self.i].put(p)
            order = [case.get("order", 0), 1 - case.get("order", 0)]
            if case.get("pre"):
                for i in order:
                    drivers(i)
            try:
                for i in (0, 1):
                    ports[i] = self._make_port(env, insts[i], pmod, rmod)
            except Exception as e:
                return {"log": [], "raised": [type(e).__name__, str(e)[:300]], "exhausted": False, "where": "constructor"}
            for i in (0, 1):
                port = ports[i]
                port.action._generator.__name__ = "run%d" % i          # disambiguate the two server processes
                tap = h.tap("out%d" % i)
                tap.put = self._reading_tap(h, port, tap.put)
                port.out = tap
                h.watch_store("store%d" % i, port.store)
            h.attach(ports[0])
            if not case.get("pre"):
                for i in order:
                    drivers(i)

            def sample():
                return [[port.packets_received, port.packets_dropped, port.byte_size, len(port.store.items), int(port.busy),
                         ec.qs(getattr(port, "average_queue_size", 0)), unis.n,
                         [getattr(p, "uid", -1) for p in port.store.items], port.busy_packet_size, []] for port in ports]
            h.after_action(sample)
            log = h.run(until=2 ** 30)
        finally:
            rmod.random = saved
        return {"log": log, "raised": h.raised, "exhausted": not env._queue,
                "same_store": ports[0].store is ports[1].store}

    def _split(self, case, obs):
        """project the global log onto the instances: -> ([(sub_case, sub_obs), (sub_case, sub_obs)], interference messages).
        Each sub_obs has exactly the format of a single-instance observation, so the single-instance replay and monitors
        apply unchanged.  Clock advances belong to both; a put belongs to the instance whose packet it is; a kernel step to
        the instance whose store / server process it names."""
        insts = case["insts"]
        owner = {}
        for i, sub in enumerate(insts):
            for u in sub["workload"]["packets"]:
                owner[int(u)] = i
        logs = [[], []]
        draws = [[], []]
        inter = []
        if obs.get("same_store"):
            inter.append("instances-interfere: the two ports share ONE store object")
        prev = None
        gn = 0

        def pub(smp):
            return smp[:6] + [smp[7], smp[8]]

        def mine(i, smp):
            return smp[:6] + [len(draws[i])] + smp[7:]
        for e in obs["log"]:
            if e[0] not in ("adv", "put", "step"):
                inter.append(f"instances-interfere: unexpected log entry {e[:2]}")
                break
            both = e[-1]
            who = None
            if e[0] == "put":
                who = owner.get(e[1])
            elif e[0] == "step":
                tgt = e[1][1]
                if tgt and tgt[-1:] in "01" and tgt[:-1] in ("run", "store"):
                    who = int(tgt[-1])
                else:
                    inter.append(f"instances-interfere: kernel step {e[1]} does not belong to one instance")
                    break
            n_after = both[0][6]
            if n_after > gn:
                if who is None or e[0] != "put" or n_after > gn + 1:
                    inter.append(f"instances-interfere: {n_after - gn} uniform draw(s) consumed by {e[:2]}")
                    break
                draws[who].append(case["uniforms"][gn])
            gn = n_after
            # independence: an action of one instance (or a clock advance) leaves the other's public state alone
            if prev is not None:
                for j in (0, 1):
                    if j != who and pub(prev[j]) != pub(both[j]):
                        names = ["packets_received", "packets_dropped", "byte_size", "len(store.items)", "busy",
                                 "average_queue_size", "store.items", "busy_packet_size"]
                        ch = [f"{n}: {a} -> {b}" for n, a, b in zip(names, pub(prev[j]), pub(both[j])) if a != b]
                        inter.append(f"instances-interfere: {e[0]} {e[1]} of instance {who} changed instance {j}'s {'; '.join(ch)}")
            prev = both
            if e[0] == "adv":
                for i in (0, 1):
                    logs[i].append(["adv", e[1], mine(i, both[i])])
                continue
            outs = []
            for o in e[2]:
                if o[0] == "out" and (o[1] != "out%d" % who or owner.get(o[2]) != who):
                    inter.append(f"instances-interfere: during {e[0]} {e[1]} of instance {who} packet {o[2]} (of instance "
                                 f"{owner.get(o[2])}) came out of tap {o[1]}")
                else:
                    outs.append(o)
            if e[0] == "put":
                logs[who].append(["put", e[1], outs, mine(who, both[who])])
            else:
                logs[who].append(["step", [e[1][0], e[1][1][:-1]], outs, mine(who, both[who])])
        parts = []
        for i, sub in enumerate(insts):
            sc = {**sub, "uniforms": draws[i]}
            parts.append((sc, {"log": logs[i], "raised": None, "exhausted": obs["exhausted"]}))
        return parts, inter[:3]

    def _monitor2(self, case, obs, prop_id):
        parts, inter = self._split(case, obs)
        if inter:
            return inter          # the per-instance clauses are meaningless once the instances are entangled
        msgs = []
        for i, (sc, so) in enumerate(parts):
            for m in (self._monitor_c09 if prop_id == "C09" else self._monitor_c08)(sc, so):
                sig, _, rest = m.partition(":")
                msgs.append(f"{sig}: [instance {i}: {sc['kind']}]{rest}")
        return msgs[:4]

    # ---- log -> model actions -------------------------------------------------------------------
    def _cfg_term(self, case):
        eid = cf.opt(EID_KEYS[case["eid"]], cf.z)
        rate = cf.q(case["rate"])
        if case["kind"] == "redport":
            r = case["red"]
            rc = (f"{{| r_min := {cf.q(r['min'])}; r_max := {cf.q(r['max'])}; r_maxp := {cf.q(r['maxp'])}; "
                  f"r_qlimit := {cf.q(case['qlimit'])}; r_w := {cf.z(r['w'])}; r_lb := {cf.b(case['limit_bytes'])} |}}")
            return f"(red_cfg all_fixed {rate} {rc} {eid})"
        return f"(port_cfg all_fixed {rate} {cf.opt(case['qlimit'], cf.z)} {cf.b(case['limit_bytes'])} {eid})"

    def _outs(self, case, outs):
        specs = case["workload"]["packets"]
        res = []
        for x in outs:
            if x[0] == "out":
                res.append(f"OForward {ec.pkt_coq(specs[str(x[2])], x[2])}")
            elif x[0] == "stamp":
                if x[1] not in EID_KEYS:
                    return None
                res.append(f"OStamp {cf.opt(EID_KEYS[x[1]], cf.z)} {cf.q(x[2])}")
            else:
                return None
        return res

    def _actions(self, case, obs):
        specs = case["workload"]["packets"]
        acts = []
        nu = 0
        nsamp = 0
        for e in obs["log"]:
            kind = e[0]
            sample = e[-1]
            extra = []
            if kind == "adv":
                a = f"PAdvance {cf.q(e[1])}"
                outs = []
            elif kind == "cfg":
                acts.append("CFG")              # the configuration changes here: the replay continues under the new one
                continue
            elif kind == "put":
                u = case["uniforms"][nu] if sample[6] > nu else None
                if sample[6] > nu + 1:
                    return None, "more than one uniform draw in one put"
                a = f"PPut {ec.pkt_coq(specs[str(e[1])], e[1])} {cf.opt(u, cf.q)}"
                outs = e[2]
            elif kind == "step":
                (tn, tgt), outs = e[1], e[2]
                if (tn, tgt) == ("Initialize", "run"):
                    a = "PInit"
                elif (tn, tgt) == ("StorePut", "store"):
                    a = "PStoreCb"
                elif (tn, tgt) == ("StoreGet", "store"):
                    a = "PGet"
                elif (tn, tgt) == ("Timeout", "run"):
                    a = "PTimer"
                elif (tn, tgt) == ("Initialize", "mon"):
                    nu = sample[6]
                    continue
                elif (tn, tgt) == ("Timeout", "mon"):
                    a = f"PSample {cf.b(case['mon']['incl'])}"
                    ms = sample[9]
                    if ms[0] != nsamp + 1:
                        return None, "a monitor step that did not take exactly one sample"
                    extra = [f"OSample {cf.z(ms[1][0])} {cf.z(ms[1][1])}"]
                else:
                    return None, f"unexpected kernel step {e[1]}"
            else:
                return None, f"unexpected log entry {e[:2]}"
            if sample[9]:
                nsamp = sample[9][0]
            nu = sample[6]
            o = self._outs(case, outs)
            if o is None:
                return None, f"unexpected output {outs}"
            ob = (f"({cf.z(sample[0])}, {cf.z(sample[1])}, {cf.z(sample[2])}, {cf.nat(sample[3])}, {cf.b(sample[4])}, "
                  f"{cf.q(sample[5])})")
            acts.append(f"({a}, {cf.lst(o + extra)}, {ob})")
        return acts, None

    def agree_term(self, case, obs):
        if obs["raised"]:
            return "false"
        if case["kind"] in TWO:
            parts, inter = self._split(case, obs)
            if inter:
                return f"false (* {inter[0][:120].replace('*', ' ')} *)"
            terms = []
            for sc, so in parts:
                acts, err = self._actions(sc, so)
                if acts is None:
                    return f"false (* {err} *)"
                terms.append(f"port_agree {self._cfg_term(sc)} (port0 0) {cf.lst(acts, sep=';\n    ')}")
            return "(" + ")\n  && (".join(terms) + ")"
        acts, err = self._actions(case, obs)
        if acts is None:
            return f"false (* {err} *)"
        return self._replay_term("port_agree", case, acts, "")

    def _replay_term(self, fn, case, acts, tail):
        """fn cfg (port0 0) observed;  after a reconfiguration the model is re-instantiated with the new parameters in the
        state it reached: the prefix is replayed (and must be admissible) under the old configuration, the rest under
        the new one"""
        if "CFG" not in acts:
            return f"{fn} {self._cfg_term(case)} (port0 0) {cf.lst(acts, sep=';\n    ')}{tail}"
        k = acts.index("CFG")
        rest = [a for a in acts[k + 1:] if a != "CFG"]
        rc = case["reconf"]
        c2 = self._cfg_term({**case, "rate": rc["rate"], "qlimit": rc["qlimit"]})
        none = "false" if fn == "port_agree" else "None"
        first = f"port_agree {self._cfg_term(case)} (port0 0) o1"
        second = (f"match port_run {self._cfg_term(case)} (port0 0) (map (fun x => fst (fst x)) o1) with\n"
                  f"   | Some (s1, _) => {fn} {c2} s1 {cf.lst(rest, sep=';\n    ')}{tail}\n   | None => {none} end")
        body = f"({first}) && ({second})" if fn == "port_agree" else f"(if {first} then {second} else {fn} {self._cfg_term(case)} (port0 0) o1{tail})"
        return f"(let o1 : list (paction * list pout * pobs) := {cf.lst(acts[:k], sep=';\n    ')} in\n  {body})"

    def model_term(self, case):
        """diagnosis: index of the first observed action the model does not reproduce, with what the model did instead"""
        try:
            obs = self.run_impl(case)
        except Exception:
            return None
        if not obs or obs.get("raised"):
            return None
        if case["kind"] in TWO:
            parts, inter = self._split(case, obs)
            terms = []
            for sc, so in parts:
                acts, err = self._actions(sc, so)
                if acts is None:
                    return None
                terms.append(f"port_first_diff {self._cfg_term(sc)} (port0 0) {cf.lst(acts, sep=';\n    ')} 0%nat")
            return "(" + ",\n  ".join(terms) + ")"
        acts, err = self._actions(case, obs)
        if acts is None:
            return None
        return self._replay_term("port_first_diff", case, acts, " 0%nat")

    # ---- the property as an oracle over the implementation's behaviour -------------------------------
    def _walk(self, case, obs):
        """replay the log keeping the monitor's OWN books (independent of the port's fields):
        yields per action a dict with the books before/after"""
        specs = case["workload"]["packets"]
        size = {int(k): v["size"] for k, v in specs.items()}
        now = F(0)
        held = []            # accepted and not yet forwarded, in arrival order (uids)
        in_service = None    # uid whose transmission has started (rate > 0)
        items_prev = []      # uids in store.items after the previous action (observed identity of waiting packets)
        rate = F(case["rate"])
        cur = {"rate": rate, "qlimit": case["qlimit"], "changed": False}
        tx_rate = {}         # uid -> rate in force when the server took the packet
        for e in obs["log"]:
            if e[0] == "cfg":
                rate = F(case["reconf"]["rate"])
                cur = {"rate": rate, "qlimit": case["reconf"]["qlimit"], "changed": True}
            rec = {"e": e, "now": now, "held_before": list(held), "items_before": list(items_prev),
                   "in_service_before": in_service, "cfg": cur, "tx_rate": tx_rate}
            if e[0] == "adv":
                now = F(e[1])
                rec["now"] = now
            outs = e[2] if e[0] in ("put", "step", "raise") else []
            sample = e[-1] if e[0] in ("adv", "put", "step", "cfg") else None
            fw = [o for o in outs if o[0] == "out"]
            if e[0] == "step" and e[1] == ["StoreGet", "store"] and held:
                tx_rate[held[0]] = rate
                if rate > 0:
                    in_service = held[0]
            for o in fw:
                if o[2] in held:
                    held.remove(o[2])
                if in_service == o[2]:
                    in_service = None
            accepted = None
            if e[0] == "put" and sample is not None:
                accepted = e[1] in sample[7]          # physically appended to the store
                if accepted:
                    held.append(e[1])
            if sample is not None:
                items_prev = list(sample[7])
            rec.update({"forwards": fw, "accepted": accepted, "held": list(held), "in_service": in_service,
                        "sample": sample, "size": size})
            yield rec

    def monitor(self, case, obs, prop_id):
        if obs["raised"]:
            return [f"port-raises: {case['kind']} raised {obs['raised']} ({obs.get('where', 'during the run')})"]
        pre = self._canary_msgs(obs)
        if case["kind"] in TWO:
            return pre + self._monitor2(case, obs, prop_id)
        return pre + (self._monitor_c09 if prop_id == "C09" else self._monitor_c08)(case, obs)[:5]

    def _red_expect(self, case, avg, u, ql):
        """-> (must_draw, refused) by the property's three regions"""
        r = case["red"]
        mn, mx, mp, ql = F(r["min"]), F(r["max"]), F(r["maxp"]), F(ql)
        if avg >= ql:
            return False, True
        if avg < mn:
            return False, False
        p = mp if avg >= mx else mp * (avg - mn) / (mx - mn)
        return True, (u is not None and u <= p)

    def _at_forward(self, case, obs):
        """what a next hop sees of the port inside its own put(): the packet handed on has left the byte occupancy, the
        port is still busy with exactly this packet (the service flags are cleared when the hand-off returns), the arrival
        counters and the waiting queue are those of the moment before (the server has not asked for the next packet yet)"""
        msgs = []
        specs = case["workload"]["packets"]
        prev = [0, 0, 0, 0]
        for e in obs["log"]:
            outs = e[2] if e[0] in ("put", "step") else []
            for o in outs:
                if o[0] == "out" and isinstance(o[-1], list) and o[-1] and o[-1][0] == "at-forward":
                    sz = specs[str(o[2])]["size"]
                    at = o[-1][1:]
                    head = f"while packet {o[2]} (size {sz}) is handed on"
                    if at[0] != prev[2] - sz:
                        msgs.append(f"port-bytes-at-forward: {head}, byte_size reads {at[0]}; {prev[2]} bytes were held before "
                                    f"and the packet has left: expected {prev[2] - sz}")
                        prev[2] = at[0] + sz
                    if len(at) >= 6:
                        if at[1] != 1:
                            msgs.append(f"port-busy-at-forward: {head}, busy reads {at[1]}; the port is busy until the hand-off returns")
                        if at[2] != sz:
                            msgs.append(f"port-busy-size-at-forward: {head}, busy_packet_size reads {at[2]}")
                        if at[3] != prev[0] or at[4] != prev[1]:
                            msgs.append(f"port-counters-at-forward: {head}, packets_received/dropped read {at[3]}/{at[4]}, "
                                        f"before the step {prev[0]}/{prev[1]}")
                        if at[5] != prev[3]:
                            msgs.append(f"port-queue-at-forward: {head}, len(store.items) reads {at[5]}, {prev[3]} packets were waiting")
            if e[0] in ("adv", "put", "step", "cfg"):
                prev = [e[-1][0], e[-1][1], e[-1][2], e[-1][3]]
        seen, out = set(), []
        for m in msgs:
            if m.split(":")[0] not in seen:
                seen.add(m.split(":")[0])
                out.append(m)
        return out

    def _canary_msgs(self, obs):
        c = obs.get("canary")
        if not c:
            return []
        if c[0] != c[1]:
            return [f"runs-interfere: the fixed canary scenario behaves differently after this case than before it in the same "
                    f"process (digest {c[0]} -> {c[1]}): state survives the end of a run"]
        if c[1] != CANARY_DIGEST:
            return [f"canary-observation: the fixed canary scenario gives digest {c[1]}, recorded {CANARY_DIGEST} "
                    f"(state left by an earlier run of this process, or a changed behaviour)"]
        return []

    def _monitor_c09(self, case, obs):
        msgs = self._at_forward(case, obs)
        specs = case["workload"]["packets"]
        rate = F(case["rate"])
        ql, lb = case["qlimit"], case["limit_bytes"]
        red = case["kind"] == "redport"
        eid = case["eid"]
        arrivals = []        # (uid, t) of accepted packets
        departed = []        # (uid, t)
        nput = ndrop = 0
        avg = F(0)
        nu = 0
        nsamp = 0
        tx_rate = {}
        for r in self._walk(case, obs):
            e, now, s, size = r["e"], r["now"], r["sample"], r["size"]
            ql, rate, tx_rate = r["cfg"]["qlimit"], r["cfg"]["rate"], r["tx_rate"]      # the configuration as of this action
            hb = sum(size[u] for u in r["held_before"])
            for o in r["forwards"]:
                departed.append((o[2], now))
            if e[0] == "put":
                uid = e[1]
                nput += 1
                acc = r["accepted"]
                waiting = len(r["items_before"])
                # --- the drop rule
                if red:
                    cur = hb if lb else waiting
                    alpha = F(1, 2 ** case["red"]["w"]) if case["red"]["w"] >= 0 else F(2 ** -case["red"]["w"])
                    avg = avg * (1 - alpha) + cur * alpha
                    if F(s[5]) != avg:
                        msgs.append(f"red-avg: after put of packet {uid} average_queue_size={s[5]}, EWMA recurrence gives {avg} "
                                    f"(queue measure {cur}, gain 2^-{case['red']['w']})")
                        avg = F(s[5])
                    drew = s[6] > nu
                    u = F(case["uniforms"][nu]) if drew else None
                    must_draw, refuse = self._red_expect(case, avg, u, ql)
                    if must_draw and not drew:
                        refuse = None
                        msgs.append(f"red-curve: no uniform draw for packet {uid} although min <= avg={avg} < qlimit")
                    if not must_draw and drew:
                        msgs.append(f"red-curve: a uniform draw was consumed for packet {uid} outside min <= avg < qlimit (avg={avg})")
                    if refuse is not None and acc == refuse:
                        region = "below-min" if avg < F(case["red"]["min"]) else ("at-limit" if avg >= F(ql) else "curve")
                        msgs.append(f"red-{region}: packet {uid} {'accepted' if acc else 'refused'} with avg={avg} u={u} "
                                    f"(min={case['red']['min']} max={case['red']['max']} max_p={case['red']['maxp']} qlimit={ql})")
                else:
                    if ql is None:
                        refuse = False
                    elif lb:
                        refuse = hb + size[uid] > ql
                    else:
                        refuse = waiting >= ql - 1
                    if acc == refuse:
                        msgs.append(f"port-drop-rule: packet {uid} (size {size[uid]}) {'accepted' if acc else 'refused'} with "
                                    f"{hb} bytes held, {waiting} packets waiting, qlimit={ql} {'bytes' if lb else 'packets'}")
                if acc:
                    arrivals.append((uid, now))
                else:
                    ndrop += 1
                # --- stamp
                st = [o for o in e[2] if o[0] == "stamp"]
                want = [] if eid is None else [["stamp", eid, cf.qjson(now)]]
                if [[a, b, cf.qjson(F(c))] for a, b, c in st] != want:
                    msgs.append(f"{'red' if red else 'port'}-perhop-stamp: put of packet {uid} at {now} under element id {eid!r} wrote "
                                f"perhop_time {st}")
            if s is not None:
                nu = s[6]
                held_bytes = sum(size[u] for u in r["held"])
                # --- counters, byte occupancy
                if s[0] != nput or s[1] != ndrop:
                    msgs.append(f"port-counters: received={s[0]} dropped={s[1]} after {nput} puts of which {ndrop} were refused")
                if s[2] != held_bytes:
                    msgs.append(f"port-bytes-exact: byte_size={s[2]} but {held_bytes} bytes are held (uids {r['held']}) at {now} "
                                f"after {e[:2]}")
                # --- what is held vs the store
                extra = [u for u in r["held"] if u not in s[7]]
                if [u for u in r["held"] if u in s[7]] != s[7] or len(extra) > 1 or (extra and extra[0] != r["held"][0]):
                    msgs.append(f"port-held-order: store holds {s[7]} while accepted-not-forwarded is {r['held']}")
                # --- occupancy never exceeds the limit (tail drop)
                if not red and ql is not None and not r["cfg"]["changed"]:
                    if lb and held_bytes > ql:
                        msgs.append(f"port-occupancy: {held_bytes} bytes held exceed the limit {ql}")
                    if not lb and len(r["held"]) > max(ql, 0):
                        msgs.append(f"port-occupancy: {len(r['held'])} packets held exceed the limit {ql}")
                # --- monitor samples
                if s[9] and s[9][0] != nsamp:
                    nsamp = s[9][0]
                    n_obs, b_obs = s[9][1]
                    isv = r["in_service"]
                    incl = case["mon"]["incl"]
                    b_exp = held_bytes if incl else held_bytes - (size[isv] if isv is not None else 0)
                    n_exp = len(s[7]) + (1 if (incl and isv is not None) else 0)
                    if b_obs != b_exp or n_obs != n_exp:
                        msgs.append(f"monitor-sample: sample (packets {n_obs}, bytes {b_obs}) with pkt_in_service_included={incl}; "
                                    f"held {held_bytes} bytes, in service {isv} (size {size.get(isv, 0)}), {len(s[7])} waiting: "
                                    f"expected ({n_exp}, {b_exp})")
        # --- the departure recurrence over the accepted packets
        exp = []
        prev = None
        for uid, a in arrivals:
            start = a if prev is None else max(a, prev)
            rk = tx_rate.get(uid, rate)                 # the rate in force when the server took this packet
            d = start + (F(8 * specs[str(uid)]["size"]) / rk if rk > 0 else 0)
            exp.append((uid, d))
            prev = d
        if obs["exhausted"]:
            ok = departed == exp
        else:
            ok = departed == exp[:len(departed)]
        if not ok:
            msgs.append(f"port-departure: forwarded (uid,time) {[(u, str(t)) for u, t in departed][:8]} expected "
                        f"{[(u, str(t)) for u, t in exp][:8]} (max(arrival, previous departure) + 8*size/rate, FIFO; rate={case['rate']}"
                        f"{' then ' + str(case['reconf']['rate']) if case.get('reconf') else ''})")
        return msgs

    def _monitor_c08(self, case, obs):
        msgs = []
        specs = case["workload"]["packets"]
        put, forwarded, accepted, dropped = [], [], [], []
        last = None
        for r in self._walk(case, obs):
            e = r["e"]
            last = r
            if e[0] == "put":
                put.append(e[1])
                (accepted if r["accepted"] else dropped).append(e[1])
            for o in r["forwards"]:
                uid = o[2]
                sp = specs.get(str(uid))
                if sp is None or not o[4] or o[3][:2] != [sp["id"], sp["flow"]] or o[3][2] != sp.get("src", "s") \
                        or o[3][3] != sp["size"] or F(o[3][4]) != F(sp["time"]) or o[3][5] != sp.get("payload"):
                    msgs.append(f"port-packet-altered: packet {uid} forwarded as {o[3]} same-object={o[4]}")
                if uid in forwarded:
                    msgs.append(f"port-duplicates: packet {uid} forwarded twice")
                elif uid not in accepted:
                    msgs.append(f"port-invents: packet {uid} forwarded but it was " + ("refused" if uid in dropped else "never put"))
                forwarded.append(uid)
        if last is not None and last["sample"] is not None:
            s = last["sample"]
            if s[1] != len(dropped):
                msgs.append(f"port-drop-count: packets_dropped={s[1]} but {len(dropped)} packets were refused")
            held_now = [u for u in accepted if u not in forwarded]
            if sorted(forwarded + dropped + held_now) != sorted(put):
                msgs.append(f"port-conservation: put {put} != forwarded {forwarded} + refused {dropped} + held {held_now}")
            if obs["exhausted"] and (held_now or s[3] != 0 or s[4] != 0):
                msgs.append(f"port-not-drained: simulation ran out of events with {held_now} still held (store {s[3]}, busy {s[4]})")
        for fl in {v["flow"] for v in specs.values()}:
            fin = [u for u in accepted if specs[str(u)]["flow"] == fl]
            fout = [u for u in forwarded if specs[str(u)]["flow"] == fl]
            if fout != fin[:len(fout)]:
                msgs.append(f"port-flow-order: flow {fl} entered as {fin} left as {fout}")
        return msgs

    def nontrivial(self, case, obs, prop_id):
        if case["kind"] in TWO:
            if obs.get("raised"):
                return False
            parts, inter = self._split(case, obs)
            return (not inter and all(sc["workload"]["packets"] for sc, _ in parts)
                    and any(self.nontrivial(sc, so, prop_id) for sc, so in parts))
        if obs.get("raised") or len(case["workload"]["packets"]) < 3:
            return False
        waited = refused = drew = False
        for r in self._walk(case, obs):
            e = r["e"]
            if e[0] == "put":
                if r["accepted"] is False:
                    refused = True
                if r["accepted"] and (r["held_before"]):
                    waited = True
                if r["sample"] and r["sample"][6] > 0:
                    drew = True
        return waited or refused or (prop_id == "C09" and drew)

    def shrink(self, case):
        if case["kind"] in TWO:
            for i in (0, 1):
                for sub in self.shrink(case["insts"][i]):
                    ins = list(case["insts"])
                    ins[i] = sub
                    yield {**case, "insts": ins}
            if case.get("pre"):
                yield {**case, "pre": False}
            return
        for w in ec.shrink_workload(case["workload"]):
            yield {**case, "workload": w}
        if case.get("mon"):
            d = case["mon"]["dist"]
            for i in range(len(d)):
                yield {**case, "mon": {**case["mon"], "dist": d[:i] + d[i + 1:]}}
            yield {**case, "kind": "port", "mon": None}
        if case.get("pre"):
            yield {**case, "pre": False}
        for k in ("canary", "late_cfg", "reconf"):
            if case.get(k):
                yield {**case, k: None}
        if case.get("eid") not in (None, "p1"):
            yield {**case, "eid": "p1"}

    def describe(self, case, obs):
        k = case["kind"]
        if k in TWO:
            keys = [k, f"{k}:" + "+".join(sub["kind"] for sub in case["insts"]),
                    f"{k}:rates={'same' if case['insts'][0]['rate'] == case['insts'][1]['rate'] else 'different'}",
                    f"{k}:packets={min(sum(len(sub['workload']['packets']) for sub in case['insts']), 16)}"]
            if case.get("pre"):
                keys.append(f"{k}:driver-created-before-element")
            if any(sub.get("late_cfg") for sub in case["insts"]):
                keys.append(f"{k}:late-configuration")
            if case.get("canary"):
                keys.append(f"{k}:canary-before-and-after")
            return keys
        keys = [k, f"{k}:rate={case['rate']}", f"{k}:packets={min(len(case['workload']['packets']), 12)}",
                f"{k}:drivers={len(case['workload']['drivers'])}", f"{k}:eid={case['eid']!r}"]
        if k == "redport":
            keys.append(f"{k}:{'bytes' if case['limit_bytes'] else 'packets'}:w={case['red']['w']}")
        else:
            keys.append(f"{k}:limit=" + ("none" if case["qlimit"] is None else ("bytes" if case["limit_bytes"] else "packets")))
        if case.get("pre"):
            keys.append(f"{k}:driver-created-before-element")
        for fl in ("late_cfg", "reconf", "canary"):
            if case.get(fl):
                keys.append(f"{k}:{fl}")
        if case.get("boundary"):
            keys.append(f"{k}:boundary:{case['boundary']}")
        ids = {}
        for sp in case["workload"]["packets"].values():
            ids.setdefault(sp["id"], set()).add(sp["flow"])
        if any(len(v) > 1 for v in ids.values()):
            keys.append(f"{k}:equal-packet-ids-in-different-flows")
        if not obs.get("raised"):
            nd = max([e[-1][1] for e in obs["log"] if e[0] in ("adv", "put", "step", "cfg")] or [0])
            keys.append(f"{k}:refused={'0' if nd == 0 else '1+'}")
        return keys


PART = PortPart()
