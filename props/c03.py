"""C03 -- runs are reproducible and unaffected by where they are stopped and resumed.
Model: coq/Kernel/Model.v (run / run_prelude / run_loop / step); theorems: coq/Kernel/Stop*.v, statements in coq/Props/C03.v.

A case is a BUNDLE: one script family (t0, codes, module-level setup) with several run plans over the same codes --
plans[0] is the uninterrupted plan (run() repeated until the agenda is empty: a run() that ends with an escaped failure is
simply resumed), plans[1..] are split plans: random sequences of run(until=number), run(until=event), step() and run() stop
points followed by the same draining tail.  Stop points are placed AT due instants with probability 1/2 (the instants are
read from a probe run of the uninterrupted plan).

  run_impl   runs every plan of the bundle on the real onl.sim kernel (props/kernel_common.Harness plus an item log);
  agree_term the conjunction of kernel_common's whole-trace correspondence `agree` for every plan of the bundle;
  monitor    the property as an oracle on the real code, independent of the Coq model:
               * the user-visible trace (process log records with pid, clock and values, probe records, the order of processed
                 events) of every split run equals that of the uninterrupted run once the until-sentinels are erased and event
                 indices renumbered (sentinels take creation indices);
               * run(until=t): t <= now -> ValueError and nothing processed; otherwise returns None with now == t, the last
                 processed entry is the sentinel, every other entry processed by this call was due strictly before t, nothing
                 due before t is left;
               * run(until=ev): an already processed event -> its value at once, nothing processed; otherwise returns the
                 event's value in the step that processes it (the last step of the call); a failed event -> its exception;
                 agenda exhausted first -> RuntimeError and the event is still untriggered;
  extra_checks  reproducibility of the implementation (checked, not proved):
                (a) kernel programs: a sample of bundles is re-run in fresh interpreter processes under 2 (quick) / 16 (thorough)
                    PYTHONHASHSEED values; all canonical observations must be identical to the in-process one;
                (b) network scenarios (the case streams of the element parts wire, port, bucket, mq, drr, wfq): every sampled
                    scenario is executed in fresh interpreters (several PYTHONHASHSEED values) and, in THIS interpreter, again
                    and again after executions of the same part that were stopped midway (the element harness is made to stop
                    after k steps, k inside the run -- a run(until=t) / step budget); every in-process observation must equal the
                    fresh-interpreter one: nothing may survive from one Environment to the next (class-level mutable state,
                    module globals, caches).  Signature network-not-reproducible; the replay is a case of kind "netrepro"
                    (part, scenario, the polluting scenarios, their step budgets)."""
import hashlib
import json
import os
import subprocess
from fractions import Fraction

from vlib.framework import Prop, REPO, VERIF
from props import kernel_common as kc

DRAIN = 5                 # run() items appended to every plan (each escaped failure ends one of them)
PY = "/venv/bin/python"


# ----------------------------------------------------------------------------------------------------
# harness: kernel_common.Harness + an item log (state of the until-event at entry and exit of every plan item)

class SHarness(kc.Harness):
    def __init__(self, case, env_factory=None):
        self.ilog = []
        super().__init__(case, env_factory)

    def _snap(self, u):
        from onl.sim.events import Event, PENDING
        if not isinstance(u, Event):
            return None
        if u._value is PENDING:
            oc = None
        elif getattr(u, "_ok", None):
            oc = ["ok", self.conv(u._value)]
        else:
            oc = ["fail", self.conv_exn(u._value)]
        return {"processed": u.callbacks is None, "outcome": oc, "sid": self.sid_of(u)}

    def run_item(self, it):
        i = len(self.results)
        u = self.glob.get(it[1]) if it[0] == "run_ev" else None
        before = self._snap(u)
        k0 = len(self.klog)
        n0 = self.nsteps
        super().run_item(it)
        self.ilog.append({"i": i, "item": it, "before": before, "after": self._snap(u), "klog_from": k0,
                          "klog_to": len(self.klog), "steps": self.nsteps - n0})

    def run(self):
        o = super().run()
        o["ilog"] = self.ilog
        return o


def sub_case(case, i):
    c = {"t0": case["t0"], "codes": case["codes"], "plan": [["exec", case["setup"]]] + case["plans"][i]}
    if case.get("num"):
        c["num"] = case["num"]
    return c


def run_bundle(case):
    return {"runs": [SHarness(sub_case(case, i)).run() for i in range(len(case["plans"]))]}


def digest(obs):
    return hashlib.sha1(json.dumps(obs, sort_keys=True, default=str).encode()).hexdigest()


_SUB = r"""
import sys, json, hashlib
from props import c03
cases = json.load(sys.stdin)
out = []
for c in cases:
    try:
        out.append(c03.digest(c03.run_bundle(c)))
    except BaseException as e:
        out.append("error:" + type(e).__name__ + ":" + str(e)[:200])
print(json.dumps({"hashseed": sys.flags.hash_randomization, "digests": out}))
"""


def seed_digests(cases, seed):
    """digests of the bundles' observations computed by a FRESH interpreter under PYTHONHASHSEED=seed"""
    env = dict(os.environ)
    env["PYTHONHASHSEED"] = str(seed)
    env["PYTHONPATH"] = REPO + os.pathsep + VERIF
    p = subprocess.run([PY, "-c", _SUB], input=json.dumps(cases), capture_output=True, text=True, env=env, timeout=900,
                       cwd=VERIF)
    if p.returncode != 0:
        return ["error:subprocess rc=%d %s" % (p.returncode, p.stderr[-300:])] * len(cases)
    return json.loads(p.stdout.strip().splitlines()[-1])["digests"]


# ----------------------------------------------------------------------------------------------------
# network scenarios: the same program executed again in an interpreter that has already run (and stopped midway) other
# simulations must give the trace a fresh interpreter gives -- nothing may survive from one Environment to the next

NET_PARTS = ["wire", "port", "bucket", "mq", "drr", "wfq", "route", "gensink"]
# whole plugins used as further scenario sources (their gen_case/run_impl; no truncation hook: the polluting executions of
# these run to their end): routing elements incl. hubs with string element ids and fat trees, closed TCP loops, timers
NET_PLUGINS = {"c18": None, "c16": ("loop",), "c19": None, "c06": None, "c07": None}
_NET = {}


class _PluginSource:
    """a property plugin seen through the part protocol (gen_case(rng, tier, prop_id), run_impl(case))"""

    def __init__(self, prop, kinds):
        self.prop, self.kinds = prop, kinds

    def gen_case(self, rng, tier, _pid):
        for _ in range(200):
            c = self.prop.gen_case(rng, tier)
            if self.kinds is None or c.get("kind") in self.kinds:
                return c
        return c

    def run_impl(self, case):
        return self.prop.run_impl(case)


class _SeededRandomSource:
    """programs that are reproducible because they seed the `random` module themselves: real generators with random
    inter-arrival times and sizes -> (RandomDemux ->) lossy Wires -> REDPort -> Port -> PacketSink, nothing scripted.
    Every source of randomness the elements use must be the seeded module-level generator (or be absent)."""

    def gen_case(self, rng, tier, _pid):
        return {"kind": "seeded", "seed": rng.randint(0, 10 ** 6), "nflows": rng.randint(1, 3),
                "loss": rng.choice([0.1, 0.3, 0.5]), "split": rng.random() < 0.5, "until": rng.choice([40, 80, 150])}

    def _once(self, case, split):
        import random
        from onl.sim import Environment
        from onl.packet import DistPacketGenerator, PacketSink
        from onl.netdev.wire import Wire
        from onl.netdev.port import Port
        from onl.netdev.red_port import REDPort
        from onl.netdev.demux import RandomDemux
        from onl.netdev.port_monitor import PortMonitor
        from onl.scheduler import WFQ
        from onl.scheduler.monitor import Monitor
        random.seed(case["seed"])
        env = Environment()
        T = case["until"]
        sink = PacketSink(env, rec_flow_ids=True)
        sched = WFQ(env, 32000.0, {f: 1 + f for f in range(case["nflows"])})
        sched.out = sink
        port = Port(env, 8000.0, None, False, "p")
        port.out = sched
        red = REDPort(env, 16000.0, 8, 2, 0.5, "r", 12)
        red.out = port
        wires = [Wire(env, lambda: random.uniform(0.1, 0.5), loss_rate=case["loss"], wire_id=i) for i in range(2)]
        for w in wires:
            w.out = red
        entry = RandomDemux(wires, [0.5, 0.5]) if case["split"] else wires[0]
        gens = []
        for f in range(case["nflows"]):
            g = DistPacketGenerator(env, "g%d" % f, lambda: random.expovariate(2.0), lambda: random.randint(40, 1500),
                                    flow_id=f, finish=T * 0.5)
            g.out = entry
            gens.append(g)
        # periodic samplers: the traffic ends at T/2, they must keep sampling to T whatever the stop points are
        # ONE sampler per scenario (so that, once the traffic has ended, it is the only activity left)
        pmon = smon = None
        if case["seed"] % 2:
            pmon = PortMonitor(env, port, lambda: 1.0)
            if not hasattr(pmon, "action"):
                pmon.action = env.process(pmon.run())
        else:
            smon = Monitor(env, sched, lambda: 1.5)
        marker = env.timeout(T * 0.7)           # exists in every execution; only the split plan stops at it
        if not split:
            env.run(until=T)
        else:                                   # the same program, stopped and resumed: number, steps, event, steps, number
            env.run(until=T * 0.25)
            for _ in range(7):
                env.step()
            env.run(until=marker)
            while env.peek() < T * 0.85:
                env.step()
            env.run(until=T)
        return {"arrivals": {str(k): [repr(x) for x in v] for k, v in sorted(sink.arrivals.items())},
                "waits": {str(k): [repr(x) for x in v] for k, v in sorted(sink.waits.items())},
                "sent": [g.packets_send for g in gens], "wire_rec": [w.packets_rec for w in wires],
                "red": [red.packets_received, red.packets_dropped], "now": repr(float(env.now)),
                "port_samples": [list(pmon.sizes), list(pmon.sizes_byte)] if pmon else None,
                "sched_samples": {str(k): list(v) for k, v in sorted(smon.sizes.items())} if smon else None}

    def run_impl(self, case):
        import random
        keep = random.getstate()
        try:
            free = self._once(case, False)
            split = self._once(case, True)
            diff = [k for k in free if free[k] != split[k]]
            return {"free": free, "split_differs_in": diff,
                    "split_detail": {k: [str(free[k])[:160], str(split[k])[:160]] for k in diff[:3]}}
        finally:
            random.setstate(keep)


def net_parts():
    """the element parts that can be imported (props/part_<name>.py, protocol of vlib/composite.py)"""
    import importlib
    if not _NET:
        _NET["parts"], _NET["skipped"] = {}, []
        for n in NET_PARTS:
            try:
                _NET["parts"][n] = importlib.import_module("props.part_" + n).PART
            except BaseException as e:
                _NET["skipped"].append(f"{n}: {type(e).__name__}: {str(e)[:80]}")
        _NET["parts"]["seeded"] = _SeededRandomSource()
        for n, kinds in NET_PLUGINS.items():
            try:
                _NET["parts"][n] = _PluginSource(importlib.import_module("props." + n).PROP, kinds)
            except BaseException as e:
                _NET["skipped"].append(f"{n}: {type(e).__name__}: {str(e)[:80]}")
    return _NET["parts"]


def net_run(part, case, keep=None):
    """digest of the part's observation of the case; with `keep` (a file name) the observation's JSON text is also written there
    (nothing is retained in memory: the reruns are about what survives in this interpreter, so the check itself keeps no garbage)"""
    try:
        text = json.dumps(net_parts()[part].run_impl(case), sort_keys=True, default=str)
        if keep:
            try:
                with open(keep, "w") as fh:
                    fh.write(text)
            except OSError:
                pass
        return hashlib.sha1(text.encode()).hexdigest()
    except BaseException as e:
        return "error:" + type(e).__name__ + ":" + str(e)[:200]


class truncated:
    """inside the block every element harness run stops after k steps: a simulation stopped midway, like run(until=t)"""

    def __init__(self, k):
        self.k = k

    def __enter__(self):
        from props import elem_common as ec
        self.ec, self.orig, k = ec, ec.Harness.run, self.k

        def run(h, max_steps=20000, until=None):
            return self.orig(h, min(max_steps, k), until)
        ec.Harness.run = run

    def __exit__(self, *a):
        self.ec.Harness.run = self.orig


def net_steps(part, case):
    """number of kernel steps the element harness makes in a complete execution of the case (0 if it cannot be counted)"""
    from props import elem_common as ec
    orig, cnt = ec.Harness.run, [0]

    def run(h, max_steps=20000, until=None):
        real = h.env.step

        def step():
            cnt[0] += 1
            return real()
        h.env.step = step
        try:
            return orig(h, max_steps, until)
        finally:
            h.env.step = real
    ec.Harness.run = run
    try:
        net_parts()[part].run_impl(case)
    except BaseException:
        pass
    finally:
        ec.Harness.run = orig
    return cnt[0]


def net_rounds(part, case, polluters, ks):
    """for every (polluter, k): an execution of the polluter stopped after k steps (result thrown away), then a complete
    execution of `case`; returns the digests of the complete executions"""
    out = []
    rdir = os.path.join(VERIF, ".work", "c03_rounds")
    os.makedirs(rdir, exist_ok=True)
    for j, (c, k) in enumerate(zip(polluters, ks)):
        with truncated(k):
            try:
                net_parts()[part].run_impl(c)
            except BaseException:
                pass
        out.append(net_run(part, case, keep=os.path.join(rdir, "%d.json" % j)))
    return out


_NET_SUB = r"""
import sys, json
from props import c03
items = json.load(sys.stdin)
print(json.dumps({"digests": [c03.net_run(p, c) for p, c in items]}))
"""


_NET_SUB_OBS = r"""
import sys, json
from props import c03
items = json.load(sys.stdin)
print(json.dumps({"obs": [json.loads(json.dumps(c03.net_parts()[p].run_impl(c), sort_keys=True, default=str)) for p, c in items]}))
"""


def net_reference_obs(items, seed):
    """the full observations (not only digests) of (part, case) items computed in one fresh interpreter"""
    env = dict(os.environ)
    env["PYTHONHASHSEED"] = str(seed)
    env["PYTHONPATH"] = REPO + os.pathsep + VERIF
    p = subprocess.run([PY, "-c", _NET_SUB_OBS], input=json.dumps(items), capture_output=True, text=True, env=env, timeout=900, cwd=VERIF)
    return json.loads(p.stdout.strip().splitlines()[-1])["obs"]


def _first_diffs(a, b, path=""):
    out = []
    if type(a) != type(b):
        return [[path, str(a)[:120], str(b)[:120]]]
    if isinstance(a, dict):
        for k in sorted(set(a) | set(b)):
            if k not in a or k not in b:
                out.append([path + "/" + str(k), "present" if k in a else "absent", "present" if k in b else "absent"])
            else:
                out += _first_diffs(a[k], b[k], path + "/" + str(k))
    elif isinstance(a, list):
        if len(a) != len(b):
            out.append([path, "len %d" % len(a), "len %d" % len(b)])
        for i, (x, y) in enumerate(zip(a, b)):
            out += _first_diffs(x, y, path + "/%d" % i)
            if len(out) > 8:
                break
    elif a != b:
        out.append([path, str(a)[:120], str(b)[:120]])
    return out


def net_reference(items, seed):
    """digests of the observations of (part, case) items, each computed in ONE fresh interpreter under PYTHONHASHSEED=seed
    that runs the items in order -- complete executions only"""
    env = dict(os.environ)
    env["PYTHONHASHSEED"] = str(seed)
    env["PYTHONPATH"] = REPO + os.pathsep + VERIF
    p = subprocess.run([PY, "-c", _NET_SUB], input=json.dumps(items), capture_output=True, text=True, env=env, timeout=1800,
                       cwd=VERIF)
    if p.returncode != 0:
        return ["error:subprocess rc=%d %s" % (p.returncode, p.stderr[-300:])] * len(items)
    return json.loads(p.stdout.strip().splitlines()[-1])["digests"]


# ----------------------------------------------------------------------------------------------------
# generator

KNOBS = {
    "procs": (1, 6), "body": (1, 6), "n_shared": (1, 4), "n_shared_timeouts": (1, 2), "child_codes": (0, 3),
    "w_timeout": 6, "w_wait_shared": 5, "w_trigger": 4.5, "w_fail": 1.5, "w_spawn": 2, "w_join": 3,
    "w_interrupt": 1.5, "w_cond": 1.5, "w_query": 0.5, "w_log": 0.6, "w_double_trigger": 0.3,
    "w_neg_delay": 0.1, "w_bad_yield": 0.04, "w_interrupt_self": 0.1, "w_zero_burst": 1.2, "w_fine_pair": 0.5,
    "w_intr_then_spawn": 0.6, "p_catch": 0.65, "p_retry": 0.15, "p_end_raise": 0.12, "p_end_return": 0.4,
    "p_probe": 0.95, "p_fine": 0.08, "p_fraction": 0.06,
    "plan_run": 1, "plan_num": 0, "plan_ev": 0, "plan_steps": 0, "plan_mixed": 0, "p_top_exec": 0.0,
}
LATTICE = ["1/2", "1", "1", "3/2", "2", "2", "5/2", "3", "4", "1/4", "1/8", "5"]
FINE = ["1/1024", "3/4096", "1/65536"]


def _event_slots(setup):
    """G indices that hold an event after the module-level setup: (plain events, timeouts, processes)"""
    ev, to, pr = [], [], []
    for ins in setup:
        if ins[0] == "event" and ins[1][0] == "G":
            ev.append(ins[1][1])
        elif ins[0] == "timeout" and ins[1][0] == "G":
            to.append(ins[1][1])
        elif ins[0] == "spawn" and ins[1][0] == "G":
            pr.append(ins[1][1])
    return ev, to, pr


def _late_slots(codes):
    out = []
    for code in codes:
        for ins in code:
            if ins[0] == "set" and ins[1][0] == "G":
                out.append(ins[1][1])
    return out


def probe_instants(case):
    """due instants of the uninterrupted run, from a probe run on the code under test (fallback: none)"""
    try:
        o = kc.run_case(sub_case(case, 0))
        ts = sorted({Fraction(t[2]) for t in o["trace"] if t[0] == "step"})
        return ts, len([t for t in o["trace"] if t[0] == "step"])
    except BaseException:
        return [], 0


def split_plan(rng, case, instants, nsteps):
    t0 = Fraction(case["t0"])
    ev, to, pr = _event_slots(case["setup"])
    late = _late_slots(case["codes"])
    cands = ev * 3 + to * 2 + pr * 2 + late
    items, used_t, used_g = [], [], []
    floor = t0
    for _ in range(rng.choice([1, 1, 2, 2, 3, 4])):
        r = rng.random()
        if r < 0.42:
            q = rng.random()
            later = [t for t in instants if t > floor]
            if q < 0.5 and later:
                t = rng.choice(later[:6])                                     # AT a due instant
            elif q < 0.58 and used_t:
                t = rng.choice(used_t)                                        # the horizon already reached: t <= now
            elif q < 0.64:
                t = t0 - Fraction(rng.choice(["0", "1", "1/2"]))              # t <= initial time
            elif q < 0.74 and later:
                t = rng.choice(later[:6]) + Fraction(rng.choice(FINE)) * rng.choice([1, -1])   # just beside a due instant
            elif q < 0.84 and len(later) >= 2:
                i = rng.randrange(len(later[:6]) - 1)
                t = (later[i] + later[i + 1]) / 2                              # between two due instants
            else:
                t = floor + Fraction(rng.choice(LATTICE))
            items.append(["run_num", kc.qs(t)])
            used_t.append(t)
            floor = max(floor, t)
        elif r < 0.72:
            q = rng.random()
            if q < 0.07 or not cands:
                g = 40 + rng.randint(0, 3)                                    # not an event
            elif q < 0.25 and used_g:
                g = rng.choice(used_g)                                        # very likely processed already
            else:
                g = rng.choice(cands)
            items.append(["run_ev", g])
            used_g.append(g)
        elif r < 0.93:
            n = rng.choice([1, 1, 1, 2, 3, 5]) if nsteps < 40 else rng.choice([1, 2, 5, 13])
            items.append(["step", n])
        else:
            items.append(["run"])
    return items + [["run"]] * DRAIN


def _no_peek(ins):
    """env.peek() called by a process body shows the until-sentinel of run(until=number) (it is an agenda entry): the only
    kernel call whose answer depends on the run plan.  It is kept out of the compared families (see `assumptions`)."""
    if ins[0] == "peek":
        return ["now", ins[1]]
    if ins[0] in ("ifexn", "ifok"):
        return [ins[0], ins[1], _no_peek(ins[2])]
    return ins


def bundle_of(rng, base):
    base = {**base, "codes": [[_no_peek(i) for i in code] for code in base["codes"]]}
    case = {"kind": "split", "family": "random", "t0": base["t0"], "codes": base["codes"], "setup": base["plan"][0][1],
            "plans": [[["run"]] * DRAIN]}
    if base.get("num"):
        case["num"] = base["num"]
    instants, nsteps = probe_instants(case)
    for _ in range(3):
        case["plans"].append(split_plan(rng, case, instants, nsteps))
    return case


# ---- hand-shaped families ---------------------------------------------------------------------------

def _d(rng):
    return rng.choice(["0", "1", "1", "2", "1/2", "3/2", "3"])


def _v(rng):
    return rng.choice([["none"], ["int", 0], ["int", rng.randint(1, 9)]])


def shaped_until_event(rng):
    """one shared event G0 triggered (or failed) by a process at instant a; waiters that yield G0 before run() is entered
    (delay 0), after it was entered (b < a), in the very instant it is triggered (b == a) and after it was processed
    (b > a); late probes; split plans stop at G0, at a, around a, step by step"""
    a = _d(rng)
    fail = rng.random() < 0.35
    trig = [["timeout", ["L", 1], a, ["none"]], ["yield", 1, ["reg", ["L", 1]], ["L", 2], "catch"],
            (["fail", ["G", 0], ["user", rng.randint(0, 3), rng.randint(0, 9)]] if fail else ["succeed", ["G", 0], _v(rng)])]
    if rng.random() < 0.4:
        trig += [["timeout", ["L", 3], _d(rng), _v(rng)], ["yield", 2, ["reg", ["L", 3]], ["L", 4], "catch"], ["log", ["int", 70]]]
    codes = [trig]
    setup = [["event", ["G", 0]]]
    if rng.random() < 0.8:
        setup.append(["probe", ["G", 0], 1])
    nw = rng.randint(1, 4)
    lbl = 10
    for i in range(nw):
        b = rng.choice(["0", a, a, _d(rng)])
        mode = rng.choice(["catch", "catch", "prop", ["retry", 1]])
        body = []
        if b != "0" or rng.random() < 0.5:
            body += [["timeout", ["L", 1], b, ["none"]], ["yield", lbl, ["reg", ["L", 1]], ["L", 2], "catch"]]
        if rng.random() < 0.4:
            body.append(["probe", ["G", 0], 20 + i])                          # appended behind the stop callback
        body += [["yield", lbl + 1, ["reg", ["G", 0]], ["L", 3], mode], ["log", ["reg", ["L", 3]]],
                 ["timeout", ["L", 4], _d(rng), _v(rng)], ["yield", lbl + 2, ["reg", ["L", 4]], ["L", 5], "catch"],
                 ["log", ["int", 90 + i]]]
        lbl += 3
        codes.append(body)
    order = list(range(len(codes)))
    rng.shuffle(order)
    for k, c in enumerate(order):
        setup.append(["spawn", ["G", 1 + k], c, ["none"]])
    if rng.random() < 0.3:
        setup.append(["timeout", ["G", 9], a, _v(rng)])                      # something else due in the instant of the trigger
    case = {"kind": "split", "family": "until-event", "t0": rng.choice(["0", "0", "1", "-1"]), "codes": codes, "setup": setup,
            "plans": [[["run"]] * DRAIN]}
    at = Fraction(case["t0"]) + Fraction(a)
    tail = [["run"]] * DRAIN
    pool = [
        [["run_ev", 0]],
        [["run_ev", 0], ["run_ev", 0]],                                       # the second call: already processed
        [["run_num", kc.qs(at)], ["run_ev", 0]] if at > Fraction(case["t0"]) else [["step", 1], ["run_ev", 0]],
        [["step", rng.choice([1, 2, 3])], ["run_ev", 0], ["step", 1], ["run_ev", 0]],
        [["run_ev", rng.randint(1, len(codes))], ["run_ev", 0]],              # stop at a process, then at the event
        [["run_num", kc.qs(at + Fraction(1, 2))], ["run_ev", 0]],             # the event is processed before the call
        [["run_ev", 0], ["run_num", kc.qs(at)]],                              # horizon == now afterwards: ValueError
        [["step", 1]] * rng.randint(2, 6) + [["run_ev", 0]],
    ]
    for p in rng.sample(pool, 3):
        case["plans"].append(p + tail)
    return case


def shaped_horizon(rng):
    """numeric horizons exactly at instants where several things are due: timeouts created at different moments for the same
    instant, zero-delay chains and process starts inside that instant, an interrupt delivered at the horizon"""
    t = rng.choice(["1", "2", "3/2", "1/2"])
    codes = []
    n = rng.randint(2, 5)
    for i in range(n):
        r = rng.random()
        if r < 0.35:       # arrives at t in one hop, then a zero-delay chain inside the instant
            body = [["timeout", ["L", 1], t, _v(rng)], ["yield", 1, ["reg", ["L", 1]], ["L", 2], "catch"], ["log", ["reg", ["L", 2]]],
                    ["timeout", ["L", 3], "0", _v(rng)], ["yield", 2, ["reg", ["L", 3]], ["L", 4], "catch"], ["log", ["int", 10 + i]]]
        elif r < 0.6:      # arrives at t in two hops (the entry for t is created later, at t/2)
            h = kc.qs(Fraction(t) / 2)
            body = [["timeout", ["L", 1], h, ["none"]], ["yield", 1, ["reg", ["L", 1]], ["L", 2], "catch"],
                    ["timeout", ["L", 3], h, _v(rng)], ["yield", 2, ["reg", ["L", 3]], ["L", 4], "catch"], ["log", ["int", 20 + i]]]
        elif r < 0.8:      # starts a child at t
            body = [["timeout", ["L", 1], t, ["none"]], ["yield", 1, ["reg", ["L", 1]], ["L", 2], "catch"],
                    ["spawn", ["L", 3], n, ["int", i]], ["yield", 2, ["reg", ["L", 3]], ["L", 4], "catch"], ["log", ["reg", ["L", 4]]]]
        else:              # interrupts its left neighbour at t
            body = [["timeout", ["L", 1], t, ["none"]], ["yield", 1, ["reg", ["L", 1]], ["L", 2], "catch"],
                    ["interrupt", ["G", max(0, i - 1)], ["int", 50 + i]], ["log", ["int", 30 + i]]]
        if rng.random() < 0.5:
            body += [["timeout", ["L", 6], _d(rng), _v(rng)], ["yield", 3, ["reg", ["L", 6]], ["L", 7], "catch"], ["log", ["int", 40 + i]]]
        codes.append(body)
    codes.append([["log", ["reg", ["L", 0]]], ["timeout", ["L", 1], rng.choice(["0", "1"]), ["none"]],
                  ["yield", 9, ["reg", ["L", 1]], ["L", 2], "catch"], ["return", ["reg", ["L", 0]]]])
    setup = [["spawn", ["G", i], i, ["none"]] for i in range(n)]
    if rng.random() < 0.5:
        setup.append(["timeout", ["G", 10], t, _v(rng)])
        setup.append(["probe", ["G", 10], 1])
    t0 = Fraction(rng.choice(["0", "0", "1", "-1/2"]))
    at = t0 + Fraction(t)
    case = {"kind": "split", "family": "horizon", "t0": kc.qs(t0), "codes": codes, "setup": setup, "plans": [[["run"]] * DRAIN]}
    tail = [["run"]] * DRAIN
    pool = [
        [["run_num", kc.qs(at)]],
        [["run_num", kc.qs(at)], ["run_num", kc.qs(at)]],                      # second: ValueError
        [["run_num", kc.qs(at)], ["step", rng.choice([1, 2, 3])], ["run_num", kc.qs(at + 1)]],
        [["run_num", kc.qs(at - Fraction(1, 1024))], ["run_num", kc.qs(at)], ["run_num", kc.qs(at + Fraction(1, 1024))]],
        [["run_num", kc.qs(t0 + Fraction(t) / 2)], ["run_num", kc.qs(at)]],
        [["step", rng.choice([1, 2, 4])], ["run_num", kc.qs(at)], ["step", 1], ["step", 1]],
        [["run_num", kc.qs(t0)]] + [["run_num", kc.qs(at)]],                   # horizon == initial time: ValueError
        [["run_ev", 0], ["run_num", kc.qs(at)]],
    ]
    for p in rng.sample(pool, 3):
        case["plans"].append(p + tail)
    return case


def shaped_bigint(rng):
    """an integer clock far above 2**53 (nanoseconds since an epoch, ticks): initial_time, every delay and every horizon are
    Python ints, so the real kernel computes exactly, as the model does over Q; horizons and expiries sit OFF the binary64
    grid (spacing 256 at this magnitude), so any detour of an instant through float shows"""
    base = rng.choice([2 ** 60, 1_700_000_000_000_000_000, 2 ** 53 + 2 ** 40]) + rng.choice([1, 3, 77, 1001])
    n = rng.randint(2, 4)
    ds = [rng.choice([1, 2, 3, 5, 50, 129, 1000]) for _ in range(n)]
    codes = []
    for i, d in enumerate(ds):
        body = [["timeout", ["L", 1], str(d), _v(rng)], ["yield", 1, ["reg", ["L", 1]], ["L", 2], "catch"], ["log", ["reg", ["L", 2]]]]
        if rng.random() < 0.6:
            body += [["timeout", ["L", 3], str(rng.choice([0, 1, 7, 255])), _v(rng)], ["yield", 2, ["reg", ["L", 3]], ["L", 4], "catch"],
                     ["log", ["int", 10 + i]]]
        codes.append(body)
    setup = [["spawn", ["G", i], i, ["none"]] for i in range(n)]
    d0 = rng.choice(ds)
    if rng.random() < 0.5:
        setup.append(["timeout", ["G", 10], str(d0), _v(rng)])
        setup.append(["probe", ["G", 10], 1])
    t0 = Fraction(base)
    at = t0 + d0
    case = {"kind": "split", "family": "bigint", "t0": kc.qs(t0), "codes": codes, "setup": setup, "plans": [[["run"]] * DRAIN]}
    tail = [["run"]] * DRAIN
    pool = [
        [["run_num", kc.qs(at)]],
        [["run_num", kc.qs(at)], ["run_num", kc.qs(at)]],                      # second: ValueError
        [["run_num", kc.qs(at - 1)], ["run_num", kc.qs(at)], ["run_num", kc.qs(at + 1)]],
        [["run_num", kc.qs(t0 + 1)], ["run_num", kc.qs(at + max(ds))]],
        [["step", rng.choice([1, 2, 4])], ["run_num", kc.qs(at + 1)], ["step", 1]],
        [["run_num", kc.qs(t0)]] + [["run_num", kc.qs(at)]],                   # horizon == initial time: ValueError
        [["run_ev", 0], ["run_num", kc.qs(at + 50)]],
    ]
    for p in rng.sample(pool, 3):
        case["plans"].append(p + tail)
    return case


def shaped_exhausted(rng):
    """run(until=event) where the agenda runs dry first (the event is never triggered, or only a process that waits for
    something untriggered would trigger it); later the event is triggered from module level -- not in a split plan, so the
    plans only differ by where they stop"""
    codes = [[["timeout", ["L", 1], _d(rng), _v(rng)], ["yield", 1, ["reg", ["L", 1]], ["L", 2], "catch"], ["log", ["int", 1]]],
             [["yield", 2, ["reg", ["G", 1]], ["L", 1], "catch"], ["succeed", ["G", 0], ["int", 5]]],
             [["yield", 3, ["reg", ["G", 0]], ["L", 1], "catch"], ["log", ["reg", ["L", 1]]]]]
    setup = [["event", ["G", 0]], ["event", ["G", 1]], ["probe", ["G", 0], 1]]
    for i, c in enumerate(rng.sample([0, 1, 2], 3)):
        setup.append(["spawn", ["G", 2 + i], c, ["none"]])
    if rng.random() < 0.5:
        codes.append([["timeout", ["L", 1], _d(rng), ["none"]], ["yield", 4, ["reg", ["L", 1]], ["L", 2], "catch"],
                      ["succeed", ["G", 1], ["int", 7]]])
        setup.append(["spawn", ["G", 6], 3, ["none"]])
    case = {"kind": "split", "family": "exhausted", "t0": "0", "codes": codes, "setup": setup, "plans": [[["run"]] * DRAIN]}
    tail = [["run"]] * DRAIN
    pool = [[["run_ev", 0]], [["run_ev", 1], ["run_ev", 0]], [["step", 2], ["run_ev", 0]], [["run_num", "1"], ["run_ev", 0]],
            [["run_ev", 0], ["run_ev", 0]], [["run_ev", rng.randint(2, 4)], ["run_ev", 1]]]
    for p in rng.sample(pool, 3):
        case["plans"].append(p + tail)
    return case


# ----------------------------------------------------------------------------------------------------
# monitor helpers

def sentinels_of(run):
    """(set of model event indices, set of first-sight ids) of the sentinels run(until=number) created in this run: the first
    thing scheduled by such a call before it processes anything"""
    evids, sids = set(), set()
    klog = run["klog"]
    for il in run["ilog"]:
        if il["item"][0] != "run_num":
            continue
        for k in klog[il["klog_from"] + 1:il["klog_to"]]:
            if k[0] == "S":
                sids.add(k[1])
                e = run["evid_of_sid"].get(str(k[1]))
                if e is not None:
                    evids.add(e)
                break
            if k[0] in ("P", "P?"):
                break
    return evids, sids


def visible_trace(run):
    """the user-visible trace: sentinel steps erased, event indices renumbered as if the sentinels had never been created"""
    sent, _ = sentinels_of(run)
    ss = sorted(sent)

    def ren(e):
        if not isinstance(e, int) or e < 0:
            return e
        return e - sum(1 for s in ss if s < e)

    def rv(v):
        k = v[0]
        if k == "ev":
            return ["ev", ren(v[1])]
        if k == "cond":
            return ["cond", [[ren(e), rv(x)] for e, x in v[1]]]
        if k == "list":
            return ["list", [rv(x) for x in v[1]]]
        if k == "exn":
            return ["exn", v[1], [rv(x) for x in v[2]]]
        return v

    out = []
    for t in run["trace"]:
        if t[0] == "step":
            if t[1] in sent:
                continue
            out.append(["step", ren(t[1]), t[2]])
        elif t[0] == "probe":
            o = t[4]
            o2 = ["ok", rv(o[1])] if o[0] == "ok" else ["fail", [o[1][0], [rv(x) for x in o[1][1]]]]
            out.append(["probe", t[1], ren(t[2]), t[3], o2])
        else:
            out.append(["log", t[1], t[2], rv(t[3])])
    return out


def drained(run):
    return (not run.get("aborted")) and bool(run["results"]) and run["results"][-1][2] is None


def _is_raise(res, cls=None, code=None):
    if res[0] != "raise":
        return False
    if cls is None:
        return True
    return res[1][0] == cls and (code is None or res[1][1] == [["int", code]])


def item_clauses(run, ri):
    """the clauses about run(until=number) and run(until=event), evaluated on one run of the bundle"""
    msgs = []
    klog, results = run["klog"], run["results"]
    _, sent_sids = sentinels_of(run)
    tainted = False          # an earlier run(until=...) ended with an exception: its stop callback may still be around
    for il in run["ilog"]:
        i, it = il["i"], il["item"]
        if i >= len(results):
            break
        res, now_after, peek_after = results[i]
        seg = klog[il["klog_from"]:il["klog_to"]]
        now_before = Fraction(seg[0][2]) if seg and seg[0][0] == "R" else None
        pops = [k for k in seg if k[0] == "P"]
        where = f"run {ri} item {i} {json.dumps(it)}"
        if it[0] == "run_num":
            t = Fraction(it[1])
            if now_before is not None and t <= now_before:
                if not _is_raise(res, "Value", 8):
                    msgs.append(f"until-past-not-refused: {where}: until={t} <= now={now_before} answered {res} instead of ValueError")
                if pops or Fraction(now_after) != now_before or any(k[0] == "S" for k in seg):
                    msgs.append(f"until-past-changed-state: {where}: the refused call processed/scheduled something or moved the clock")
                continue
            if _is_raise(res, "Value", 8):
                msgs.append(f"until-future-refused: {where}: until={t} > now={now_before} answered ValueError")
                continue
            if any(k[1] in sent_sids and Fraction(k[3]) == t for k in pops[:-1]):
                msgs.append(f"until-number-overrun: {where}: the call kept stepping after its sentinel had been processed (it answered {res})")
                continue
            if res[0] == "raise":
                tainted = True                  # an exception escaped from a step: the sentinel stays behind
                if any(Fraction(k[3]) > t for k in pops):
                    msgs.append(f"until-number-overrun: {where}: processed an entry due after {t}")
                continue
            if tainted:
                continue
            if res != ["stop", ["none"]]:
                msgs.append(f"until-number-result: {where}: returned {res}, expected None")
            if Fraction(now_after) != t:
                msgs.append(f"until-number-clock: {where}: returned with now={now_after}, expected {t}")
            if not pops or pops[-1][1] not in sent_sids:
                msgs.append(f"until-number-last-step: {where}: the last entry processed by the call is not the stop sentinel")
            for k in pops[:-1]:
                if Fraction(k[3]) >= t:
                    msgs.append(f"until-number-due-at-t-processed: {where}: an entry due at {k[3]} >= {t} took effect before the call returned")
                    break
            if peek_after is not None and Fraction(peek_after) < t:
                msgs.append(f"until-number-left-behind: {where}: returned although an entry due at {peek_after} < {t} is pending")
        elif it[0] == "run_ev":
            b, a = il["before"], il["after"]
            if b is None:
                if not _is_raise(res, "Attribute", 10):
                    msgs.append(f"until-nonevent: {where}: answered {res}")
                continue
            if _is_raise(res, "Assert"):
                msgs.append(f"run-assertion: {where}: run() raised its internal AssertionError (agenda empty, until-event triggered "
                            f"but not processed)")
                continue
            if b["processed"]:
                want = ["stop", b["outcome"][1]] if b["outcome"][0] == "ok" else ["stop", ["exn"] + b["outcome"][1]]
                if res != want:
                    msgs.append(f"until-processed-event-result: {where}: the event was already processed with {b['outcome']}, the call answered {res}")
                if pops:
                    msgs.append(f"until-processed-event-stepped: {where}: the event was already processed, yet the call processed {len(pops)} entries")
                continue
            if any(k[1] == a["sid"] for k in pops[:-1]):
                msgs.append(f"until-event-overrun: {where}: the call kept stepping after the until-event had been processed "
                            f"(it answered {res})")
                continue
            if res[0] == "stop":
                if tainted:
                    continue
                if not a["processed"] or not pops or pops[-1][1] != a["sid"]:
                    msgs.append(f"until-event-not-last: {where}: returned {res} but the until-event is not the last entry the call processed")
                elif a["outcome"] is None or a["outcome"][0] != "ok" or a["outcome"][1] != res[1]:
                    msgs.append(f"until-event-value: {where}: returned {res[1]}, the event's outcome is {a['outcome']}")
                if any(k[1] == a["sid"] for k in pops[:-1]):
                    msgs.append(f"until-event-late: {where}: the until-event was processed before the last step of the call")
            elif _is_raise(res, "Runtime", 5):
                if peek_after is not None:
                    msgs.append(f"until-event-exhausted-early: {where}: 'no scheduled events left' although an entry due at {peek_after} is pending")
                if a["outcome"] is not None:
                    msgs.append(f"until-event-exhausted-triggered: {where}: 'until event was not triggered' although its outcome is {a['outcome']}")
            elif res[0] == "raise":
                if a["processed"] and pops and pops[-1][1] == a["sid"] and a["outcome"] and a["outcome"][0] == "fail":
                    if res[1] != a["outcome"][1]:
                        msgs.append(f"until-event-failure: {where}: the until-event failed with {a['outcome'][1]}, the call raised {res[1]}")
                else:
                    tainted = True              # something else escaped; the stop callback stays on the event
            if res[0] == "stop" and not tainted and peek_after is None and not a["processed"]:
                msgs.append(f"until-event-stop-unprocessed: {where}")
        elif it[0] == "run":
            if res[0] == "stop" and res[1] != ["none"] and not tainted:
                msgs.append(f"run-returns-value: {where}: run() returned {res[1]} without any stop callback left behind")
            if res == ["stop", ["none"]] and peek_after is not None and not tainted:
                msgs.append(f"run-returns-early: {where}: run() returned None although an entry due at {peek_after} is pending")
    return msgs


def first_diff(a, b):
    for i, (x, y) in enumerate(zip(a, b)):
        if x != y:
            return i, x, y
    if len(a) != len(b):
        i = min(len(a), len(b))
        return i, (a[i] if i < len(a) else None), (b[i] if i < len(b) else None)
    return None


# ----------------------------------------------------------------------------------------------------

class C03(Prop):
    id = "C03"
    props_file = ["Props/C03.v", "Props/C03_Examples.v", "Props/C03_Bridge.v", "Props/C03_BridgeRun.v"]
    coq_imports = kc.COQ_IMPORTS
    n_quick = 600
    n_thorough = 5000
    shard = 24
    case_timeout = 60
    nontrivial_rule = ("bundles: one script family (kernel_common generator biased towards shared events, joins, zero-delay bursts; "
                       "plus hand-shaped families: until-event with early/late/same-instant waiters, horizons at crowded instants, "
                       "agenda exhausted before the until-event) run under the uninterrupted plan and 3 split plans (run(until=number) "
                       "AT due instants with probability 1/2, beside and between them, t <= now; run(until=event) on pending, "
                       "processed, failing and never-triggered events and non-events; step(n); run()); non-trivial = the "
                       "uninterrupted run processes >= 6 events, >= 3 of them at one instant, and some split plan really stops "
                       "in the middle; distinct by hash of the bundle")
    trusted_base = ["vlib/translate.py (Python ast, fail closed; tables in props/kernel_tie.py) regenerates before every build the translation of "
                    "StopSimulation.callback and Environment.step of the tree under test (coq/Gen/Extracted_kernel.v); the C03_gen_* theorems (Props/C03_Bridge.v) bridge them to stop_cb / step of Kernel/Model.v; Environment.run (its prelude and ONE iteration of its step loop with the handlers: coq/Gen/Extracted_run.v) is bridged to run_prelude / run_loop / run_empty by C03_gen_run (Props/C03_BridgeRun.v)",
                    "kernel harness props/kernel_common.py (real generators on the real Environment; env.schedule/env.step wrapped as "
                    "instance attributes; events named by creation index) plus this plugin's item log",
                    "times are exact: dyadic delays and horizons, Python numbers converted with fractions.Fraction; float rounding is "
                    "outside the theorems",
                    "CPython generator semantics and heapq are modelled, not verified",
                    "reproducibility across interpreter processes and PYTHONHASHSEED values is CHECKED on a sample of every run "
                    "(extra_checks), not proved: the model has no hash, id() or clock, so whole-trace agreement with it under any "
                    "seed means independence from the seed",
                    "network scenarios: reproducibility in the same interpreter after stopped executions, and across fresh "
                    "interpreters / hash seeds, is CHECKED on the element parts' case streams (36 scenarios x 8 rounds quick, 400 "
                    "thorough; harnesses props/elem_common.py and props/part_*.py), not proved: the element models are "
                    "single-Environment automata and say nothing about state shared between Environments"]
    assumptions = ["process bodies do not call env.run()/step() re-entrantly; split plans contain no module-level code between stop "
                   "points (the uninterrupted run has no place for it)",
                   "the clauses about what a single run(until=...) returns assume that no earlier run(until=...) of the same "
                   "environment ended with an exception (its stop callback / sentinel would still be armed: DESIGN 4 hypothesis "
                   "(iii)); the theorems state this as the invariant `calm`, re-established by every call that returns normally; "
                   "transparency of the trace is checked and proved without it",
                   "process bodies do not call env.peek(): during run(until=number) peek() shows the sentinel's due time (the sentinel "
                   "is an agenda entry), the one kernel answer that depends on the run plan; the generated families replace it by "
                   "env.now, the theorem about numeric horizons excludes the call CPeek",
                   "model = repaired kernel (fix bd0bcc6: the stop of run(until=event) is raised after the remaining callbacks)"]
    partial = ["reproducibility of the IMPLEMENTATION in another interpreter process / under any PYTHONHASHSEED is checked on a sample "
               "of every run (extra_checks: fresh interpreters, 2 seeds quick / 16 thorough), not proved; the model is a Coq function "
               "(C03_run_deterministic)",
               "'executing the same program twice in the same interpreter' for NETWORK scenarios (elements keeping state outside "
               "their Environment) is checked by extra_checks on the element parts' scenarios after stopped executions, not proved; "
               "split transparency is proved for kernel programs, the network elements being kernel programs of this kind",
               "C03_split_transparent (all stop points) is proved for parametric programs: automata that treat event ids as opaque "
               "tokens and do not call env.peek() (Kernel/StopRen.v; every script-compiled program without peek is: "
               "C03_scripts_parametric) -- in the model an event is a number and an arbitrary Coq automaton could compute with it; "
               "for ALL automata the theorems are C03_split_transparent_partial (split run = free run with inert sentinels) and "
               "C03_split_transparent_events_steps(_run) (plans without numeric horizons: identical executions)",
               "the split-transparency theorems compare with the free run (step() repeated, whatever the steps answer), which is "
               "what a resumed run() is; runs in which a step answers the model's explicit internal-error result RBroken are excluded "
               "(DESIGN section 4: RFuel/RBroken), one-sidedly: only the uninterrupted run is required not to answer it"]


    # ---- second tie: kernel leaves translated from the tree under test before the Coq build (fail closed) ----
    def pre_build(self):
        from vlib import framework as fw
        from props import kernel_tie
        kernel_tie.write_extracted_kernel(fw.REPO, fw.COQ)
        kernel_tie.write_extracted_run(fw.REPO, fw.COQ)

    def gen_case(self, rng, tier):
        r = rng.random()
        if r < 0.14:
            return shaped_until_event(rng)
        if r < 0.24:
            return shaped_horizon(rng)
        if r < 0.27:
            return shaped_exhausted(rng)
        if r < 0.31:
            return shaped_bigint(rng)
        return bundle_of(rng, kc.gen_case(rng, KNOBS))

    def run_impl(self, case):
        if case.get("kind") == "netsplit":
            return net_parts()["seeded"].run_impl(case["case"])
        if case.get("kind") == "netrepro":
            # reference first (fresh interpreter, the case alone), then: truncated runs in THIS process, then the case again
            ref = net_reference([[case["part"], case["case"]]], case.get("seed", 1))[0]
            return {"runs": [], "ref": ref, "digests": net_rounds(case["part"], case["case"], case["polluters"], case["ks"])}
        if case.get("kind") == "hashseed":
            o = run_bundle(case["bundle"])
            o["digest"] = digest({"runs": o["runs"]})
            o["seed_digests"] = {str(s): seed_digests([case["bundle"]], s)[0] for s in case["seeds"]}
            return o
        if "plans" not in case:                     # a plain kernel_common case (old corpus format)
            case = {"kind": "split", "t0": case["t0"], "codes": case["codes"], "setup": case["plan"][0][1],
                    "plans": [case["plan"][1:]], **({"num": case["num"]} if case.get("num") else {})}
            return run_bundle(case)
        return run_bundle(case)

    def _norm(self, case):
        if case.get("kind") == "hashseed":
            return case["bundle"]
        if "plans" not in case:
            return {"kind": "split", "t0": case["t0"], "codes": case["codes"], "setup": case["plan"][0][1],
                    "plans": [case["plan"][1:]], **({"num": case["num"]} if case.get("num") else {})}
        return case

    def agree_term(self, case, obs):
        if case.get("kind") == "netrepro":
            return None                                  # no kernel-script model run: the element parts have their own
        c = self._norm(case)
        terms = [kc.agree_term(sub_case(c, i), o) for i, o in enumerate(obs["runs"])]
        out = "true"
        for t in reversed(terms):
            out = f"andb ({t})\n ({out})"
        return out

    def model_term(self, case):
        if case.get("kind") == "netrepro":
            return None
        c = self._norm(case)
        return "(" + ",\n ".join(kc.model_term(sub_case(c, i)) for i in range(len(c["plans"]))) + ")"

    # ---- the property, as an oracle over what the implementation did -----------------------------------
    def monitor(self, case, obs):
        if case.get("kind") == "netsplit":
            if obs["split_differs_in"]:
                return [f"network-split-not-transparent: the seeded network scenario {json.dumps(case['case'])} executed as run(until=T/4), 7 x step(), "
                        f"run(until=event), step() ..., run(until=T) differs from the single run(until=T) in {obs['split_differs_in']}: "
                        f"{json.dumps(obs['split_detail'])[:400]}"]
            return []
        if case.get("kind") == "netrepro":
            for i, d in enumerate(obs["digests"]):
                if d != obs["ref"]:
                    return [f"network-not-reproducible: part {case['part']}: executed after {i + 1} execution(s) of the same part that were "
                            f"stopped after {case['ks'][:i + 1]} steps in this interpreter, the scenario gives observation {d[:40]}; a fresh "
                            f"interpreter (PYTHONHASHSEED={case.get('seed', 1)}) gives {obs['ref'][:40]}: something survives from one "
                            f"simulation to the next"]
            return []
        msgs = []
        runs = obs["runs"]
        for ri, run in enumerate(runs):
            for m in kc.basic_monitor(sub_case(self._norm(case), ri), run):
                msgs.append(m)
            msgs.extend(item_clauses(run, ri))
        if len(runs) > 1:
            base = visible_trace(runs[0])
            for ri in range(1, len(runs)):
                v = visible_trace(runs[ri])
                if drained(runs[0]) and drained(runs[ri]):
                    d = first_diff(base, v)
                else:
                    n = min(len(base), len(v))
                    d = first_diff(base[:n], v[:n])
                if d is not None:
                    i, x, y = d
                    plan = self._norm(case)["plans"][ri]
                    kind = "lost" if y is None else "extra" if x is None else "differs"
                    msgs.append(f"split-trace-{kind}: split plan {ri} {json.dumps([p for p in plan if p != ['run']])}: visible trace entry {i} is "
                                f"{json.dumps(y)} in the split run, {json.dumps(x)} in the uninterrupted run")
        if case.get("kind") == "hashseed":
            for s, dg in obs["seed_digests"].items():
                if dg != obs["digest"]:
                    msgs.append(f"not-reproducible: a fresh interpreter under PYTHONHASHSEED={s} produced a different observation "
                                f"({dg[:40]}) than this process ({obs['digest'][:12]})")
        seen, out = set(), []
        for m in msgs:
            s = m.split(":")[0]
            if s not in seen:
                seen.add(s)
                out.append(m)
        return out

    def nontrivial(self, case, obs):
        if case.get("kind") == "netrepro":
            return True
        runs = obs["runs"]
        if not kc.nontrivial(None, runs[0]):
            return False
        n0 = len(kc.steps_of(runs[0]))
        for run in runs[1:]:
            for il in run["ilog"]:
                if il["item"][0] != "run" and 0 < il["steps"] < n0:
                    return True
        return False

    def shrink(self, case):
        if case.get("kind") == "netrepro":
            ps, ks = case["polluters"], case["ks"]
            for i in range(len(ps) - 1, -1, -1):
                if len(ps) > 1:
                    yield {**case, "polluters": ps[:i] + ps[i + 1:], "ks": ks[:i] + ks[i + 1:]}
            for i, k in enumerate(ks):
                if k > 4:
                    yield {**case, "ks": ks[:i] + [k // 2] + ks[i + 1:]}
            return
        if case.get("kind") == "hashseed" or "plans" not in case:
            return
        plans = case["plans"]
        # fewer split plans
        if len(plans) > 2:
            for i in range(len(plans) - 1, 0, -1):
                yield {**case, "plans": plans[:i] + plans[i + 1:]}
        # fewer / smaller stop points
        for pi in range(1, len(plans)):
            p = plans[pi]
            for j in range(len(p) - 1, -1, -1):
                if len(p) > 1:
                    yield {**case, "plans": plans[:pi] + [p[:j] + p[j + 1:]] + plans[pi + 1:]}
            for j, it in enumerate(p):
                if it[0] == "step" and it[1] > 1:
                    yield {**case, "plans": plans[:pi] + [p[:j] + [["step", it[1] - 1]] + p[j + 1:]] + plans[pi + 1:]}
        # the script family
        base = {"t0": case["t0"], "codes": case["codes"], "plan": [["exec", case["setup"]]]}
        if case.get("num"):
            base["num"] = case["num"]
        for b in kc.shrink(base):
            if len(b["plan"]) == 1 and b["plan"][0][0] == "exec":
                c = {**case, "t0": b["t0"], "codes": b["codes"], "setup": b["plan"][0][1]}
                if "num" in b:
                    c["num"] = b["num"]
                else:
                    c.pop("num", None)
                yield c

    def describe(self, case, obs):
        if case.get("kind") == "netrepro":
            return ["network-rerun-" + case["part"]]
        c = self._norm(case)
        keys = set(kc.describe(sub_case(c, 0), obs["runs"][0]))
        keys = {k for k in keys if not k.startswith("plan-")}
        keys.add("family-" + str(c.get("family", "corpus")))
        for ri, run in enumerate(obs["runs"][1:], 1):
            instants = {t[2] for t in obs["runs"][0]["trace"] if t[0] == "step"}
            for il in run["ilog"]:
                it = il["item"]
                if it[0] == "exec":
                    continue
                res = run["results"][il["i"]][0] if il["i"] < len(run["results"]) else ["?"]
                if it[0] == "run_num":
                    at_due = kc.qs(Fraction(it[1])) in {kc.qs(Fraction(x)) for x in instants}
                    keys.add("stop-num-at-due-instant" if at_due else "stop-num-off-instant")
                    if _is_raise(res, "Value", 8):
                        keys.add("stop-num-past:ValueError")
                elif it[0] == "run_ev":
                    b = il["before"]
                    if b is None:
                        keys.add("stop-ev-nonevent")
                    elif b["processed"]:
                        keys.add("stop-ev-already-processed")
                    elif _is_raise(res, "Runtime", 5):
                        keys.add("stop-ev-agenda-exhausted")
                    elif res[0] == "raise":
                        keys.add("stop-ev-raises")
                    elif res[0] == "stop":
                        keys.add("stop-ev-returns-value")
                        # other entries processed in the same instant as the until-event
                        pops = [k for k in run["klog"][il["klog_from"]:il["klog_to"]] if k[0] == "P"]
                        if pops and sum(1 for t in obs["runs"][0]["trace"] if t[0] == "step" and Fraction(t[2]) == Fraction(pops[-1][3])) > 1:
                            keys.add("stop-ev-in-crowded-instant")
                elif it[0] == "step":
                    keys.add("stop-step")
        if case.get("kind") == "hashseed":
            keys.add("hashseed-rerun")
        return sorted(keys)

    # ---- reproducibility across interpreter processes / hash seeds ---------------------------------------
    def extra_checks(self, rng, tier):
        v1, st1 = self._hashseed_checks(rng, tier)
        v2, st2 = self._network_checks(rng, tier)
        st1.update(st2)
        return v1 + v2, st1

    def _network_checks(self, rng, tier):
        """network scenarios (the element parts' case streams): in-process execution after truncated executions of the same
        part == execution in a fresh interpreter, under several PYTHONHASHSEED values"""
        parts = net_parts()
        n_total = 98 if tier == "quick" else 980
        seeds = [1, 4242] if tier == "quick" else [0, 1, 7, 4242]
        per = max(1, n_total // max(1, len(parts)))
        items = []                                            # (part, case, polluters, ks)
        for name in sorted(parts):
            try:
                cases = [parts[name].gen_case(rng, tier, "C08") for _ in range(per + 2)]
            except BaseException as e:
                _NET["skipped"].append(f"{name}: gen_case {type(e).__name__}: {str(e)[:80]}")
                continue
            steps = [net_steps(name, c) for c in cases]
            for i in range(per):
                idx = [i, i, (i + 1) % len(cases), (i + 2) % len(cases)] + [rng.choice([i, (i + 1) % len(cases), (i + 2) % len(cases)]) for _ in range(4)]
                rng.shuffle(idx)
                pol = [cases[j] for j in idx]
                # stopped anywhere inside the run, mostly in its busy middle part
                ks = [max(1, int(steps[j] * (rng.uniform(0.1, 0.9) if rng.random() < 0.8 else rng.random()))) if steps[j] else rng.randint(3, 60)
                      for j in idx]
                items.append((name, cases[i], pol, ks))
        refs = {s: net_reference([[p, c] for p, c, _, _ in items], s) for s in seeds}
        violations, bad, errs = [], 0, 0
        nsplit = 0
        for name, c, _, _ in items:            # stopping and resuming a NETWORK scenario must be invisible too
            if name != "seeded":
                continue
            nsplit += 1
            try:
                o = parts[name].run_impl(c)
            except BaseException as e:
                o = {"free": None, "split_differs_in": ["error:" + type(e).__name__], "split_detail": {}}
            if o["split_differs_in"]:
                case = {"kind": "netsplit", "case": c, "_noshrink": True}
                violations.append((case, o, self.monitor(case, o)[0]))
        for i, (name, c, pol, ks) in enumerate(items):
            ds = net_rounds(name, c, pol, ks)
            if all(d.startswith("error:") for d in ds) and all(refs[s][i] == ds[0] for s in seeds):
                errs += 1                                     # the part's own harness fails on this case everywhere: not our subject
                continue
            diff = [s for s in seeds if any(refs[s][i] != d for d in ds)]
            if diff:
                bad += 1
                case = {"kind": "netrepro", "part": name, "case": c, "polluters": pol, "ks": ks, "seed": diff[0]}
                obs = {"runs": [], "ref": refs[diff[0]][i], "digests": ds}
                try:                                          # for the reader: where the observations differ (also written to .work)
                    j = [k for k, d in enumerate(ds) if d != refs[diff[0]][i]][0]
                    with open(os.path.join(VERIF, ".work", "c03_rounds", "%d.json" % j)) as fh:
                        here = json.load(fh)
                    there = net_reference_obs([[name, c]], diff[0])[0]
                    obs["diagnosis"] = {"round": j, "first_differences": _first_diffs(here, there)[:8]}
                except BaseException as e:
                    obs["diagnosis"] = {"error": type(e).__name__ + ":" + str(e)[:200]}
                try:
                    with open(os.path.join(VERIF, ".work", "c03_network_difference.json"), "w") as fh:
                        json.dump({"case": case, "obs": obs}, fh, indent=1, default=str)
                except BaseException:
                    pass
                violations.append((case, obs, (self.monitor(case, obs) or ["network-not-reproducible: fresh interpreters disagree"])[0]))
        stats = {"network_rerun_parts": sorted(parts), "network_rerun_parts_skipped": list(_NET.get("skipped", [])),
                 "network_rerun_cases": len(items), "network_rerun_truncated_runs": sum(len(x[2]) for x in items),
                 "network_rerun_hashseeds": seeds, "network_rerun_harness_errors": errs, "network_rerun_differences": bad,
                 "network_split_plans_compared": nsplit}
        return violations[:2], stats

    def _hashseed_checks(self, rng, tier):
        seeds = [1, 4242] if tier == "quick" else [0, 1, 2, 3, 7, 11, 42, 99, 1234, 4242, 31337, 65535, 100003, 2 ** 31 - 1, 2 ** 32 - 1, 123456789]
        n = 40 if tier == "quick" else 200
        bundles = [self.gen_case(rng, tier) for _ in range(n)]
        local = []
        for b in bundles:
            try:
                local.append(digest(run_bundle(b)))
            except BaseException as e:
                local.append("error:" + type(e).__name__ + ":" + str(e)[:200])
        per_seed = {s: seed_digests(bundles, s) for s in seeds}
        violations, bad = [], 0
        for i, b in enumerate(bundles):
            diff = [s for s in seeds if per_seed[s][i] != local[i]]
            if diff:
                bad += 1
                case = {"kind": "hashseed", "bundle": b, "seeds": diff[:2], "_noshrink": True}
                try:
                    o = self.run_impl(case)
                except BaseException:
                    o = {"runs": []}
                violations.append((case, o, f"not-reproducible: bundle {i}: fresh interpreters under PYTHONHASHSEED in {diff[:4]} produced "
                                            f"another observation than this process"))
        stats = {"hashseed_values": seeds, "hashseed_bundles": len(bundles), "hashseed_runs": len(bundles) * len(seeds) * 4,
                 "hashseed_interpreter_processes": len(seeds), "hashseed_differences": bad}
        return violations[:3], stats


PROP = C03()
