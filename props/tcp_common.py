"""Shared by props/c16.py and props/c17.py: driving the real TCPPacketGenerator from outside and
printing what it did as terms of coq/Tcp/Sender.v.

No hook in /repo: the sender is a subclass created here whose run() is a generator proxy (records
every resumption of the sender process = event `wake`), whose timeout_callback is wrapped per instance
(event `exp id`), whose private Store gets an instance-level _trigger_get wrapper (event `cb` = the
kernel processes one StorePut event) and whose put() is called by the driver (event `ack`).  After
every event the complete sender state is read from the public attributes.
"""
from fractions import Fraction

from vlib import coqfmt as cf

F = Fraction


def qj(x):
    return cf.qjson(x)


def fr(x):
    return cf.frac(x)


# ------------------------------------------------------------------------------------------------
# real code


def make_probe_class():
    from onl.packet.tcp_generator import TCPPacketGenerator

    class ProbeSender(TCPPacketGenerator):
        """TCPPacketGenerator with recording taps; no behaviour is changed."""

        def __init__(self, env, flow, cc, log, **kw):
            self._log = log                      # SenderLog
            self._yielded = None
            self._finished = False
            self._resumes = 0                    # resumptions of run() so far
            self._skind = 0                      # 0: not sleeping on a Timeout; 1: flow.start_time sleep; 2: waiting for the next application write
            super().__init__(env, flow, cc, **kw)
            log.attach(self)
            orig_cb = self.timeout_callback     # bound method of the real class

            def timeout_callback(packet_id):
                log.begin(["exp", packet_id])
                try:
                    orig_cb(packet_id)
                except Exception as e:
                    log.end(raised=e)
                    raise
                log.end()
            self.timeout_callback = timeout_callback
            store = self.cwnd_avaialbe
            orig_tg = store._trigger_get

            def _trigger_get(put_event):
                if put_event is None:            # called from Get.__init__, part of the current event
                    return orig_tg(put_event)
                log.begin(["cb"])
                try:
                    orig_tg(put_event)
                except Exception as e:
                    log.end(raised=e)
                    raise
                log.end()
            store._trigger_get = _trigger_get

        def run(self, env):
            g = super().run(env)
            log = self._log
            val, exc = None, None
            first = True
            while True:
                # a resumption out of a Timeout (start_time / next application write) is its own event kind
                log.begin(["appwake"] if self._skind else ["wake"])
                self._resumes += 1
                self._skind = 0
                try:
                    if first:
                        ev = next(g)
                    elif exc is not None:
                        ev = g.throw(exc)
                    else:
                        ev = g.send(val)
                except StopIteration:
                    self._yielded = None
                    self._finished = True
                    log.end()
                    return
                except Exception as e:
                    log.end(raised=e)
                    raise
                if type(ev).__name__ == "Timeout":
                    self._skind = 1 if (first and self.flow.start_time) else 2
                first = False
                self._yielded = ev
                log.end()
                val, exc = None, None
                try:
                    val = yield ev
                except Exception as e:          # interrupts are not used on the sender; kept for fidelity
                    exc = e

    return ProbeSender


class TooLong(BaseException):
    """raised by the recorder (not by the code under test) to cut a run after `cap` events"""


class SenderLog:
    """global event log of one run: entries {ev, t, tx, post, raised}"""

    def __init__(self, env, cap=250):
        self.env = env
        self.cap = cap
        self.entries = []
        self.cur = None
        self.sender = None
        self.init = None

    def attach(self, sender):
        self.sender = sender
        self.init = snapshot(sender)

    def begin(self, ev):
        assert self.cur is None, ("nested event", self.cur, ev)
        if len(self.entries) >= self.cap:
            raise TooLong()
        self.cur = {"ev": ev, "t": qj(self.env.now), "tx": [], "post": None, "raised": None}

    def tx(self, p):
        e = self.cur
        rec = [p.packet_id, p.size, qj(self.env.now), qj(p.time)]
        if e is None:
            # a transmission outside any sender event cannot happen; keep it visible
            self.entries.append({"ev": ["stray"], "t": qj(self.env.now), "tx": [rec], "post": snapshot(self.sender), "raised": None})
        else:
            e["tx"].append(rec)

    def end(self, raised=None):
        e = self.cur
        self.cur = None
        if raised is not None:
            e["raised"] = canon_exc(raised)
        e["post"] = snapshot(self.sender)
        self.entries.append(e)


def canon_exc(e):
    if isinstance(e, KeyError):
        return ["KeyError", str(e.args[0]) if e.args else ""]
    return [type(e).__name__, str(e)[:120]]


def snapshot(s):
    cc = s.congestion_control
    st = s.cwnd_avaialbe
    y = s._yielded
    waiting = bool(y is not None and not y.triggered)
    wake = bool(y is not None and y.triggered and not y.processed)
    if y is None and not s._finished:
        wake = True                                # the Initialize event of the sender process is pending
    sleep = None
    if y is not None and type(y).__name__ == "Timeout" and not y.processed:
        waiting, wake = False, False               # sleeping on env.timeout(...): neither on the store nor runnable
        for (t_, _, _, ev_) in s.env._queue:
            if ev_ is y:
                sleep = qj(t_)
    pend = 0
    for (_, _, _, ev) in s.env._queue:
        if getattr(ev, "resource", None) is st and type(ev).__name__ == "StorePut":
            pend += 1
    return {
        "ns": s.next_seq, "sb": s.send_buffer, "la": s.last_ack, "dup": s.dupack,
        "cwnd": qj(cc.cwnd), "ssth": qj(cc.ssthresh),
        "srtt": qj(s.rtt_estimate), "rttvar": qj(s.est_deviation), "rto": qj(s.rto),
        "ccnt": int(getattr(cc, "cwnd_cnt", 0)), "cnt": qj(getattr(cc, "cnt", 0)),
        "timers": [[k, qj(t.timeout), qj(t.expire_time), bool(t.stopped)] for k, t in s.timers.items()],
        "sent": list(s.sent_packets.keys()),
        "tok": len(st.items), "pend": pend, "wait": waiting, "wake": wake, "fin": bool(s._finished),
        "last_arr": qj(s.last_arrival), "sleep": sleep, "skind": (s._skind if sleep is not None else 0),
        "started": bool(s._resumes > 0), "ai": getattr(s, "_arr_n", [0])[0], "si": getattr(s, "_siz_n", [0])[0],
        "cub": ([qj(cc.W_last_max), qj(cc.epoch_start), qj(cc.origin_point), qj(cc.d_min), qj(cc.W_tcp), qj(cc.K), int(cc.ack_cnt)]
                if hasattr(cc, "W_last_max") else None),
    }


class TxRec:
    """the sender's `out`: records transmissions into the log (and optionally forwards)"""

    def __init__(self, log, nxt=None):
        self.log = log
        self.nxt = nxt

    def put(self, p):
        self.log.tx(p)
        if self.nxt is not None:
            self.nxt.put(p)


def build_sender(env, case, log, out=None):
    """the real sender of `case` (keys alg, mss, cwnd, ssth, rtt0, nseg)"""
    from onl.packet.tcp_generator import TCPReno, TCPCubic, Flow
    Probe = make_probe_class()
    mss = case["mss"]
    nseg = case["nseg"]
    flow = Flow(flow_id=3, src="a", dst="b", finish_time=float("inf"), size=(nseg * mss if nseg else None))
    arr_n, siz_n = [0], [0]
    if case.get("kind") == "app":
        # the application process of the Flow: scripted inter-write times and write sizes (then a default), any size, start/finish
        flow.size = case["size"] if case["size"] else None
        flow.start_time = num(case["start"]) if fr(case["start"]) != 0 else None
        flow.finish_time = num(case["finish"]) if case["finish"] is not None else float("inf")
        if case["arr"] is not None:
            arr, arr_d = [num(x) for x in case["arr"]], num(case["arr_default"])

            def arrival_dist():
                i = arr_n[0]
                arr_n[0] += 1
                return arr[i] if i < len(arr) else arr_d
            flow.arrival_dist = arrival_dist
        if case["siz"] is not None:
            siz, siz_d = list(case["siz"]), case["siz_default"]

            def size_dist():
                i = siz_n[0]
                siz_n[0] += 1
                return siz[i] if i < len(siz) else siz_d
            flow.size_dist = size_dist
    if case["alg"] == "reno":
        cc = TCPReno(mss=mss, cwnd=num(case["cwnd"]), ssthresh=num(case["ssth"]))
    else:
        cc = TCPCubic()                           # ignores its arguments: always mss 512, cwnd 512, ssthresh 65535
        if case.get("cubic_preset"):
            # documented deviation from "defaults": the public attributes are set before the first step
            cc.cwnd = num(case["cwnd"])
            cc.ssthresh = num(case["ssth"])
    s = Probe(env, flow, cc, log, rtt_estimate=num(case["rtt0"]))
    s._arr_n, s._siz_n = arr_n, siz_n
    s.mss = mss                                   # the sender's own MSS (512 in the class) follows the controller's
    s.out = TxRec(log, out)
    log.init = snapshot(s)
    return s


def num(x):
    """case numbers are ints or 'n/d' strings of dyadic rationals; the real code gets int or float"""
    f = fr(x)
    return int(f) if f.denominator == 1 else float(f)


# ------------------------------------------------------------------------------------------------
# Coq printers (coq/Tcp/Sender.v)


def coq_alg(a):
    return "Reno" if a == "reno" else "Cubic"


def coq_cfg(case):
    nseg = case["nseg"]
    return f"(mkcfg {cf.z(case['mss'])} {cf.z(nseg * case['mss'] if nseg else 0)} {coq_alg(case['alg'])})"


def coq_state(p):
    timers = cf.lst([cf.pair(cf.z(t[0]), cf.q(t[1])) for t in p["timers"]])
    sent = cf.lst([cf.z(i) for i in p["sent"]])
    return (f"(mkst {cf.z(p['ns'])} {cf.z(p['sb'])} {cf.z(p['la'])} {cf.z(p['dup'])} {cf.q(p['cwnd'])} {cf.q(p['ssth'])} "
            f"{cf.q(p['srtt'])} {cf.q(p['rttvar'])} {cf.q(p['rto'])} {cf.z(p['ccnt'])} {cf.q(p['cnt'])} {timers} {sent} "
            f"{cf.nat(p['tok'])} {cf.nat(p['pend'])} {cf.b(p['wait'])} {cf.b(p['wake'])} {cf.b(p['fin'])})")


def coq_event(e, post):
    ev = e["ev"]
    if ev[0] == "ack":
        # ["ack", ackno, packet_id, sample]; the CUBIC `cnt` oracle is the value the real code computed
        return f"(EAck {cf.z(ev[1])} {cf.z(ev[2])} {cf.q(ev[3])} {cf.q(post['cnt'])})"
    if ev[0] == "exp":
        return f"(EExpire {cf.z(ev[1])})"
    if ev[0] == "cb":
        return "EStoreCb"
    if ev[0] == "wake":
        return "EWake"
    raise ValueError(ev)


def coq_err(r):
    if r is None:
        return "None"
    if r[0] == "KeyError":
        return f"(Some (KeyErr {cf.z(int(r[1]))}))"
    if r[0] == "ZeroDivisionError":
        return "(Some ZeroDiv)"
    if r[0] == "ValueError":
        return "(Some TimerValue)"
    return "(Some OtherErr)"


def coq_cubic(p):
    c = p["cub"]
    return f"(mkcub {cf.q(c[0])} {cf.q(c[1])} {cf.q(c[2])} {cf.q(c[3])} {cf.q(c[4])} {cf.q(c[5])} {cf.q(c[6])})"


def coq_xevent(e):
    ev = e["ev"]
    if ev[0] == "ack":
        return f"(XAck {cf.z(ev[1])} {cf.z(ev[2])} {cf.q(ev[3])} {cf.q(e['t'])})"
    if ev[0] == "exp":
        return f"(XExpire {cf.z(ev[1])})"
    if ev[0] == "cb":
        return "XStoreCb"
    if ev[0] == "wake":
        return "XWake"
    raise ValueError(ev)


def coq_xentry(e):
    tx = cf.lst([cf.pair(cf.z(t[0]), cf.z(t[1])) for t in e["tx"]])
    return f"(mkxentry {coq_xevent(e)} {tx} {coq_state(e['post'])} {coq_cubic(e['post'])} {coq_err(e['raised'])})"


def coq_app(p):
    sl = "None" if p["sleep"] is None else f"(Some ({cf.b(p['skind'] == 2)}, {cf.q(p['sleep'])}))"
    return f"(mkapp {cf.q(p['last_arr'])} {sl} {cf.b(p['started'])} {cf.nat(p['ai'])} {cf.nat(p['si'])})"


def coq_acfg(case):
    cfg = f"(mkcfg {cf.z(case['mss'])} {cf.z(case['size'] or 0)} {coq_alg(case['alg'])})"
    fin = "None" if case["finish"] is None else f"(Some {cf.q(case['finish'])})"
    arr = "None" if case["arr"] is None else f"(Some ({cf.lst([cf.q(x) for x in case['arr']])}, {cf.q(case['arr_default'])}))"
    siz = "None" if case["siz"] is None else f"(Some ({cf.lst([cf.z(x) for x in case['siz']])}, {cf.z(case['siz_default'])}))"
    return f"(mkacfg {cfg} {cf.q(case['start'])} {fin} {arr} {siz})"


def coq_aevent(e):
    ev = e["ev"]
    if ev[0] == "wake":
        return f"(AWake {cf.q(e['t'])})"
    if ev[0] == "appwake":
        return f"(AAppWake {cf.q(e['t'])})"
    return f"(AEv {coq_event(e, e['post'])})"


def coq_aentry(e):
    tx = cf.lst([cf.pair(cf.z(t[0]), cf.z(t[1])) for t in e["tx"]])
    return f"(mkaentry {coq_aevent(e)} {tx} {coq_state(e['post'])} {coq_app(e['post'])} {coq_err(e['raised'])})"


def coq_entry(e):
    tx = cf.lst([cf.pair(cf.z(t[0]), cf.z(t[1])) for t in e["tx"]])
    return f"(mkentry {coq_event(e, e['post'])} {tx} {coq_state(e['post'])} {coq_err(e['raised'])})"


# ------------------------------------------------------------------------------------------------
# scripted histories against the sender alone (C17; also the sender part of C16)

LATT = 64          # the driver's clock and the RTT samples live on the lattice k/64


def lattice(x):
    """round a positive rational up to the lattice"""
    f = fr(x) * LATT
    n = f.numerator // f.denominator
    if n * f.denominator != f.numerator:
        n += 1
    return F(max(n, 0), LATT)


def run_sender_case(case):
    """drive the real sender with case['script']; returns the observation (init, entries, raised)"""
    from onl.sim import Environment
    from onl.packet import Packet
    from vlib.framework import CaseTimeout
    env = Environment()
    log = SenderLog(env, cap=case.get("max_events", 250))
    s = build_sender(env, case, log)
    mss = case["mss"]
    raised = None
    truncated = False
    now = F(0)

    def advance(dt):
        nonlocal now, raised
        if dt <= 0:
            return True
        now = now + dt
        try:
            env.run(until=float(now))
        except CaseTimeout:
            raise
        except Exception as e:           # an exception escaping the simulation: the run is over
            if log.cur is not None:
                log.end(raised=e)
            raised = canon_exc(e)
            return False
        return True

    def put_ack(ackno, pid, sample):
        nonlocal raised
        sample = min(fr(sample), now)
        a = Packet(float(now - sample), 40, pid, flow_id=10003)
        a.ack = ackno
        log.begin(["ack", ackno, pid, qj(F(env.now) - F(a.time))])
        try:
            s.put(a)
        except CaseTimeout:
            raise
        except Exception as e:
            log.end(raised=e)
            raised = canon_exc(e)
            return False
        log.end()
        return True

    try:
        _run_script(case, s, mss, advance, put_ack)
    except TooLong:
        truncated = True
        log.cur = None
    return {"init": log.init, "entries": log.entries, "raised": raised, "t_end": qj(now), "truncated": truncated}


def _run_script(case, s, mss, advance, put_ack):
    for st in case["script"]:
        k = st[0]
        if k == "wait":
            ok = advance(fr(st[1]))
        elif k == "wait_rto":            # a multiple of the RTO in force, rounded up to the lattice
            ok = advance(lattice(min(F(s.rto) * fr(st[1]), F(32))))
        elif k == "new":                 # ["new", dt, k, poff, sample, clamp]
            ok = advance(fr(st[1]))
            if ok:
                ackno = s.last_ack + st[2] * mss
                if st[5]:
                    ackno = min(ackno, max(s.next_seq, s.last_ack))
                ok = put_ack(ackno, s.last_ack + st[3] * mss, st[4])
        elif k == "dup":                 # ["dup", dt, poff, sample]
            ok = advance(fr(st[1]))
            if ok:
                ok = put_ack(s.last_ack, s.last_ack + st[2] * mss, st[3])
        elif k == "raw":                 # ["raw", dt, ackno, pid, sample]
            ok = advance(fr(st[1]))
            if ok:
                ok = put_ack(st[2], st[3], st[4])
        else:
            raise ValueError(st)
        if not ok:
            break


# ------------------------------------------------------------------------------------------------
# closed loop (C16): real sender <-> real TCPSink through two real Wires and harness droppers


class Dropper:
    """forwards packets to `out` except those whose transmission index (0-based, per direction) is in `drops`"""

    def __init__(self, env, drops, rec):
        self.env = env
        self.drops = set(drops)
        self.rec = rec          # list of [index, packet_id, ack, time, dropped]
        self.n = 0
        self.out = None

    def put(self, p):
        i = self.n
        self.n += 1
        dropped = i in self.drops
        self.rec.append([i, p.packet_id, getattr(p, "ack", 0), qj(self.env.now), dropped])
        if not dropped:
            self.out.put(p)


class AckTap:
    """wire2.out: hands the ACK to the real sender.put inside a recorded `ack` event"""

    def __init__(self, env, log):
        self.env = env
        self.log = log
        self.sender = None

    def put(self, a):
        self.log.begin(["ack", a.ack, a.packet_id, qj(F(self.env.now) - F(a.time))])
        try:
            self.sender.put(a)
        except Exception as e:
            self.log.end(raised=e)
            raise
        self.log.end()


def run_loop_case(case):
    """case: alg, mss, cwnd, ssth, rtt0, nseg, delay (one way, 'n/d'), drop_data [idx], drop_ack [idx], t_max"""
    from vlib.framework import CaseTimeout
    from onl.sim import Environment
    from onl.netdev.wire import Wire
    from onl.packet.tcp_sink import TCPSink
    env = Environment()
    log = SenderLog(env, cap=case.get("max_events", 600))
    d = float(fr(case["delay"]))
    data_rec, ack_rec = [], []
    drop1 = Dropper(env, case["drop_data"], data_rec)
    drop2 = Dropper(env, case["drop_ack"], ack_rec)
    wire1 = Wire(env, lambda: d)
    wire2 = Wire(env, lambda: d)
    sink = TCPSink(env)
    tap = AckTap(env, log)
    s = build_sender(env, case, log, out=drop1)
    tap.sender = s
    drop1.out = wire1
    wire1.out = sink
    sink.out = drop2
    drop2.out = wire2
    wire2.out = tap
    raised = None
    truncated = False
    t_max = float(fr(case.get("t_max", "4096/1")))
    try:
        env.run(until=t_max)
    except CaseTimeout:
        raise
    except TooLong:
        truncated = True
        log.cur = None
    except Exception as e:
        if log.cur is not None:
            log.end(raised=e)
        raised = canon_exc(e)
    quiescent = (raised is None and not truncated and env.peek() == float("inf"))
    return {"init": log.init, "entries": log.entries, "raised": raised, "truncated": truncated, "quiescent": quiescent,
            "t_end": qj(env.now), "data": data_rec, "acks": ack_rec,
            "sink_buffer": [list(r) for r in sink.recv_buffer], "sink_nse": sink.next_seq_expected,
            "la": s.last_ack, "ns": s.next_seq, "timers_left": sorted(s.timers), "sent_left": sorted(s.sent_packets),
            "fin": bool(s._finished)}


# ------------------------------------------------------------------------------------------------
# second tie (DESIGN 2.6): fail-closed translation of the CongestionControl method bodies into
# coq/Gen/Extracted_cc.v.  Whitelisted subset: `self.x = e`, `self.x += e`, one-level if/else on a
# comparison, expressions over self.mss / self.cwnd / self.ssthresh, integer constants, + - * /, max, min.


class TranslatorError(Exception):
    pass


CC_FIELDS = ("mss", "cwnd", "ssthresh")
CC_METHODS = [("CongestionControl", "timer_expired"), ("CongestionControl", "dupack_over"),
              ("CongestionControl", "consecutive_dupacks_received"), ("CongestionControl", "more_dupacks_received"),
              ("TCPReno", "ack_received")]


def _tr_expr(e, st):
    import ast
    if isinstance(e, ast.Attribute) and isinstance(e.value, ast.Name) and e.value.id == "self" and e.attr in CC_FIELDS:
        return f"(x_{e.attr} {st})"
    if isinstance(e, ast.Constant) and isinstance(e.value, int) and not isinstance(e.value, bool):
        return f"(({e.value})%Z # 1)"
    if isinstance(e, ast.BinOp) and type(e.op) in (ast.Add, ast.Sub, ast.Mult, ast.Div):
        op = {ast.Add: "+", ast.Sub: "-", ast.Mult: "*", ast.Div: "/"}[type(e.op)]
        return f"({_tr_expr(e.left, st)} {op} {_tr_expr(e.right, st)})%Q"
    if isinstance(e, ast.Call) and isinstance(e.func, ast.Name) and e.func.id in ("max", "min") and len(e.args) == 2 and not e.keywords:
        a, b = _tr_expr(e.args[0], st), _tr_expr(e.args[1], st)
        if e.func.id == "max":          # Python: b if b > a else a
            return f"(if Qle_bool {b} {a} then {a} else {b})"
        return f"(if Qle_bool {a} {b} then {a} else {b})"   # min: b if b < a else a
    raise TranslatorError("expression outside the translated subset: " + ast.dump(e)[:120])


def _tr_cond(t, st):
    import ast
    if isinstance(t, ast.Compare) and len(t.ops) == 1 and len(t.comparators) == 1:
        a, b = _tr_expr(t.left, st), _tr_expr(t.comparators[0], st)
        op = type(t.ops[0])
        if op is ast.LtE:
            return f"Qle_bool {a} {b}"
        if op is ast.GtE:
            return f"Qle_bool {b} {a}"
        if op is ast.Lt:
            return f"negb (Qle_bool {b} {a})"
        if op is ast.Gt:
            return f"negb (Qle_bool {a} {b})"
    raise TranslatorError("condition outside the translated subset: " + ast.dump(t)[:120])


def _tr_block(stmts, depth=0):
    """returns a Coq expression of type ccst with free variable s"""
    import ast
    if not stmts:
        return "s"
    st, rest = stmts[0], stmts[1:]
    if isinstance(st, ast.Expr) and isinstance(st.value, ast.Constant) and isinstance(st.value.value, str):
        return _tr_block(rest, depth)
    if isinstance(st, ast.Pass):
        return _tr_block(rest, depth)
    if isinstance(st, (ast.Assign, ast.AugAssign)):
        tgt = st.targets[0] if isinstance(st, ast.Assign) else st.target
        if isinstance(st, ast.Assign) and len(st.targets) != 1:
            raise TranslatorError("multiple assignment targets")
        if not (isinstance(tgt, ast.Attribute) and isinstance(tgt.value, ast.Name) and tgt.value.id == "self"
                and tgt.attr in ("cwnd", "ssthresh")):
            raise TranslatorError("assignment target outside the translated subset: " + ast.dump(tgt)[:120])
        val = _tr_expr(st.value, "s")
        if isinstance(st, ast.AugAssign):
            if not isinstance(st.op, ast.Add):
                raise TranslatorError("augmented assignment other than +=")
            val = f"((x_{tgt.attr} s) + {val})%Q"
        return f"(let s := set_{tgt.attr} s {val} in {_tr_block(rest, depth)})"
    if isinstance(st, ast.If) and depth == 0:
        c = _tr_cond(st.test, "s")
        return f"(let s := (if {c} then {_tr_block(st.body, 1)} else {_tr_block(st.orelse, 1)}) in {_tr_block(rest, depth)})"
    raise TranslatorError("statement outside the translated subset: " + ast.dump(st)[:120])


def translate_cc(repo):
    """Coq source of Gen/Extracted_cc.v for the tcp_generator.py of `repo`"""
    import ast
    import os
    path = os.path.join(repo, "onl", "packet", "tcp_generator.py")
    tree = ast.parse(open(path).read())
    classes = {n.name: n for n in tree.body if isinstance(n, ast.ClassDef)}
    out = ["(* GENERATED by props/tcp_common.py:translate_cc from onl/packet/tcp_generator.py -- do not edit.",
           "   Bodies of the CongestionControl methods, statement by statement. *)",
           "From Coq Require Import ZArith QArith.",
           "Record ccst := mkcc { x_mss : Q; x_cwnd : Q; x_ssthresh : Q }.",
           "Definition set_cwnd (s : ccst) (v : Q) : ccst := mkcc (x_mss s) v (x_ssthresh s).",
           "Definition set_ssthresh (s : ccst) (v : Q) : ccst := mkcc (x_mss s) (x_cwnd s) v."]
    for cname, mname in CC_METHODS:
        if cname not in classes:
            raise TranslatorError(f"class {cname} not found")
        fns = [n for n in classes[cname].body if isinstance(n, ast.FunctionDef) and n.name == mname]
        if len(fns) != 1:
            raise TranslatorError(f"{cname}.{mname} not found exactly once")
        fn = fns[0]
        if fn.decorator_list:
            raise TranslatorError(f"{cname}.{mname} is decorated")
        out.append(f"Definition g_{cname}_{mname} (s : ccst) : ccst := {_tr_block(fn.body)}.")
    return "\n".join(out) + "\n"


def write_extracted_cc(repo, verif):
    import os
    src = translate_cc(repo) + translate_cubic(repo)
    d = os.path.join(verif, "coq", "Gen")
    os.makedirs(d, exist_ok=True)
    p = os.path.join(d, "Extracted_cc.v")
    old = open(p).read() if os.path.exists(p) else None
    if old != src:
        with open(p, "w") as fh:
            fh.write(src)
    return p


# ---- translation of the TCPCubic methods (same file Gen/Extracted_cc.v, second part) ---------------
# Larger subset: fields of the CUBIC state, parameters and local variables, nested if / if without else,
# `self.m(args)` statements for translated methods, `x ** 3` (integer exponent: repeated multiplication).
# Any other `**` makes the enclosing statement -- hence that branch -- the explicit result None
# ("unmodelled").  Functions return `option cubst`.

CUB_FIELDS = ("mss", "cwnd", "ssthresh", "W_last_max", "epoch_start", "origin_point", "d_min", "W_tcp", "K",
              "ack_cnt", "cnt", "cwnd_cnt", "beta", "C")
CUB_METHODS = ["cubic_reset", "cubic_tcp_friendliness", "cubic_update", "timer_expired", "ack_received"]
CUB_BOOL_CONSTS = ("tcp_friendliness",)


class Unmodelled(Exception):
    pass


def _cq(v):
    f = F(repr(v)) if isinstance(v, float) else F(v)
    return f"(({f.numerator})%Z # {f.denominator})"


def _cx_expr(e, env):
    import ast
    if isinstance(e, ast.Attribute) and isinstance(e.value, ast.Name) and e.value.id == "self" and e.attr in CUB_FIELDS:
        return f"(y_{e.attr} s)"
    if isinstance(e, ast.Name) and e.id in env:
        return f"v_{e.id}"
    if isinstance(e, ast.Constant) and isinstance(e.value, (int, float)) and not isinstance(e.value, bool):
        return _cq(e.value)
    if isinstance(e, ast.BinOp) and isinstance(e.op, ast.Pow):
        if isinstance(e.right, ast.Constant) and isinstance(e.right.value, int) and not isinstance(e.right.value, bool) and e.right.value == 3:
            b = _cx_expr(e.left, env)
            return f"(({b} * {b}) * {b})%Q"
        raise Unmodelled("power with a non-integer exponent")
    if isinstance(e, ast.BinOp) and type(e.op) in (ast.Add, ast.Sub, ast.Mult, ast.Div):
        op = {ast.Add: "+", ast.Sub: "-", ast.Mult: "*", ast.Div: "/"}[type(e.op)]
        return f"({_cx_expr(e.left, env)} {op} {_cx_expr(e.right, env)})%Q"
    if isinstance(e, ast.Call) and isinstance(e.func, ast.Name) and e.func.id in ("max", "min") and len(e.args) == 2 and not e.keywords:
        a, b = _cx_expr(e.args[0], env), _cx_expr(e.args[1], env)
        if e.func.id == "max":
            return f"(if Qle_bool {b} {a} then {a} else {b})"
        return f"(if Qle_bool {a} {b} then {a} else {b})"
    raise TranslatorError("CUBIC expression outside the translated subset: " + ast.dump(e)[:120])


def _cx_cond(t, env):
    import ast
    if isinstance(t, ast.Attribute) and isinstance(t.value, ast.Name) and t.value.id == "self" and t.attr in CUB_BOOL_CONSTS:
        return f"g_cubic_init_{t.attr}"
    if isinstance(t, ast.Compare) and len(t.ops) == 1 and len(t.comparators) == 1:
        a, b = _cx_expr(t.left, env), _cx_expr(t.comparators[0], env)
        op = type(t.ops[0])
        if op is ast.LtE:
            return f"Qle_bool {a} {b}"
        if op is ast.GtE:
            return f"Qle_bool {b} {a}"
        if op is ast.Lt:
            return f"negb (Qle_bool {b} {a})"
        if op is ast.Gt:
            return f"negb (Qle_bool {a} {b})"
    raise TranslatorError("CUBIC condition outside the translated subset: " + ast.dump(t)[:120])


def _cx_block(stmts, env, methods):
    """Coq expression of type option cubst with free variable s (and the v_ locals in env)"""
    import ast
    if not stmts:
        return "Some s"
    st, rest = stmts[0], stmts[1:]
    if isinstance(st, ast.Expr) and isinstance(st.value, ast.Constant) and isinstance(st.value.value, str):
        return _cx_block(rest, env, methods)
    if isinstance(st, ast.Pass):
        return _cx_block(rest, env, methods)
    try:
        if isinstance(st, (ast.Assign, ast.AugAssign)):
            tgt = st.targets[0] if isinstance(st, ast.Assign) else st.target
            if isinstance(st, ast.Assign) and len(st.targets) != 1:
                raise TranslatorError("multiple assignment targets")
            if isinstance(tgt, ast.Name) and isinstance(st, ast.Assign):
                val = _cx_expr(st.value, env)
                return f"(let v_{tgt.id} := {val} in {_cx_block(rest, env | {tgt.id}, methods)})"
            if not (isinstance(tgt, ast.Attribute) and isinstance(tgt.value, ast.Name) and tgt.value.id == "self"
                    and tgt.attr in CUB_FIELDS and tgt.attr not in ("mss", "beta", "C")):
                raise TranslatorError("CUBIC assignment target outside the translated subset: " + ast.dump(tgt)[:120])
            val = _cx_expr(st.value, env)
            if isinstance(st, ast.AugAssign):
                if not isinstance(st.op, ast.Add):
                    raise TranslatorError("augmented assignment other than +=")
                val = f"((y_{tgt.attr} s) + {val})%Q"
            return f"(let s := sety_{tgt.attr} s {val} in {_cx_block(rest, env, methods)})"
        if isinstance(st, ast.Expr) and isinstance(st.value, ast.Call) and isinstance(st.value.func, ast.Attribute) \
                and isinstance(st.value.func.value, ast.Name) and st.value.func.value.id == "self" \
                and st.value.func.attr in methods and not st.value.keywords:
            args = " ".join(_cx_expr(a, env) for a in st.value.args)
            return (f"(match g_TCPCubic_{st.value.func.attr} s {args} with Some s => {_cx_block(rest, env, methods)} | None => None end)")
        if isinstance(st, ast.If):
            c = _cx_cond(st.test, env)
            return (f"(match (if {c} then {_cx_block(st.body, env, methods)} else {_cx_block(st.orelse, env, methods)}) with "
                    f"Some s => {_cx_block(rest, env, methods)} | None => None end)")
    except Unmodelled:
        return "None"
    raise TranslatorError("CUBIC statement outside the translated subset: " + ast.dump(st)[:120])


def translate_cubic(repo):
    import ast
    import os
    path = os.path.join(repo, "onl", "packet", "tcp_generator.py")
    tree = ast.parse(open(path).read())
    classes = {n.name: n for n in tree.body if isinstance(n, ast.ClassDef)}
    if "TCPCubic" not in classes:
        raise TranslatorError("class TCPCubic not found")
    cls = classes["TCPCubic"]
    fns = {n.name: n for n in cls.body if isinstance(n, ast.FunctionDef)}
    # constants assigned in __init__
    consts = {}
    for st in fns["__init__"].body:
        if isinstance(st, (ast.Assign, ast.AnnAssign)):
            tgt = st.targets[0] if isinstance(st, ast.Assign) else st.target
            if isinstance(tgt, ast.Attribute) and isinstance(tgt.value, ast.Name) and tgt.value.id == "self" \
                    and isinstance(st.value, ast.Constant):
                consts[tgt.attr] = st.value.value
    for k in ("beta", "C", "tcp_friendliness"):
        if k not in consts:
            raise TranslatorError(f"TCPCubic.__init__ does not assign a constant to self.{k}")
    out = ["", "(* ---- TCPCubic ---- *)", "From Coq Require Import Bool.",
           "Record cubst := mkgc { " + "; ".join(f"y_{f} : Q" for f in CUB_FIELDS) + " }."]
    for f in CUB_FIELDS:
        args = " ".join("v" if g == f else f"(y_{g} s)" for g in CUB_FIELDS)
        out.append(f"Definition sety_{f} (s : cubst) (v : Q) : cubst := mkgc {args}.")
    out.append(f"Definition g_cubic_init_beta : Q := {_cq(consts['beta'])}.")
    out.append(f"Definition g_cubic_init_C : Q := {_cq(consts['C'])}.")
    if not isinstance(consts["tcp_friendliness"], bool):
        raise TranslatorError("self.tcp_friendliness is not a boolean constant")
    out.append(f"Definition g_cubic_init_tcp_friendliness : bool := {'true' if consts['tcp_friendliness'] else 'false'}.")
    done = []
    for mname in CUB_METHODS:
        if mname not in fns:
            raise TranslatorError(f"TCPCubic.{mname} not found")
        fn = fns[mname]
        if fn.decorator_list or fn.args.vararg or fn.args.kwarg or fn.args.kwonlyargs:
            raise TranslatorError(f"TCPCubic.{mname}: unsupported signature")
        params = [a.arg for a in fn.args.args][1:]
        ptxt = "".join(f" (v_{p} : Q)" for p in params)
        out.append(f"Definition g_TCPCubic_{mname} (s : cubst){ptxt} : option cubst := {_cx_block(fn.body, set(params), tuple(done))}.")
        done.append(mname)
    return "\n".join(out) + "\n"
