"""Part 'drr' -- the deficit round robin scheduler DRR (onl/scheduler/drr.py on top of onl/scheduler/base.py).
Serves C15 (quantum, visit rule, credit bounds, long-run fairness), C12 (work-conserving, one at a time, rate-exact,
back-to-back, per-flow FIFO, exactly once, counters) and C08 (conservation).

Model: coq/Elem/DRR.v (standalone executable automaton: put(), per-class FIFO stores, wake-up token store, per-flow
counters, per-class count, deficit, head_of_line, the control state of run() and the send_packet child).

Case:  {"kind": "drr", "rate": int, "weights": [[class, weight], ...] (declaration order), "f2c": [[flow, class], ...]
        (every configured flow; identity when flow == class), "workload": elem_common workload,
        "pre": [bool per driver] (driver created before the scheduler)}
Log -> actions:  put -> DPut p;  Initialize run -> DInit;  StorePut of the token store / of the store of class c ->
        DStoreCb None / (Some c);  StoreGet of the token store / of store c -> DGetDone None / (Some c);
        Initialize send_packet -> DChildInit;  Timeout send_packet -> DChildTimer;  Process(send_packet) -> DChildEnd;
        clock -> DAdvance t.
"""
from fractions import Fraction

from vlib import coqfmt as cf
from props import elem_common as ec

HORIZON = 1 << 14
MINQ = 1500


class DRRHarness(ec.Harness):
    """names the kernel Stores of the scheduler(s) (created lazily by a defaultdict) when their events are processed;
    with several instances every name carries the instance's tag"""
    insts = ()          # [(tag, scheduler)]

    def classify(self, ev):
        res = getattr(ev, "resource", None)
        if res is not None:
            tn = type(ev).__name__
            for tag, s in self.insts:
                if res is s.packets_available:
                    return [tn, "tok" + tag]
                for k, st in list(s.stores.items()):
                    if st is res:
                        return [tn, "s:%d%s" % (k, tag)]
        return super().classify(ev)


class LazyTarget:
    """put() goes to an instance that may not exist yet when the driver process is created"""

    def __init__(self, insts, i):
        self.insts, self.i = insts, i

    def put(self, p):
        return self.insts[self.i].put(p)


def classes_of(case):
    return [c for c, _ in case["weights"]]


def flows_of(case):
    return sorted({f for f, _ in case["f2c"]})


def f2c_of(case):
    return {f: c for f, c in case["f2c"]}


def quantum_of(case):
    mw = min(w for _, w in case["weights"])
    return {c: Fraction(MINQ * w, mw) for c, w in case["weights"]}


def is_identity(case):
    return all(f == c for f, c in case["f2c"])


SIZESETS = [
    (64, 128, 256, 512),
    (64, 256, 1024, 1536, 2048),
    (512, 1536, 3072, 4096),
    (64, 1500, 1501, 2999, 3000, 4000),
    (1000, 1500, 2000, 3000, 4000),
    (1536,),
    (64, 4096),
    (100, 700, 1500, 2300, 3100),
]


def shift_uids(w, off):
    pk = {str(int(u) + off): sp for u, sp in w["packets"].items()}
    dr = [{"late": d["late"], "bursts": [[t, [u + off for u in uids]] for t, uids in d["bursts"]]} for d in w["drivers"]]
    return {"packets": pk, "drivers": dr}


FLOAT_RATES = [8000, 9600, 10000, 56000, 12000]
FLOAT_SIZES = (43, 51, 59, 71, 100, 700, 1500, 1501)


def gen_case(rng, tier, prop_id):
    r = rng.random()
    if r < 0.15:
        return gen_case2(rng, tier, prop_id)
    if r < 0.23:
        return gen_case1(rng, tier, prop_id, floatmode=True)
    return gen_case1(rng, tier, prop_id)


def gen_case2(rng, tier, prop_id):
    """two DRR instances alive and busy at the same time in ONE Environment (two ports of a switch): same or different
    weight tables, at least one shared class id, interleaved workloads"""
    a = gen_case1(rng, tier, prop_id, n_max=rng.choice([6, 10, 14]))
    b = gen_case1(rng, tier, prop_id, n_max=rng.choice([6, 10, 14]))
    r = rng.random()
    if r < 0.45:                       # same table, same mapping
        b["weights"], b["f2c"] = [list(x) for x in a["weights"]], [list(x) for x in a["f2c"]]
    elif r < 0.75:                     # same class ids, other weights / order
        ws = [[c, rng.choice([1, 2, 3, 4])] for c, _ in a["weights"]]
        rng.shuffle(ws)
        b["weights"], b["f2c"] = ws, [list(x) for x in a["f2c"]]
    else:                              # another table that shares at least one class id
        ca = [c for c, _ in a["weights"]]
        cb = [c for c, _ in b["weights"]]
        if not set(ca) & set(cb):
            old, new = cb[0], rng.choice(ca)
            b["weights"] = [[new if c == old else c, w] for c, w in b["weights"]]
            b["f2c"] = sorted([f, new if c == old else c] for f, c in b["f2c"])
    if b["f2c"] is not None:
        flows = sorted({f for f, _ in b["f2c"]})
        pk = b["workload"]["packets"]
        for sp in pk.values():
            if sp["flow"] not in flows:
                sp["flow"] = rng.choice(flows)
    b["workload"] = shift_uids(b["workload"], 100)
    if rng.random() < 0.5:
        b["rate"] = a["rate"]
    return {"kind": "drr2", "insts": [a, b]}


def gen_case1(rng, tier, prop_id, n_max=None, floatmode=False):
    ncl = rng.choice([1, 2, 2, 3, 3, 4])
    cls = rng.sample(range(0, 6), ncl)
    weights = [[c, rng.choice([1, 1, 2, 2, 3, 4])] for c in cls]
    r = rng.random()
    if r < 0.55:
        f2c = [[c, c] for c in cls]
    else:
        # several flows share a class; flow ids disjoint from or overlapping with class ids
        f2c = []
        pool = list(range(10, 22)) if rng.random() < 0.6 else list(range(0, 12))
        rng.shuffle(pool)
        for c in cls:
            k = rng.choice([1, 2, 2, 3])
            for _ in range(k):
                f = pool.pop()
                f2c.append([f, c])
        f2c.sort()
    flows = tuple(sorted({f for f, _ in f2c}))
    rate = rng.choice([2048, 4096, 8192, 8192, 16384, 65536])
    sizes = rng.choice(SIZESETS)
    w = ec.gen_workload(rng, flows=flows, n_max=n_max or rng.choice([6, 10, 16, 24]), sizes=sizes,
                        burst_p=rng.choice([0.35, 0.6, 0.85]), horizon=rng.choice([8, 16, 40]))
    pre = [rng.random() < 0.3 for _ in w["drivers"]]
    case = {"kind": "drr", "rate": rate, "weights": weights, "f2c": f2c, "workload": w, "pre": pre}
    if floatmode:
        # a rate for which 8*size/rate is not a binary fraction: no exact model run; the monitors check the float law
        case["kind"] = "drrf"
        case["rate"] = rng.choice(FLOAT_RATES)
        for sp in w["packets"].values():
            sp["size"] = rng.choice(FLOAT_SIZES)
    if rng.random() < (0.3 if floatmode else 0.15):
        # late configuration: the object is built with other values of the public attributes the code reads at every
        # use, and they are assigned before any traffic (link re-configured while idle)
        other = [x for x in ([2048, 4096, 8192, 16384, 65536] + FLOAT_RATES) if x != case["rate"]]
        case["late"] = {"rate": rng.choice(other), "f2c": rng.random() < 0.5}
    return case


def run_impl(case):
    if case["kind"] == "drr2":
        obs = run_many(case["insts"])
        return {"multi": obs[:-1], "interfere": obs[-1], "raised": obs[0]["raised"], "exhausted": obs[0]["exhausted"]}
    return run_many([case])[0]


def run_many(cases):
    """run one or several DRR instances in ONE Environment; returns one observation per instance (the global clock
    advances and its own put/step entries, sampled on its own public state) and, for several, the interference notes"""
    import contextlib
    import io
    from onl.sim import Environment
    from onl.scheduler.drr import DRR
    env = Environment()
    h = DRRHarness(env)
    n = len(cases)
    tags = [""] if n == 1 else ["A", "B", "C"][:n]
    owner = {}
    insts = []
    samplers = []
    for i, c in enumerate(cases):
        h.add_packets(c["workload"]["packets"])
        for u in c["workload"]["packets"]:
            owner[int(u)] = i
    pres = [c.get("pre") or [False] * len(c["workload"]["drivers"]) for c in cases]
    for i, c in enumerate(cases):
        for d, p in zip(c["workload"]["drivers"], pres[i]):
            if p:
                h.add_driver(d["bursts"], late=d["late"], target=LazyTarget(insts, i))

    def make(i, c):
        cls = classes_of(c)
        flows = flows_of(c)
        tbl = f2c_of(c)
        late = c.get("late") or {}
        rate0 = late.get("rate", c["rate"])
        if (is_identity(c) and c.get("default_f2c", True)) or late.get("f2c"):
            s = DRR(env, rate0, {k: wt for k, wt in c["weights"]})
        else:
            s = DRR(env, rate0, {k: wt for k, wt in c["weights"]}, flow2class=lambda f: tbl.get(f, f))
        if late:
            # public attributes the code reads at every use, assigned after construction and before any traffic
            s.rate = c["rate"]
            if late.get("f2c") and not is_identity(c):
                s.flow2class = lambda f: tbl.get(f, f)
        tap = h.tap("out" + tags[i])
        _tap_put = tap.put

        s_ref = []

        def put_and_read(p, _tap_put=_tap_put):
            # what the scheduler advertises at the very moment it hands the packet on: a next hop that reads the
            # counters inside its own put() sees exactly this
            sch = s_ref[0]
            at = [[[f, sch.queue_count.get(f, 0), sch.queue_byte_size.get(f, 0)] for f in flows], sch.total_packets,
                  [[k, sch.class_count.get(k, 0)] for k in cls] if hasattr(sch, "class_count") else []]
            _tap_put(p)
            if h.cur_outs:
                h.cur_outs[-1].append(["at-forward"] + at)
        tap.put = put_and_read
        s_ref.append(s)
        s.out = tap
        if tags[i]:
            s.proc._generator.__name__ = "run" + tags[i]
            orig = s.send_packet

            def send_packet(packet, orig=orig, tag=tags[i]):
                g = orig(packet)
                g.__name__ = "send_packet" + tag
                return g
            s.send_packet = send_packet

        def sample():
            cur = s.current_packet
            return [[[k, ec.qs(s.deficit[k])] for k in cls],
                    [[f, s.queue_count.get(f, 0), s.queue_byte_size.get(f, 0)] for f in flows],
                    [[k, getattr(s.head_of_line[k], "uid", -1) if k in s.head_of_line else None] for k in cls],
                    None if cur is None else getattr(cur, "uid", -1),
                    [[k, len(s.stores[k].items) if k in s.stores else 0] for k in cls],
                    len(s.packets_available.items), s.packets_received, s.total_packets]
        insts.append(s)
        samplers.append(sample)

    sink = io.StringIO()
    with contextlib.redirect_stdout(sink):
        for i, c in enumerate(cases):
            make(i, c)
        h.insts = list(zip(tags, insts))
        h.attach(insts[0])
        h.after_action(lambda: [f() for f in samplers])
        for i, c in enumerate(cases):
            for d, p in zip(c["workload"]["drivers"], pres[i]):
                if not p:
                    h.add_driver(d["bursts"], late=d["late"], target=insts[i])
        log = h.run(max_steps=40000, until=HORIZON)
    logs = [[] for _ in range(n)]
    interfere = []
    prev = None
    for e in log:
        k = e[0]
        samples = e[-1]
        who = None
        if k == "adv":
            for i in range(n):
                logs[i].append(["adv", e[1], samples[i]])
        elif k == "put":
            who = owner[e[1]]
            for o in e[2]:
                o[1] = "out"
            logs[who].append(["put", e[1], e[2], samples[who]])
        elif k in ("step", "raise"):
            tgt = e[1][1] if e[1] else ""
            who = 0
            if n > 1:
                who = next((i for i in range(n) if tgt.endswith(tags[i])), None)
                if who is None:
                    interfere.append(f"instances-interfere: kernel step {e[1]} cannot be attributed to an instance")
                    who = 0
                t = tags[who]
                tgt = tgt.replace("send_packet" + t, "send_packet").replace("run" + t, "run")
                if (tgt.startswith("tok") or tgt.startswith("s:")) and tgt.endswith(t):
                    tgt = tgt[:-len(t)]
                for o in e[2]:
                    if o[1] != "out" + t:
                        interfere.append(f"instances-interfere: packet {o[2]} of instance {t} came out of tap {o[1]}")
                    elif owner.get(o[2]) != who:
                        interfere.append(f"instances-interfere: packet {o[2]} put into instance {tags[owner.get(o[2], 0)]} left instance {t}")
            for o in e[2]:
                o[1] = "out"
            entry = [k, [e[1][0], tgt] if e[1] else e[1], e[2]] + ([e[3]] if k == "raise" else []) + [samples[who]]
            logs[who].append(entry)
        if prev is not None and n > 1 and len(interfere) < 2:
            for i in range(n):
                if i != who and samples[i] != prev[i]:
                    what = [nm for nm, x, y in zip(SAMPLE_FIELDS, prev[i], samples[i]) if x != y]
                    interfere.append(f"instances-interfere: a {k} action of instance {tags[who] if who is not None else '-'} "
                                     f"changed {what} of instance {tags[i]}: {[y for x, y in zip(prev[i], samples[i]) if x != y][:2]}")
        prev = samples
    out = []
    for i, (c, s) in enumerate(zip(cases, insts)):
        cls = classes_of(c)
        out.append({"log": logs[i], "raised": h.raised, "exhausted": h.exhausted,
                    "quantum": [[k, ec.qs(s.quantum[k])] for k in cls if k in s.quantum],
                    "extra_keys": sorted(k for k in s.queue_count if k not in flows_of(c)), "stdout": sink.getvalue()[:200]})
    if n > 1:
        out.append(interfere[:2])
    return out


SAMPLE_FIELDS = ["deficit", "queue_count/queue_byte_size", "head_of_line", "current_packet", "len(stores[c].items)",
                 "len(packets_available.items)", "packets_received", "total_packets"]


# ---- log -> model actions ----------------------------------------------------------------------------
def cfg_term(case):
    ws = cf.lst([cf.pair(cf.z(c), cf.z(w)) for c, w in case["weights"]])
    tb = cf.lst([cf.pair(cf.z(f), cf.z(c)) for f, c in case["f2c"]])
    return f"{{| drate := {cf.q(case['rate'])}; dweights := {ws}; df2c := dtbl {tb} |}}"


def at_forward(outs):
    """the counters sampled by the tap while out.put() ran, or None"""
    for o in outs:
        if o and o[0] == "out" and isinstance(o[-1], list) and o[-1] and o[-1][0] == "at-forward":
            return o[-1][1:]
    return None


def fwd_term(at):
    if at is None:
        return "None"
    fl, tot, cc = at
    return ("(Some (" + cf.lst([cf.pair(cf.z(f), cf.pair(cf.z(n), cf.z(b))) for f, n, b in fl]) + ", " + cf.z(tot) + ", "
            + cf.lst([cf.pair(cf.z(k), cf.z(n)) for k, n in cc]) + "))")


def obs_term(sample, at=None):
    dfc, fl, hol, cur, lens, tok, recv, total = sample
    return ("(mkdobs " + cf.lst([cf.pair(cf.z(c), cf.q(v)) for c, v in dfc]) + " "
            + cf.lst([cf.pair(cf.z(f), cf.pair(cf.z(n), cf.z(b))) for f, n, b in fl]) + " "
            + cf.lst([cf.pair(cf.z(c), cf.opt(u, cf.nat)) for c, u in hol]) + " "
            + cf.opt(cur, cf.nat) + " "
            + cf.lst([cf.pair(cf.z(c), cf.nat(n)) for c, n in lens]) + " "
            + f"{cf.nat(tok)} {cf.z(recv)} {cf.z(total)} {fwd_term(at)})")


def which(tgt):
    if tgt == "tok":
        return "None"
    if tgt.startswith("s:"):
        return f"(Some {cf.z(int(tgt[2:]))})"
    return None


def actions(case, obs):
    specs = case["workload"]["packets"]
    acts = []
    for e in obs["log"]:
        kind = e[0]
        sample = e[-1]
        outs = []
        if kind == "adv":
            a = f"DAdvance {cf.q(e[1])}"
        elif kind == "put":
            a = f"DPut {ec.pkt_coq(specs[str(e[1])], e[1])}"
            outs = e[2]
        elif kind == "step":
            (tn, tgt), outs = e[1], e[2]
            if (tn, tgt) == ("Initialize", "run"):
                a = "DInit"
            elif tn == "StorePut" and which(tgt):
                a = f"DStoreCb {which(tgt)}"
            elif tn == "StoreGet" and which(tgt):
                a = f"DGetDone {which(tgt)}"
            elif (tn, tgt) == ("Initialize", "send_packet"):
                a = "DChildInit"
            elif (tn, tgt) == ("Timeout", "send_packet"):
                a = "DChildTimer"
            elif (tn, tgt) == ("Process", "end:send_packet>run"):
                a = "DChildEnd"
            else:
                return None, f"unexpected kernel step {e[1]}"
        else:
            return None, f"unexpected log entry {e[:2]}"
        o = cf.lst([ec.pkt_coq(specs[str(x[2])], x[2]) for x in outs])
        if outs and at_forward(outs) is None:
            return None, "a forwarded packet without the tap's at-forward sample (harness)"
        acts.append(f"({a}, {o}, {obs_term(sample, at_forward(outs))})")
    return acts, None


def agree_term(case, obs):
    if case["kind"] == "drr2":
        if obs["interfere"]:
            return "false (* instances interfere *)"
        ts = [agree_term(c, o) for c, o in zip(case["insts"], obs["multi"])]
        return "(" + ") && (".join(ts) + ")"
    if case["kind"] == "drrf":
        return None                    # 8*size/rate is not a binary fraction: outside the exact model; monitors only
    if obs["raised"]:
        return "false"
    acts, err = actions(case, obs)
    if acts is None:
        return f"false (* {err} *)"
    qt = cf.lst([cf.pair(cf.z(c), cf.q(v)) for c, v in obs["quantum"]])
    cfg = cfg_term(case)
    return (f"let cfg := {cfg} in dquantum_ok cfg {qt} && "
            f"drr_agree cfg (drr0 0) {cf.lst(acts, sep=';\n    ')}")


def model_term(case):
    return None


# ---- the properties as oracles over the implementation's behaviour ------------------------------------
class Timeline:
    """what the log shows, per action index: instant, arrivals, transmission starts/ends, samples"""

    def __init__(self, case, obs):
        self.case, self.obs = case, obs
        self.specs = case["workload"]["packets"]
        self.tbl = f2c_of(case)
        self.rows = []            # (kind, label, now, outs, sample)
        now = Fraction(0)
        self.msgs = []
        for e in obs["log"]:
            if e[0] == "adv":
                t = Fraction(e[1])
                if t < now:
                    self.msgs.append("drr-time-decreases: clock went back")
                now = t
                self.rows.append(("adv", None, now, [], e[-1]))
            elif e[0] == "put":
                self.rows.append(("put", e[1], now, e[2], e[-1]))
            elif e[0] == "step":
                self.rows.append(("step", tuple(e[1]), now, e[2], e[-1]))
            elif e[0] == "raise":
                self.rows.append(("raise", tuple(e[1]) if e[1] else None, now, e[2], e[-1]))
            else:
                self.msgs.append(f"drr-harness: stray entry {e[:2]}")

    def size(self, uid):
        return self.specs[str(uid)]["size"]

    def flow(self, uid):
        return self.specs[str(uid)]["flow"]

    def cls(self, uid):
        f = self.flow(uid)
        return self.tbl.get(f, f)


def mon_common(case, obs):
    if obs["raised"]:
        return [f"drr-raises-{obs['raised'][0]}: {obs['raised']}"]
    if not obs["exhausted"]:
        return ["drr-not-quiescent: events left beyond the horizon"]
    return []


def mon_c08(case, obs, tl=None):
    msgs = mon_common(case, obs)
    if msgs:
        return msgs
    tl = tl or Timeline(case, obs)
    msgs = list(tl.msgs)
    put, fwd = [], []
    for (kind, label, now, outs, sample) in tl.rows:
        if kind == "put":
            put.append(label)
        for o in outs:
            uid, fields, same = o[2], o[3], o[4]
            if uid not in put:
                msgs.append(f"drr-invented: forwarded a packet (uid {uid}) that was not put in before")
                continue
            if uid in fwd:
                msgs.append(f"drr-duplicate: packet {uid} forwarded twice")
            fwd.append(uid)
            sp = tl.specs[str(uid)]
            if (not same or fields[:2] != [sp["id"], sp["flow"]] or fields[2] != sp.get("src", "s") or fields[3] != sp["size"]
                    or Fraction(fields[4]) != Fraction(sp["time"]) or fields[5] != sp.get("payload")):
                msgs.append(f"drr-packet-altered: packet {uid} forwarded as {fields} same-object={same}")
        # held = put - forwarded must be what the object still accounts for
        held = len(put) - len(fwd)
        if sample is not None and sample[7] != held:
            msgs.append(f"drr-conservation: total_packets={sample[7]} but {held} packets are put in and not forwarded")
    if sorted(put) != sorted(fwd):
        msgs.append(f"drr-lost: at quiescence packets {sorted(set(put) - set(fwd))[:6]} were never forwarded")
    for f in flows_of(case):
        a = [u for u in put if tl.flow(u) == f]
        b = [u for u in fwd if tl.flow(u) == f]
        if b != a[:len(b)]:
            msgs.append(f"drr-flow-order: flow {f} left as {b[:8]} but entered as {a[:8]}")
    return msgs[:3]


def mon_c12(case, obs):
    msgs = mon_common(case, obs)
    if msgs:
        return msgs
    tl = Timeline(case, obs)
    msgs = list(tl.msgs)
    rate = Fraction(case["rate"])
    floatmode = case["kind"] == "drrf"
    flows = flows_of(case)
    put, fwd = [], []
    tx = None                 # (uid, start instant) of the transmission in progress
    last_end = None
    for idx, (kind, label, now, outs, sample) in enumerate(tl.rows):
        if kind == "put":
            put.append(label)
        if kind == "adv":
            # the clock is about to leave the previous instant... checked on the row BEFORE: see below
            pass
        if kind == "step" and label == ("Initialize", "send_packet"):
            uid = sample[3]
            if tx is not None:
                msgs.append(f"drr-overlap: transmission of {uid} starts at {now} while {tx[0]} is still being transmitted")
            if uid is None:
                msgs.append("drr-start-without-packet: send_packet started but current_packet is None")
            tx = (uid, now)
        for o in outs:
            uid = o[2]
            fwd.append(uid)
            at = at_forward([o])
            if at is None:
                msgs.append(f"drr-harness: packet {uid} forwarded without the tap's at-forward sample")
            else:
                # the counters a next hop reads inside its put(): the departing packet is no longer waiting or in transmission
                for f, nq, nb in at[0]:
                    w = [u for u in put if u not in fwd and tl.flow(u) == f]
                    if nq != len(w) or nb != sum(tl.size(u) for u in w):
                        msgs.append(f"sched-counters-at-forward: while packet {uid} (flow {tl.flow(uid)}, size {tl.size(uid)}) is handed "
                                    f"on, flow {f} reports size {nq} / bytes {nb}, but packets {w[:6]} "
                                    f"({sum(tl.size(u) for u in w)} bytes) are waiting or in transmission")
                held_now = len(put) - len(fwd)
                if at[1] != held_now:
                    msgs.append(f"sched-counters-at-forward: while packet {uid} is handed on total_packets reads {at[1]}, "
                                f"{held_now} packets are waiting or in transmission")
            if tx is None or tx[0] != uid:
                msgs.append(f"drr-forward-without-transmission: packet {uid} forwarded at {now} but the transmission in progress is {tx}")
            else:
                if floatmode:
                    # the law as the floats compute it: the kernel adds the delay size*8.0/rate to the start instant
                    want = Fraction(float(tx[1]) + tl.size(uid) * 8.0 / case["rate"])
                else:
                    want = tx[1] + Fraction(8 * tl.size(uid)) / rate
                if now != want:
                    msgs.append(f"drr-tx-time: packet {uid} (size {tl.size(uid)}) started {tx[1]} ended {now}, expected {want} = start + 8*size/rate")
            tx = None
            last_end = now
        # work conservation / back-to-back: when the clock moves on, either a transmission is in progress or nothing is held
        nxt = tl.rows[idx + 1] if idx + 1 < len(tl.rows) else None
        if nxt is not None and nxt[0] == "adv":
            held = [u for u in put if u not in fwd]
            if held and tx is None:
                msgs.append(f"drr-idle-with-backlog: at {now} the clock moves on, packets {held[:6]} are waiting and nothing is being transmitted")
        # counters after every action
        if sample is not None:
            for f, n, b in sample[1]:
                w = [u for u in put if u not in fwd and tl.flow(u) == f]
                if n != len(w) or b != sum(tl.size(u) for u in w):
                    msgs.append(f"drr-counters: flow {f} reports size {n} / bytes {b}, but packets {w[:6]} "
                                f"({sum(tl.size(u) for u in w)} bytes) are waiting or in transmission")
            if sample[6] != len(put):
                msgs.append(f"drr-counters: packets_received {sample[6]} after {len(put)} puts")
            if tx is not None and sample[3] != tx[0]:
                msgs.append(f"drr-in-service: packet_in_service is {sample[3]} while {tx[0]} is being transmitted")
            if tx is None and kind == "step" and outs and sample[3] is not None:
                msgs.append(f"drr-in-service: packet_in_service is {sample[3]} right after the transmission ended")
        if len(msgs) > 6:
            break
    held = [u for u in put if u not in fwd]
    if held:
        msgs.append(f"drr-lost: at quiescence packets {held[:6]} were never transmitted")
    if len(set(fwd)) != len(fwd):
        msgs.append("drr-duplicate: a packet was transmitted twice")
    for f in flows:
        a = [u for u in put if tl.flow(u) == f]
        b = [u for u in fwd if tl.flow(u) == f]
        if b != a[:len(b)]:
            msgs.append(f"drr-flow-order: flow {f} left as {b[:8]} but entered as {a[:8]}")
    return msgs[:3]


class RefDRR:
    """The visit rule of C15 as a reference automaton.  It is told when a packet arrives, when the server process runs
    (it looks at a queue's head only through a granted get, which completes in a later kernel step), and when a
    transmission ends; it answers with the credits it expects and the packet it expects to be sent next."""

    def __init__(self, classes, quantum):
        self.classes = classes
        self.Q = quantum
        self.credit = {c: Fraction(0) for c in classes}
        self.queue = {c: [] for c in classes}      # (uid, size) waiting or in transmission
        self.known = {c: False for c in classes}   # the head has been taken out of the store and parked
        self.todo = []                              # classes still to be visited in this pass
        self.cur = None                             # class under visit
        self.wait = "init"                          # init | token | get | tx
        self.sending = None

    def arrive(self, c, uid, size):
        self.queue[c].append((uid, size))

    def _serve(self):
        """continue the visit of self.cur; returns when a get is needed, a packet is sent, or the server idles"""
        while True:
            c = self.cur
            if c is not None:
                while self.credit[c] > 0 and self.queue[c]:
                    uid, size = self.queue[c][0]
                    if not self.known[c]:
                        self.wait = "get"
                        return
                    if size <= self.credit[c]:
                        self.known[c] = False
                        self.sending = (c, uid, size)
                        self.wait = "tx"
                        return
                    break                             # parked: stays known, credit kept for the next visit
                self.cur = None
            if not self.todo:
                if not any(self.queue[k] for k in self.classes):
                    self.wait = "token"
                    return
                self.todo = list(self.classes)        # next round
            c = self.todo.pop(0)
            self.cur = c
            if self.queue[c]:
                self.credit[c] += self.Q[c]

    def start(self):                                  # the server process starts / wakes up
        self.todo, self.cur = [], None
        self._serve()

    def got(self, c):                                 # the head of class c is in the server's hands
        assert self.wait == "get" and self.cur == c
        self.known[c] = True
        self._serve()

    def sent(self):                                   # the transmission ended and the server resumes
        c, uid, size = self.sending
        self.sending = None
        assert self.queue[c][0][0] == uid
        self.queue[c].pop(0)
        self.credit[c] -= size
        if not self.queue[c]:
            self.credit[c] = Fraction(0)
        self._serve()


def mon_c15(case, obs):
    msgs = mon_common(case, obs)
    if msgs:
        return msgs
    tl = Timeline(case, obs)
    msgs = list(tl.msgs)
    cls = classes_of(case)
    Q = quantum_of(case)
    got_q = {c: Fraction(v) for c, v in obs["quantum"]}
    for c in cls:
        if got_q.get(c) != Q[c]:
            msgs.append(f"drr-quantum: quantum[{c}] = {got_q.get(c)} expected 1500*weight/min(weight) = {Q[c]}")
    if msgs:
        return msgs[:3]
    ref = RefDRR(cls, Q)
    lmax = 0
    backlog = {c: 0 for c in cls}
    sent = {c: 0 for c in cls}
    # fairness: per pair, extremes of S_i/Q_i - S_j/Q_j over the current period in which both stay backlogged
    pairs = [(i, j) for a, i in enumerate(cls) for j in cls[a + 1:]]
    ext = {}
    for idx, (kind, label, now, outs, sample) in enumerate(tl.rows):
        server = False
        if kind == "put":
            uid = label
            lmax = max(lmax, tl.size(uid))
            backlog[tl.cls(uid)] += 1
            ref.arrive(tl.cls(uid), uid, tl.size(uid))
        elif kind == "step":
            tn, tgt = label
            if (tn, tgt) == ("Initialize", "run") or (tn, tgt) == ("StoreGet", "tok"):
                ref.start()
                server = True
            elif tn == "StoreGet" and tgt.startswith("s:"):
                c = int(tgt[2:])
                if ref.wait != "get" or ref.cur != c:
                    msgs.append(f"drr-visit: the server took a packet of class {c} at {now}; by the visit rule it is "
                                f"{'visiting class %s' % ref.cur if ref.wait == 'get' else ref.wait}")
                    break
                ref.got(c)
                server = True
            elif (tn, tgt) == ("Process", "end:send_packet>run"):
                if ref.wait != "tx":
                    msgs.append(f"drr-visit: a transmission ended at {now} but by the visit rule none was due")
                    break
                ref.sent()
                server = True
            for o in outs:
                uid = o[2]
                c = tl.cls(uid)
                backlog[c] -= 1
                sent[c] += tl.size(uid)
                if ref.sending is None or ref.sending[1] != uid:
                    msgs.append(f"drr-visit: packet {uid} (class {c}) was sent at {now}; by the visit rule the packet "
                                f"to send is {ref.sending}")
                    break
        if msgs:
            break
        if sample is not None:
            for c, v in sample[0]:
                v = Fraction(v)
                if not (0 <= v < Q[c] + lmax):
                    msgs.append(f"drr-credit-bounds: deficit[{c}] = {v} outside [0, quantum {Q[c]} + largest packet {lmax})")
            if server:
                for c, v in sample[0]:
                    if Fraction(v) != ref.credit[c]:
                        msgs.append(f"drr-visit: after the server ran at {now} deficit[{c}] = {Fraction(v)}, the visit rule gives "
                                    f"{ref.credit[c]} (quantum {Q[c]}, class holds {backlog[c]})")
                if ref.wait == "tx" and sample[3] != ref.sending[1]:
                    msgs.append(f"drr-visit: at {now} the server committed to packet {sample[3]}, the visit rule sends {ref.sending[1]}")
                if ref.wait != "tx" and kind == "step" and sample[3] is not None and label[0] != "Initialize":
                    msgs.append(f"drr-visit: at {now} the server committed to packet {sample[3]}, the visit rule sends nothing yet ({ref.wait})")
            nxt = tl.rows[idx + 1] if idx + 1 < len(tl.rows) else None
            if server or (nxt is not None and nxt[0] == "adv"):
                for c, v in sample[0]:
                    if backlog[c] == 0 and Fraction(v) != 0:
                        msgs.append(f"drr-credit-kept: class {c} holds no packet at {now} but keeps credit {Fraction(v)}")
        for (i, j) in pairs:
            if backlog[i] > 0 and backlog[j] > 0:
                d = Fraction(sent[i]) / Q[i] - Fraction(sent[j]) / Q[j]
                lo, hi = ext.get((i, j), (d, d))
                lo, hi = min(lo, d), max(hi, d)
                ext[(i, j)] = (lo, hi)
                bound = 4 + 3 * lmax * (1 / Q[i] + 1 / Q[j])
                if not (hi - lo < bound):
                    msgs.append(f"drr-fairness: classes {i},{j} both backlogged, normalised service differs by {hi - lo} "
                                f">= 4 + 3*Lmax*(1/Q_i+1/Q_j) = {bound}")
            else:
                ext.pop((i, j), None)
        if len(msgs) > 4:
            break
    return msgs[:3]


def stats(case, obs):
    """(packets, flows used, max simultaneously backlogged classes at an adv, parked events, waits)"""
    tl = Timeline(case, obs)
    cls = classes_of(case)
    backlog = {c: 0 for c in cls}
    maxb = 0
    parked = 0
    waited = 0
    arr = {}
    both = 0
    for (kind, label, now, outs, sample) in tl.rows:
        if kind == "put":
            c = tl.cls(label)
            if c in backlog:
                backlog[c] += 1
            arr[label] = now
        for o in outs:
            c = tl.cls(o[2])
            if c in backlog:
                backlog[c] -= 1
        if kind == "step" and label == ("Initialize", "send_packet") and sample[3] in arr and arr[sample[3]] < now:
            waited += 1
        if sample is not None and kind == "step":
            if any(u is not None for _, u in sample[2]):
                parked += 1
            nb = sum(1 for c in cls if backlog[c] > 0)
            maxb = max(maxb, nb)
            if nb >= 2 and label == ("Process", "end:send_packet>run"):
                both += 1
    used = {tl.flow(int(u)) for u in tl.specs}
    return {"n": len(tl.specs), "flows": len(used), "maxb": maxb, "parked": parked, "waited": waited, "both": both}


# ------------------------------------------------------------------------------------------------
# second tie (DESIGN 2.6): DRR.put (with Scheduler.add_packet_to_queue translated in place) from the tree under test on
# every run (vlib/translate.py, fail closed) into coq/Gen/Extracted_drr.v; bridged to the DPut step of Elem/DRR.v by
# coq/Elem/DRRBridge.v; obligations in Props/C15_BridgeDRR.v.

DRR_STATE = [("packets_received", "Z"), ("class_count", "mapZ"), ("queue_count", "mapZ"), ("queue_byte_size", "mapZ")]
DRR_CONS = [("FxToken", ""),                          # self.packets_available.put(True)
            ("FxStorePut", "(c : Z)")]                # self.stores[c].put(packet)
DRR_FX = [("self.packets_available.put(True)", "FxToken", []),
          ("self.stores[_1].put(packet)", "FxStorePut", ["Z"])]
DRR_READS = [("self.flow2class(packet.flow_id)", "class_id", "Z"),
             ("packet.flow_id", "flow_id", "Z"),
             ("packet.size", "size", "Z"),
             ("self.total_packets", "total_packets", "Z", "stale_on:queue_count")]   # sum(self.queue_count.values())


def extracted_drr(repo):
    import os
    from vlib import translate as tr
    base = os.path.join(repo, "onl", "scheduler", "base.py")
    spec = tr.FnSpec(os.path.join(repo, "onl", "scheduler", "drr.py"), "DRR", "put", "gen_DRR_put", reads=DRR_READS,
                     effects=DRR_FX, inline=[("add_packet_to_queue", base, "Scheduler")])
    return tr.gen_module("onl/scheduler/drr.py: DRR.put, with onl/scheduler/base.py: Scheduler.add_packet_to_queue in place",
                         "drr_st", "d_", DRR_STATE, "drr_fx", DRR_CONS, [spec])


class DRRPart:
    name = "drr"
    kinds = ["drr", "drr2", "drrf"]
    serves = ["C15", "C12", "C08"]
    weight = 2
    coq_imports = ["From ONL Require Import Base.Cmp Elem.Packet Elem.StoreQ Elem.DRR."]
    props_files = {"C15": ["Props/C15_DRR.v", "Props/C15_BridgeDRR.v", "Props/C15_BridgeRunDRR.v"], "C12": ["Props/C12_DRR.v"], "C08": ["Props/C08_DRR.v"]}

    # ---- second tie: regenerate the translated body before the Coq build (fail closed) ----------------
    def pre_build(self, prop_id):
        if prop_id != "C15":
            return
        import os
        from vlib import framework as fw
        from vlib import translate as tr
        tr.write_if_changed(os.path.join(fw.COQ, "Gen", "Extracted_drr.v"), extracted_drr(fw.REPO))
        from props import sched_tie
        sched_tie.write_if_changed(fw.COQ, "Extracted_drr_run.v", sched_tie.extracted_drr_run(fw.REPO))

    _gen = ("1-4 classes with ids from 0..5 in random declaration order, weights from {1,2,3,4}; flow2class the identity "
            "(55%) or a table mapping 1-3 flows onto each class, flow ids disjoint from or overlapping with the class ids; "
            "packet sizes from sets that mix sizes below, at and above the quantum (64..4096, 1500/1501, 2999/3000); rates "
            "2^11..2^16 bit/s so that 8*size/rate is dyadic and transmission ends fall on the arrival lattice; 1-3 driver "
            "processes with bursts, idle gaps and `late` zero-delay yields, each created before or after the scheduler; "
            "kind drr2 (15%): TWO DRR instances alive and busy at the same time in one Environment (two ports of a switch) "
            "with the same table, the same class ids with other weights, or another table sharing a class id, interleaved "
            "workloads; each instance's log is replayed against its own copy of the model and an action of one instance "
            "must not change the public state (deficit, counters, stores) of the other; late configuration (15%): the "
            "object is built with another rate / the default flow2class and the public attributes `rate`, `flow2class` "
            "(like `out`, always) are assigned before any traffic; kind drrf (8%): rates 8000/9600/10000/12000/56000 with "
            "sizes such that 8*size/rate is not a binary fraction -- no model run (skipped in the correspondence), the "
            "monitors check the float law end = start + size*8.0/rate bit-exactly; the tap behind the scheduler samples the "
            "public counters inside its put() (sched-counters-at-forward), compared with the model as well")
    nontrivial_rule = {
        "C15": _gen + "; non-trivial = at least two classes were backlogged at some transmission end and some head packet "
                      "was parked as unaffordable or some class emptied and refilled; distinct by hash",
        "C12": _gen + "; non-trivial = at least 3 packets and some packet had to wait for an earlier transmission; distinct by hash",
        "C08": _gen + "; non-trivial = at least 3 packets of at least 2 flows; distinct by hash",
    }
    _tb = ["float rounding is outside the theorems: generated weights make 1500*w/min(w) an integer, rates are powers of two "
           "and times dyadic, so every float the scheduler computes (quantum, deficit, 8.0*size/rate, deadlines) is exact and "
           "compared exactly",
           "admissibility of the real kernel's interleaving for run()/send_packet is checked on every observed execution "
           "(each logged kernel step must be an enabled action of the model), not proved",
           "the model is hand-written (coq/Elem/DRR.v); it includes its own model of the base-class behaviour DRR uses "
           "(send_packet, add_packet_to_queue, total_packets, packets_available); the internal events of run() "
           "(DOPass/DOQuantum/DOSkip/DOSend/DOPark/DOEnd/DODebit) on which the visit rule and the fairness proof are stated "
           "are not observable: the correspondence compares forwarded packets and, after every action, deficit per class, "
           "queue_count/queue_byte_size per flow, head_of_line, current_packet, len(items) of every store, packets_received, "
           "total_packets"]
    _tie = ["vlib/translate.py (Python ast, fail closed; tables above the part class in props/part_drr.py) regenerates "
            "coq/Gen/Extracted_drr.v from DRR.put and Scheduler.add_packet_to_queue of the tree under test before every build; "
            "C15_gen_drr_put (Props/C15_BridgeDRR.v) bridges it to the DPut step of the hand-written model; "
            "self.total_packets (a sum over a dict) is an observation",
            "vlib/translate_gen.py (generator bodies cut at their yields and at the head of `while self.total_packets > 0`; the for loop "
            "over the classes a separate state- and effect-threading definition; the keys of head_of_line a state field; tables in "
            "props/sched_tie.py) regenerates coq/Gen/Extracted_drr_run.v from DRR.run before every build; the C15_gen_drr_run_* theorems "
            "(Props/C15_BridgeRunDRR.v, proofs Elem/DRRScanBridge.v) are simulations: from related states (deficits up to ==) the "
            "generated code and DInit / DGetDone / DChildEnd of the automaton take the same decision with the same rest of the class "
            "table and end in related states, the generated pass being iterated with fuel along dpasses; what a request / an effect "
            "does to the stores, current_packet and the child process is not part of these statements (correspondence); the assert "
            "that a packet taken from the store of a class belongs to that class is not translated"]
    trusted_base = {"C15": _tb + _tie, "C12": _tb, "C08": _tb}
    _as = ["workloads contain only packets whose flow maps to a configured class, size > 0; rate > 0; weights are positive "
           "(a packet of an unconfigured class makes put() raise KeyError at the caller: outside C12's domain; with "
           "zero-size packets only, Lmax = 0 and the credit reaches quantum + Lmax exactly: outside C15's strict bound)",
           "'the class's queue empties' is read as the code reads it: class_count (packets of the class waiting or in "
           "transmission) is 0 when run() resumes after the transmission; a packet of the class that arrives during the "
           "transmission of the last one, or at the instant it ends before run() resumes, keeps the credit alive",
           "'holds a packet' / 'backlogged' = a packet of the class is in its store, travelling in a granted get, parked in "
           "head_of_line or in transmission"]
    assumptions = {"C15": _as, "C12": _as, "C08": _as}
    partial = {}

    def gen_case(self, rng, tier, prop_id):
        return gen_case(rng, tier, prop_id)

    def run_impl(self, case):
        return run_impl(case)

    def agree_term(self, case, obs):
        return agree_term(case, obs)

    def model_term(self, case):
        return None

    def monitor(self, case, obs, prop_id):
        if case["kind"] == "drr2":
            msgs = list(obs["interfere"])
            for c, o in zip(case["insts"], obs["multi"]):
                msgs += self.monitor(c, o, prop_id)
            return msgs[:3]
        if prop_id == "C15":
            return mon_c15(case, obs)
        if prop_id == "C12":
            return mon_c12(case, obs)
        if prop_id == "C08":
            return mon_c08(case, obs)
        return []

    def nontrivial(self, case, obs, prop_id):
        if case["kind"] == "drr2":
            return (not obs["raised"]) and any(self.nontrivial(c, o, prop_id) for c, o in zip(case["insts"], obs["multi"]))
        if obs["raised"]:
            return False
        s = stats(case, obs)
        if prop_id == "C15":
            return s["both"] > 0 and s["n"] >= 3
        if prop_id == "C12":
            return s["n"] >= 3 and s["waited"] > 0
        return s["n"] >= 3 and s["flows"] >= 2

    def shrink(self, case):
        if case["kind"] == "drr2":
            for i, c in enumerate(case["insts"]):
                for c2 in self.shrink(c):
                    if c2["workload"]["packets"]:
                        yield {**case, "insts": case["insts"][:i] + [c2] + case["insts"][i + 1:]}
            return
        for w in ec.shrink_workload(case["workload"]):
            pre = (case.get("pre") or [])[:len(w["drivers"])]
            pre = pre + [False] * (len(w["drivers"]) - len(pre))
            yield {**case, "workload": w, "pre": pre}
        used = {p["flow"] for p in case["workload"]["packets"].values()}
        f2c = [[f, c] for f, c in case["f2c"] if f in used]
        usedc = {c for _, c in f2c}
        if len(f2c) < len(case["f2c"]) and f2c:
            yield {**case, "f2c": f2c}
        ws = [[c, w] for c, w in case["weights"] if c in usedc]
        if len(ws) < len(case["weights"]) and ws and len(f2c) == len(case["f2c"]):
            yield {**case, "weights": ws}
        if any(case.get("pre") or []):
            yield {**case, "pre": [False] * len(case["workload"]["drivers"])}

    def describe(self, case, obs):
        if case["kind"] == "drr2":
            a, b = case["insts"][0], case["insts"][1]
            keys = ["drr2"]
            keys.append("drr2:same-table" if a["weights"] == b["weights"] else
                        "drr2:same-classes-other-weights" if sorted(classes_of(a)) == sorted(classes_of(b)) else "drr2:other-table")
            keys.append("drr2:shared-class-ids=%d" % len(set(classes_of(a)) & set(classes_of(b))))
            return keys
        keys = ["drr", "drr:classes=%d" % len(case["weights"]), "drr:packets=%d" % min(len(case["workload"]["packets"]), 24),
                "drr:drivers=%d" % len(case["workload"]["drivers"]),
                "drr:f2c=" + ("identity" if is_identity(case) else "many-to-one")]
        if any(case.get("pre") or []):
            keys.append("drr:driver-created-before-element")
        if case.get("late"):
            keys.append("drr:late-configuration")
        if case["kind"] == "drrf":
            keys.append("drr:float-rate")
        if not obs["raised"]:
            s = stats(case, obs)
            if s["parked"]:
                keys.append("drr:head-parked")
            keys.append("drr:max-backlogged-classes=%d" % s["maxb"])
        return keys


PART = DRRPart()
