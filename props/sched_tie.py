"""Second tie for the GENERATOR bodies of the schedulers' run() loops (vlib/translate_gen.py, fail closed): for-loops over the
class table that cross yields become structural fixes over the remaining table.  Used by props/part_mq.py (SP.run: C13;
RR.run / WRR.run: C15), props/part_wfq.py (WFQ.run / VC.run: C14), props/part_drr.py (DRR.run: C15)."""
import os

# ---- SP.run (C13): coq/Gen/Extracted_sp_run.v, bridged by coq/Elem/SPScanBridge.v, obligations Props/C13_BridgeRun.v --------
SCHED_REQ_CONS = [("RqStoreGet", "(k : Z)"),      # packet = yield store.get()   on the store of class k
                  ("RqChild", ""),                # yield env.process(self.send_packet(packet)): wait for the child process
                  ("RqTokGet", "")]               # yield self.packets_available.get()
SCHED_REQUESTS = [("store.get()", "RqStoreGet", [], "obj", "store"),
                  ("env.process(self.send_packet(packet))", "RqChild", [], None),
                  ("self.env.process(self.send_packet(packet))", "RqChild", [], None),
                  ("self.packets_available.get()", "RqTokGet", [], None)]
SP_READS = [("self.total_packets", "total_packets", "Z")]          # the property sum(queue_count.values())
SP_ITER = [("self.priorities", "priorities", ["Z", "Z"])]           # [(class id, priority)] as sorted by __init__
SP_IDX_ALIASES = [("store = self.stores[_1]", "store", "Z")]        # the Store of a class, known by the class id
SP_IDX_READS = [("store.size()", "store", "store_size", "Z")]       # len(store.items), a function of the class id
SP_FX = [("packet.priorities[self.flow2class(packet.flow_id)] = _1", "FxStampPrio", ["Z"])]
SP_FX_CONS = [("FxStampPrio", "(prio : Z)")]


def extracted_sp_run(repo):
    from vlib import translate_gen as tg
    spec = tg.GenSpec(os.path.join(repo, "onl", "scheduler", "sp.py"), "SP", "run", "gen_SP_run", reads=SP_READS,
                      iterables=SP_ITER, idx_aliases=SP_IDX_ALIASES, idx_reads=SP_IDX_READS, effects=SP_FX,
                      requests=SCHED_REQUESTS, objects=["packet", "store"], spin=True)
    return tg.gen_run_module("onl/scheduler/sp.py: SP.run", spec, [], None, "", "sp_run_fx", SP_FX_CONS, SCHED_REQ_CONS,
                             types="sp_run")


def write_if_changed(coq_dir, name, text):
    from vlib import translate as tr
    return tr.write_if_changed(os.path.join(coq_dir, "Gen", name), text)


# ---- VC.run (C14): coq/Gen/Extracted_vc_run.v, bridged by coq/Elem/VCRunBridge.v, obligations Props/C14_BridgeRun.v -
SRV_REQ_CONS = [("RqStoreGet", ""),               # item = yield self.store.get()   (the PriorityStore)
                ("RqChild", "")]                  # yield env.process(self.send_packet(packet))
SRV_REQUESTS = [("self.store.get()", "RqStoreGet", [], "obj"),
                ("env.process(self.send_packet(packet))", "RqChild", [], None),
                ("self.env.process(self.send_packet(packet))", "RqChild", [], None)]
SRV_FX = [("packet = item.item", "FxUnwrap", [])]              # the packet inside the PriorityItem the get returned
SRV_FX_CONS = [("FxUnwrap", "")]


def extracted_vc_run(repo):
    from vlib import translate_gen as tg
    spec = tg.GenSpec(os.path.join(repo, "onl", "scheduler", "virtual_clock.py"), "VC", "run", "gen_VC_run",
                      effects=SRV_FX, requests=SRV_REQUESTS, objects=["item", "packet"], binds={"FxUnwrap": "packet"})
    return tg.gen_run_module("onl/scheduler/virtual_clock.py: VC.run", spec, [], None, "", "vc_run_fx", SRV_FX_CONS,
                             SRV_REQ_CONS, types="vc_run")


# ---- RR.run / WRR.run (C15): coq/Gen/Extracted_rr_run.v, Extracted_wrr_run.v; bridged by coq/Elem/RRScanBridge.v;
#      obligations Props/C15_BridgeRun.v ------------------------------------------------------------------------------------
RR_STATE = [("queue_count", "mapZ")]                                   # read only by run(); written by put / send_packet
RR_ITER = [("self.flows", "flows", ["Z"])]
RR_IDX_ALIASES = [("store = self.stores.get(_1)", "store", "Z")]
RR_IDX_READS = [("store", "store", "store_present", "bool")]           # `assert store`: the dict has a Store for the flow
WRR_ITER = [("self.weights.items()", "weights", ["Z", "Z"]), ("range(_1)", None, ["Z"])]


def extracted_rr_run(repo):
    from vlib import translate_gen as tg
    spec = tg.GenSpec(os.path.join(repo, "onl", "scheduler", "rr.py"), "RR", "run", "gen_RR_run", reads=SP_READS,
                      iterables=RR_ITER, idx_aliases=RR_IDX_ALIASES, idx_reads=RR_IDX_READS, requests=SCHED_REQUESTS,
                      objects=["packet", "store"], spin=True)
    return tg.gen_run_module("onl/scheduler/rr.py: RR.run", spec, RR_STATE, "rr_run_st", "rr_", "rr_run_fx", [], SCHED_REQ_CONS,
                             types="rr_run")


def extracted_wrr_run(repo):
    from vlib import translate_gen as tg
    spec = tg.GenSpec(os.path.join(repo, "onl", "scheduler", "wrr.py"), "WRR", "run", "gen_WRR_run", reads=SP_READS,
                      iterables=WRR_ITER, idx_aliases=RR_IDX_ALIASES, idx_reads=RR_IDX_READS, requests=SCHED_REQUESTS,
                      objects=["packet", "store"], spin=True)
    return tg.gen_run_module("onl/scheduler/wrr.py: WRR.run", spec, RR_STATE, "wrr_run_st", "wr_", "wrr_run_fx", [],
                             SCHED_REQ_CONS, types="wrr_run")


# ---- WFQ.run (C14): coq/Gen/Extracted_wfq_run.v, bridged by coq/Elem/WFQRunBridge.v, obligations Props/C14_BridgeRunWFQ.v ----
WFQ_RUN_READS = [("self.flow2class(packet.flow_id)", "class_id", "Z"),
                 ("self.env.now", "now", "Q"), ("env.now", "now", "Q"),
                 # len(self.active_set) when run() resumes; `self.active_set.remove(c)` makes it one less for what follows
                 ("self.active_set", "n_active", "len")]
WFQ_RUN_LEN_EFFECTS = {"n_active": {"FxActiveRemove": -1}}
WFQ_RUN_FX = SRV_FX + [("self.active_set.remove(_1)", "FxActiveRemove", ["Z"])]
WFQ_RUN_FX_CONS = SRV_FX_CONS + [("FxActiveRemove", "(c : Z)")]


def extracted_wfq_run(repo):
    from vlib import translate_gen as tg
    from props import part_wfq as pw
    spec = tg.GenSpec(os.path.join(repo, "onl", "scheduler", "wfq.py"), "WFQ", "run", "gen_WFQ_run", reads=WFQ_RUN_READS,
                      effects=WFQ_RUN_FX, requests=SRV_REQUESTS, objects=["item", "packet"], binds={"FxUnwrap": "packet"},
                      stateops=pw.WFQ_STATEOPS, bindings=pw.WFQ_BINDINGS, inline=["update_vtime", "reset_vtime"],
                      len_effects=WFQ_RUN_LEN_EFFECTS)
    return tg.gen_run_module("onl/scheduler/wfq.py: WFQ.run (update_vtime / reset_vtime in place)", spec, pw.WFQ_STATE,
                             "wfq_run_st", "wr_", "wfq_run_fx", WFQ_RUN_FX_CONS, SRV_REQ_CONS, types="wfq_run")


# ---- DRR.run (C15): coq/Gen/Extracted_drr_run.v, bridged by coq/Elem/DRRScanBridge.v, obligations Props/C15_BridgeRunDRR.v ----
DRR_STATE = [("quantum", "mapQ"),            # read only
             ("deficit", "mapQ"), ("class_count", "mapZ"),
             ("head_of_line", "keysZ")]      # the KEYS of the dict of parked packets
DRR_READS = [("self.total_packets", "total_packets", "Z"),
             ("packet.size", "size", "Z")]                          # of the packet run() was resumed with
DRR_ITER = [("self.quantum", "classes", ["Z"])]                     # iterating the dict = its keys in insertion order
DRR_IDX_ALIASES = [("store = self.stores[_1]", "store", "Z")]
DRR_IDX_READS = [("packet.size", "packet", "parked_size", "Z")]     # of the packet parked under the class it was taken from
DRR_FX = [("packet = self.head_of_line[_1]", "FxTakeParked", ["Z"]),
          ("del self.head_of_line[_1]", "FxUnpark", ["Z"]),
          ("self.head_of_line[_1] = packet", "FxPark", ["Z"]),
          ("self.current_packet = packet", "FxSetCurrent", [])]
DRR_FX_CONS = [("FxTakeParked", "(c : Z)"), ("FxUnpark", "(c : Z)"), ("FxPark", "(c : Z)"), ("FxSetCurrent", "")]
DRR_KEY_EFFECTS = {"FxUnpark": ("head_of_line", False), "FxPark": ("head_of_line", True)}
# the assertion that the packet taken from the store of a class belongs to that class is not translated (put() files it there)
DRR_IGNORE = ["assert class_id == self.flow2class(packet.flow_id)"]


def extracted_drr_run(repo):
    from vlib import translate_gen as tg
    spec = tg.GenSpec(os.path.join(repo, "onl", "scheduler", "drr.py"), "DRR", "run", "gen_DRR_run", reads=DRR_READS,
                      iterables=DRR_ITER, idx_aliases=DRR_IDX_ALIASES, idx_reads=DRR_IDX_READS, effects=DRR_FX,
                      requests=SCHED_REQUESTS, objects=["packet", "store"], ignore_stmts=DRR_IGNORE,
                      thread_loops=True, pass_loops=["self.total_packets > 0"], key_effects=DRR_KEY_EFFECTS,
                      binds_idx={"FxTakeParked": "packet"}, demote=["packet"])
    return tg.gen_run_module("onl/scheduler/drr.py: DRR.run", spec, DRR_STATE, "drr_run_st", "dr_", "drr_run_fx", DRR_FX_CONS,
                             SCHED_REQ_CONS, types="drr_run")
