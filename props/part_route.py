"""Part 'route' (serves C08) -- the switches and demultiplexers of onl/netdev/switch.py, onl/netdev/demux.py as COMPOSED elements.

kinds:  'sswitch'    a REAL SimplePacketSwitch (FlowDemux over n Ports)
        'fswitch'    a REAL FairPacketSwitch (FIBDemux over n branches `egress Port(rate 0) >> SP | WFQ | VirtualClock | DRR`) with a
                     non-identity flow2class (several flows per class); demux.fib (and sometimes demux.ends) set afterwards, as
                     applications do; tables with unknown flows and ports without an output
        'fswitch2'   TWO FairPacketSwitches alive in one Environment, each with its own traffic; an end device is registered on the second
                     only (by item assignment on demux.ends, the idiom of tests/apps/fattree.py) for a flow that the first switch must
                     carry through its port and scheduler; each instance is replayed against its own model, and no packet put into
                     one instance may show up at a part of the other (instances-interfere)
        'flowdemux'  a REAL FlowDemux over Ports, with or without a default output
        'fibdemux'   a REAL FIBDemux over Ports with table / default output / end devices
        'randdemux'  a REAL RandomDemux over Ports: weight lists normalised, un-normalised (sum < 1, sum > 1), with zero entries, a single
                     output; `probs` reassigned between two packets in some cases; random.random() scripted (one draw per packet,
                     consumed by the real random.choices).  The index of every packet is computed IN COQ by `choices_index`
                     (coq/Elem/ComposeRandom.v, a transcription of random.choices with one draw) and compared with what the real
                     code did; the composite `rdemux_elem oracle t0 ports` is replayed with that oracle
        'nsplitter'  a REAL NSplitter(N) with a Port behind every output: EVERY output receives EVERY packet exactly once (output 0 the
                     object itself, the others shallow copies); model `mcast t0 (fun _ _ => true) ports` (coq/Elem/ComposeCast.v)
        'hub'        a REAL Hub whose endpoints sit behind Ports: every endpoint except the packet's source receives the packet (the
                     same object) exactly once; model `mcast t0 (hub_want state src) ports`, the want-function read off Route/Hub.v's
                     hub_put
All objects live in ONE Environment, driven by the elem_common harness: the packets are put into the switch itself, taps sit between
the demux and every device it hands packets to, between every egress port and its scheduler, and behind every output (per-port
sinks).  The switch objects are built by their own constructors; the harness only names the processes / stores of the parts it finds
in them (by object identity) and wraps the `out` pointers / the demux's device list with pass-through taps that call the real put().

Correspondence: the global action sequence is replayed in the composite Coq model `switch route t0 nouts [branches]`
(coq/Elem/ComposeSwitch.v, AdaptSwitch.v: sswitch_elem / fswitch_elem; route = simple_switch / fair_switch / flowdemux / fibdemux of
coq/Route/Demux.v): every action must be admissible for the composite and show exactly the observed hand-overs and deliveries; and the
projection of the log onto every port / scheduler is replayed by that element's own part (counters, store lengths, stamps).
Monitor (independent of the Coq model): the C08 clauses on the taps.  Theorems: Props/C08_Route.v.
"""
import re
from fractions import Fraction

from vlib import coqfmt as cf
from props import elem_common as ec
from props import part_port
from props.part_gensink import PART as GS, PipeHarness, HandTap, LastTap, _first_component, hand_extra

F = Fraction
SIZES = (64, 128, 256, 512)
SIZES_BIG = (512, 1536, 2048, 3072)
# element ids the switches give their ports -> the model's ekey (props/part_port.py knows only the ids of its own cases)
for _i in range(8):
    part_port.EID_KEYS.setdefault("sw.%d" % _i, 100 + _i)
    part_port.EID_KEYS.setdefault("fs_%d" % _i, 200 + _i)
    part_port.EID_KEYS.setdefault("dx%d" % _i, 300 + _i)


def eid_fun(prefix):
    base = {"sw.": 100, "fs_": 200, "dx": 300}[prefix]
    return f"(fun i : nat => Some (Z.of_nat i + {base})%Z)"


# ---- the documented routing rules (independent re-statement for the monitor) ---------------------------------------
def rule_flowdemux(nouts, default, flow):
    """-> ('out', i) | ('default',) | ('nowhere',)"""
    if 0 <= flow < nouts:
        return ("out", flow)
    return ("default",) if default else ("nowhere",)


def rule_fibdemux(nouts, fib, ends, default, flow):
    if flow in ends:
        return ("end", ends[flow])
    if flow in fib and -nouts <= fib[flow] < nouts:
        return ("out", fib[flow] % nouts if nouts else 0)
    return ("default",) if default else ("nowhere",)


class RoutePart:
    name = "route"
    kinds = ["sswitch", "fswitch", "fswitch2", "flowdemux", "fibdemux", "randdemux", "nsplitter", "hub"]
    serves = ["C08"]
    weight = 2
    props_files = {"C08": ["Props/C08_Route.v"]}
    coq_imports = ["From ONL Require Import Base.Cmp Elem.Packet Elem.StoreQ Elem.HeapList Elem.WFQServer Elem.WFQ Elem.VC Elem.DRR "
                   "Elem.SchedBase Elem.SP Elem.Port Route.Demux Elem.Iface Elem.Compose Elem.ComposePar Elem.ComposeFan "
                   "Elem.ComposeSwitch Elem.ComposeRandom Elem.ComposeCast Route.Hub Elem.AdaptPort Elem.AdaptSched Elem.AdaptSrv Elem.AdaptDRR Elem.AdaptSwitch."]
    nontrivial_rule = {"C08": (
        "sswitch: 2-4 ports, rates 512/1024/4096, packet limit None/1/2/3, flows -1..n (one flow per port, some without a port); "
        "fswitch: 2-3 ports, server SP / WFQ (equal power-of-two weights) / VirtualClock / DRR (half of the time with packets above "
        "the quantum), 4-5 flows mapped onto 2 classes by a table, FIB tables with unknown flows, ports beyond the outputs and "
        "negative ports, sometimes an end device, egress limit None/1/2/3; flowdemux / fibdemux: 2-3 output ports (rate 0 or > 0), "
        "with / without a default port, fibdemux also with end devices; bursty workloads of 1-10 packets from 1-3 drivers on a dyadic "
        "lattice, drivers created before or after the switch; non-trivial = at least 3 packets put in, at least one delivered at an "
        "output and at least two different fates among {delivered, refused by a port, no route}")}
    trusted_base = {"C08": [
        "the switch objects are built by their own constructors; the harness renames the generator objects of the ports' and "
        "schedulers' processes (run@k, send_packet@k through an instance-level wrapper), recognises their kernel Stores by object "
        "identity, and wraps egress_port.out / scheduler.out / the entries of demux.outs, demux.ends, demux.default_out with "
        "pass-through taps that call the real put() of the object found there",
        "admissibility of the real kernel's global interleaving for the composite model is checked on every observed execution, not "
        "proved (DESIGN 2.4)",
        "float rounding is outside the theorems: rates are powers of two, sizes and times dyadic, WFQ weights equal powers of two",
        "the element ids the switches give their ports (sw.0, fs_1, ...) are added to props/part_port.py's id table at import time"]}
    assumptions = {"C08": [
        "FairPacketSwitch: demux.fib is set before the first packet (with fib None put() raises ValueError: outside the statement); "
        "every flow that has a route has a class the scheduler is configured for (C12's domain)",
        "a demux has no clock of its own: its put() runs inside the caller's action"]}
    partial = {"C08": []}

    # ---- generation ------------------------------------------------------------------------------------------------
    def gen_case(self, rng, tier, prop_id):
        r = rng.random()
        if r < 0.25:
            return self._gen_sswitch(rng)
        if r < 0.52:
            return self._gen_fswitch(rng)
        if r < 0.62:
            return self._gen_fswitch2(rng)
        if r < 0.76:
            return self._gen_demux(rng, "flowdemux" if r < 0.68 else "fibdemux")
        if r < 0.84:
            return self._gen_randdemux(rng)
        return self._gen_cast(rng, "nsplitter" if r < 0.91 else "hub")

    WEIGHTS = {1: [[1], [F(1, 2)], [3]],
               2: [[F(1, 2), F(1, 2)], [F(1, 4), F(3, 4)], [F(1, 4), F(1, 4)], [F(1, 8), F(1, 2)], [1, 3], [2, 2], [0, 1], [F(1, 2), 0]],
               3: [[F(1, 4), F(1, 4), F(1, 2)], [F(1, 4), F(1, 4), F(1, 4)], [1, 1, 2], [0, F(1, 2), F(1, 2)], [F(1, 8), 0, F(1, 8)],
                   [2, 1, 1], [F(1, 2), F(1, 4), 0]]}

    def _gen_randdemux(self, rng):
        n = rng.choice([1, 2, 2, 3, 3])
        w = ec.gen_workload(rng, flows=(0, 1, 2), n_max=8, sizes=SIZES, burst_p=0.5)
        npk = len(w["packets"])
        case = {"kind": "randdemux", "nouts": n, "probs": [cf.qjson(x) for x in rng.choice(self.WEIGHTS[n])],
                "draws": [cf.qjson(F(rng.randint(0, 7), 8)) for _ in range(npk)],
                "rates": [rng.choice([0, 0, 512, 1024]) for _ in range(n)], "buffers": [rng.choice([None, None, 2]) for _ in range(n)],
                "reprobs": None, "workload": w, "pre": rng.random() < 0.3}
        if npk >= 2 and rng.random() < 0.35:
            # the application reassigns the public attribute `probs` between two packets
            case["reprobs"] = {"at": rng.randint(1, npk - 1), "probs": [cf.qjson(x) for x in rng.choice(self.WEIGHTS[n])]}
        return case

    def _gen_cast(self, rng, kind):
        n = rng.choice([2, 3, 3])
        flows = tuple(range(n + (1 if kind == "hub" else 0)))         # hub: flow f comes from endpoint f; flow n from outside
        w = ec.gen_workload(rng, flows=flows, n_max=6, sizes=SIZES, burst_p=0.5)
        for sp in w["packets"].values():
            sp["src"] = "ep%d" % sp["flow"]
        return {"kind": kind, "nouts": n, "rates": [rng.choice([0, 512, 1024]) for _ in range(n)],
                "buffers": [rng.choice([None, None, 2, 3]) for _ in range(n)], "workload": w, "pre": rng.random() < 0.3}

    def _gen_sswitch(self, rng):
        n = rng.choice([2, 2, 3, 4])
        flows = tuple(range(-1, n + 1)) if rng.random() < 0.5 else tuple(range(0, n + 1))
        w = ec.gen_workload(rng, flows=flows, n_max=10, sizes=SIZES, burst_p=0.5)
        return {"kind": "sswitch", "nports": n, "rate": rng.choice([512, 1024, 4096]), "buffer": rng.choice([None, 1, 2, 2, 3]),
                "workload": w, "pre": rng.random() < 0.3}

    def _gen_fswitch(self, rng):
        n = rng.choice([2, 2, 3])
        server = rng.choice(["SP", "WFQ", "VirtualClock", "DRR"])
        flows = [0, 1, 2, 3, 4]
        cl = [10, 11]
        f2c = {f: rng.choice(cl) for f in flows}
        f2c[0], f2c[1] = 10, 11
        if server == "SP":
            weights = {10: rng.choice([1, 2, 3]), 11: rng.choice([1, 2, 3])}
        elif server == "WFQ":
            wt = rng.choice([1, 2, 4])
            weights = {10: wt, 11: wt}
        elif server == "VirtualClock":
            weights = {c: cf.qjson(rng.choice([F(1, 4), F(1, 2), F(1), F(3, 2)])) for c in cl}
        else:
            weights = {10: rng.choice([1, 2, 3]), 11: rng.choice([1, 2, 4])}
        fib = {}
        for f in flows:
            x = rng.random()
            if x < 0.7:
                fib[f] = rng.randrange(n)
            elif x < 0.8:
                fib[f] = rng.choice([n, n + 2, -1, -n, -n - 1])        # no such output / Python's negative indexing
        if not any(0 <= q < n for q in fib.values()):
            fib[0] = 0
        ends = {}
        if rng.random() < 0.25:
            ends = {rng.choice(flows): 0}
        big = server == "DRR" and rng.random() < 0.5
        w = ec.gen_workload(rng, flows=tuple(flows), n_max=10, sizes=SIZES_BIG if big else SIZES, burst_p=0.5)
        return {"kind": "fswitch", "nports": n, "rate": rng.choice([2048, 4096, 16384] if server == "DRR" else [512, 1024, 4096]),
                "buffer": rng.choice([None, None, 1, 2, 3]), "server": server, "weights": {str(c): v for c, v in weights.items()},
                "f2c": {str(f): c for f, c in f2c.items()}, "fib": {str(f): q for f, q in fib.items()},
                "ends": {str(f): d for f, d in ends.items()}, "workload": w, "pre": rng.random() < 0.3}

    def _gen_fswitch2(self, rng):
        a = self._gen_fswitch(rng)
        b = self._gen_fswitch(rng)
        a["ends"] = {}
        # the flow whose end device is registered on B only must cross A through a port and its scheduler
        present = sorted({sp["flow"] for sp in a["workload"]["packets"].values()})
        f = rng.choice(present)
        n = a["nports"]
        if not (str(f) in a["fib"] and 0 <= a["fib"][str(f)] < n):
            a["fib"][str(f)] = rng.randrange(n)
        b["ends"] = {str(f): 0}
        off = 100
        wb = b["workload"]
        wb["packets"] = {str(int(u) + off): sp for u, sp in wb["packets"].items()}
        for d in wb["drivers"]:
            d["bursts"] = [[t, [u + off for u in uids]] for (t, uids) in d["bursts"]]
        for c in (a, b):
            c["pre"] = False
        return {"kind": "fswitch2", "insts": [a, b], "pre": rng.random() < 0.3}

    def _gen_demux(self, rng, kind):
        n = rng.choice([2, 2, 3])
        flows = tuple(range(-1, n + 2))
        w = ec.gen_workload(rng, flows=flows, n_max=8, sizes=SIZES, burst_p=0.5)
        case = {"kind": kind, "nouts": n, "default": rng.random() < 0.5, "rate": rng.choice([0, 0, 512, 1024]),
                "buffer": rng.choice([None, None, 1, 2]), "workload": w, "pre": rng.random() < 0.3}
        if kind == "fibdemux":
            fib = {}
            for f in flows:
                x = rng.random()
                if x < 0.65:
                    fib[f] = rng.randrange(n)
                elif x < 0.8:
                    fib[f] = rng.choice([n, -1, -n, -n - 1])
            case["fib"] = {str(f): q for f, q in fib.items()}
            case["ends"] = {str(rng.choice(flows)): 0} if rng.random() < 0.4 else {}
        return case

    # ---- the stages of a case ----------------------------------------------------------------------------------------
    @staticmethod
    def layout(case):
        """-> (stages, slots, demux).  stages[0] is the demux; slots[j] = the chain of stage indices behind slot j of the demux's
        devices (outs, then the default output, then the end devices), or None for an empty slot"""
        k = case["kind"]
        stages, slots = [], []
        if k == "sswitch":
            n = case["nports"]
            stages.append({"el": "flowdemux", "nouts": n, "default": False})
            for i in range(n):
                stages.append({"el": "port", "rate": case["rate"], "qlimit": case["buffer"], "limit_bytes": False, "eid": "sw.%d" % i})
                slots.append([1 + i])
        elif k == "fswitch":
            n = case["nports"]
            fib = {int(f): q for f, q in case["fib"].items()}
            ends = {int(f): d for f, d in case["ends"].items()}
            stages.append({"el": "fibdemux", "nouts": n, "default": False, "fib": fib, "ends": ends})
            f2c = sorted((int(f), c) for f, c in case["f2c"].items())
            for i in range(n):
                stages.append({"el": "port", "rate": 0, "qlimit": case["buffer"], "limit_bytes": False, "eid": "fs_%d" % i})
                srv = case["server"]
                if srv == "SP":
                    st = {"el": "sp", "rate": case["rate"], "classes": sorted([int(c), v] for c, v in case["weights"].items()),
                          "cmap": [[f, c] for f, c in f2c]}
                elif srv in ("WFQ", "VirtualClock"):
                    st = {"el": "wfq" if srv == "WFQ" else "vc", "rate": case["rate"], "classes": dict(case["weights"]),
                          "f2c": {str(f): c for f, c in f2c}}
                else:
                    st = {"el": "drr", "rate": case["rate"], "weights": sorted([int(c), v] for c, v in case["weights"].items()),
                          "f2c": [[f, c] for f, c in f2c]}
                stages.append(st)
                slots.append([1 + 2 * i, 2 + 2 * i])
            if ends:
                slots.append(None)                                   # the (absent) default output
                for d in range(max(ends.values()) + 1):
                    stages.append({"el": "port", "rate": 0, "qlimit": None, "limit_bytes": False, "eid": "dx%d" % (4 + d)})
                    slots.append([len(stages) - 1])
        elif k == "randdemux":
            n = case["nouts"]
            stages.append({"el": "randdemux", "nouts": n})
            for i in range(n):
                stages.append({"el": "port", "rate": case["rates"][i], "qlimit": case["buffers"][i], "limit_bytes": False, "eid": "dx%d" % i})
                slots.append([1 + i])
        elif k in ("nsplitter", "hub"):
            n = case["nouts"]
            stages.append({"el": k, "nouts": n})
            for i in range(n):
                stages.append({"el": "port", "rate": case["rates"][i], "qlimit": case["buffers"][i], "limit_bytes": False, "eid": "dx%d" % i})
                slots.append([1 + i])
        else:
            n = case["nouts"]
            if k == "flowdemux":
                stages.append({"el": "flowdemux", "nouts": n, "default": case["default"]})
                ends = {}
            else:
                ends = {int(f): d for f, d in case["ends"].items()}
                stages.append({"el": "fibdemux", "nouts": n, "default": case["default"],
                               "fib": {int(f): q for f, q in case["fib"].items()}, "ends": ends})
            for i in range(n):
                stages.append({"el": "port", "rate": case["rate"], "qlimit": case["buffer"], "limit_bytes": False, "eid": "dx%d" % i})
                slots.append([1 + i])
            if case["default"] or ends:
                if case["default"]:
                    stages.append({"el": "port", "rate": case["rate"], "qlimit": None, "limit_bytes": False, "eid": "dx3"})
                    slots.append([len(stages) - 1])
                else:
                    slots.append(None)
                for d in range((max(ends.values()) + 1) if ends else 0):
                    stages.append({"el": "port", "rate": 0, "qlimit": None, "limit_bytes": False, "eid": "dx%d" % (4 + d)})
                    slots.append([len(stages) - 1])
        return stages, slots, stages[0]

    @staticmethod
    def wanted(dm, flow):
        """replicating elements: the outputs a packet of this flow must reach (each exactly once)"""
        if dm["el"] == "nsplitter":
            return list(range(dm["nouts"]))
        return [i for i in range(dm["nouts"]) if i != flow]           # hub: flow f comes from endpoint f

    @staticmethod
    def rule(dm, flow):
        if dm["el"] == "flowdemux":
            return rule_flowdemux(dm["nouts"], dm["default"], flow)
        return rule_fibdemux(dm["nouts"], dm["fib"], dm["ends"], dm["default"], flow)

    @staticmethod
    def slot_of(dm, decision):
        if decision[0] == "out":
            return decision[1]
        if decision[0] == "default":
            return dm["nouts"]
        if decision[0] == "end":
            return dm["nouts"] + 1 + decision[1]
        return None

    # ---- implementation -------------------------------------------------------------------------------------------------
    @staticmethod
    def instrument(h, k, st, e):
        """name the processes and stores of the real element e found at stage k; -> sampler (the owning part's layout)"""
        el = st["el"]
        if el == "port":
            smp = (lambda: [e.packets_received, e.packets_dropped, e.byte_size, len(e.store.items), int(e.busy), "0/1", 0,
                            [getattr(p, "uid", -1) for p in e.store.items], e.busy_packet_size, []])
            h.watch_store("store@%d" % k, e.store)
        elif el == "sp":
            flows = sorted(f for f, _ in st["cmap"])
            klasses = sorted(c for c, _ in st["classes"])
            h.scheds[k] = (e, "f:")
            PipeHarness.wrap_send_packet(e, k)

            def smp():
                q = [[f, e.queue_count.get(f, 0), e.queue_byte_size.get(f, 0)] for f in flows]
                stl = [[c, len(e.stores[c].items) if c in e.stores else 0] for c in klasses]
                cur = e.current_packet
                return [q, None if cur is None else getattr(cur, "uid", -1), e.packets_received, len(e.packets_available.items),
                        e.total_packets, [], stl]
        elif el in ("wfq", "vc"):
            cls = sorted(int(c) for c in st["classes"])
            flows = sorted(int(f) for f in st["f2c"])
            PipeHarness.wrap_send_packet(e, k)
            h.watch_store("store@%d" % k, e.store)

            def smp():
                cur = e.current_packet
                cur = getattr(cur, "uid", -2) if cur is not None else -1
                per = [[f, e.queue_count.get(f, 0), e.queue_byte_size.get(f, 0)] for f in flows]
                if el == "wfq":
                    extra = {"vtime": ec.qs(e.vtime), "last": ec.qs(e.last_time), "active": sorted(e.active_set),
                             "fin": [[c, ec.qs(e.finish_times.get(c, 0))] for c in cls]}
                else:
                    extra = {"aux": [[c, ec.qs(e.aux_vc.get(c, 0))] for c in cls]}
                return [cur, len(e.store.items), e.packets_received, per, extra]
        else:
            cls = [c for c, _ in st["weights"]]
            flows = sorted(f for f, _ in st["f2c"])
            h.scheds[k] = (e, "s:")
            PipeHarness.wrap_send_packet(e, k)

            def smp():
                cur = e.current_packet
                return [[[c, ec.qs(e.deficit[c])] for c in cls],
                        [[f, e.queue_count.get(f, 0), e.queue_byte_size.get(f, 0)] for f in flows],
                        [[c, getattr(e.head_of_line[c], "uid", -1) if c in e.head_of_line else None] for c in cls],
                        None if cur is None else getattr(cur, "uid", -1),
                        [[c, len(e.stores[c].items) if c in e.stores else 0] for c in cls],
                        len(e.packets_available.items), e.packets_received, e.total_packets]
        proc = getattr(e, "action", None) or getattr(e, "proc")
        proc._generator.__name__ = "run@%d" % k
        return smp

    def run_impl(self, case):
        if case["kind"] == "fswitch2":
            obs, interfere = self._run_many(case["insts"], case.get("pre"))
            return {"multi": obs, "interfere": interfere, "raised": obs[0]["raised"], "exhausted": obs[0]["exhausted"]}
        return self._run_many([case], case.get("pre"))[0][0]

    def _build(self, case, env, h, base, stages, slots, dm):
        """construct the real objects of one instance; -> (top, demux, objs) with objs[j] the real object of local stage j"""
        from onl.netdev.port import Port
        n = len(stages)
        objs = [None] * n
        k = case["kind"]
        if k == "sswitch":
            from onl.netdev.switch import SimplePacketSwitch
            top = SimplePacketSwitch(env, case["nports"], case["rate"], case["buffer"], "sw")
            demux = top.demux
            for i, p in enumerate(top.ports):
                objs[1 + i] = p
        elif k == "fswitch":
            from onl.netdev.switch import FairPacketSwitch
            tbl = {int(f): c for f, c in case["f2c"].items()}
            wts = {int(c): (v if case["server"] != "VirtualClock" else ec.T(v)) for c, v in case["weights"].items()}
            top = FairPacketSwitch(env, case["nports"], case["rate"], case["buffer"], wts, case["server"], "fs",
                                   flow2class=lambda f: tbl[f])
            demux = top.demux
            demux.fib = dict(dm["fib"])
            for i in range(case["nports"]):
                objs[1 + 2 * i] = top.egress_ports[i]
                objs[2 + 2 * i] = top.ports[i]
            if dm["ends"]:
                devs = []
                for j in range(1 + 2 * case["nports"], n):
                    objs[j] = Port(env, 0, None, False, stages[j]["eid"])
                    devs.append(objs[j])
                # the registration idiom of applications (tests/apps/fattree.py): item assignment on the demux the switch built
                for f, d in dm["ends"].items():
                    demux.ends[f] = devs[d]
        elif k == "randdemux":
            from onl.netdev.demux import RandomDemux
            from props.part_port import _num
            for j in range(1, n):
                st = stages[j]
                objs[j] = Port(env, st["rate"], st["qlimit"], st["limit_bytes"], st["eid"])
            demux = RandomDemux([objs[j] for j in range(1, n)], [_num(x) for x in case["probs"]])
            top = demux
            if case.get("reprobs"):
                rp = case["reprobs"]

                class Reconf:
                    """the application: reassigns demux.probs just before the packet number `at` is put in"""
                    count = 0

                    def put(self_inner, p):
                        if self_inner.count == rp["at"]:
                            demux.probs = [_num(x) for x in rp["probs"]]
                        self_inner.count += 1
                        return demux.put(p)
                top = Reconf()
        elif k in ("nsplitter", "hub"):
            for j in range(1, n):
                st = stages[j]
                objs[j] = Port(env, st["rate"], st["qlimit"], st["limit_bytes"], st["eid"])
            if k == "nsplitter":
                from onl.netdev.splitter import NSplitter
                top = NSplitter(n - 1)
                for i in range(n - 1):
                    top.outs[i] = objs[1 + i]
            else:
                from onl.netdev.hub import Hub
                eps = []
                for i in range(n - 1):
                    ep = LastTap(h, "s%d" % (base + 1 + i))
                    ep.element_id = "ep%d" % i
                    eps.append(ep)
                top = Hub(env, endpoints=eps, ports=[objs[1 + i] for i in range(n - 1)])
            demux = top
        else:
            from onl.netdev.demux import FlowDemux, FIBDemux
            for j in range(1, n):
                st = stages[j]
                objs[j] = Port(env, st["rate"], st["qlimit"], st["limit_bytes"], st["eid"])
            outs = [objs[s[0]] for s in slots[:dm["nouts"]]]
            dflt = objs[slots[dm["nouts"]][0]] if dm["default"] else None
            if k == "flowdemux":
                demux = FlowDemux(outs, dflt)
            else:
                # built WITHOUT `ends`; end devices are registered afterwards by item assignment, as applications do
                demux = FIBDemux(outs=outs, fib=dict(dm["fib"]), default_out=dflt)
                base_slot = dm["nouts"] + 1
                for f, d in dm["ends"].items():
                    demux.ends[f] = objs[slots[base_slot + d][0]]
            top = demux
        objs[0] = demux
        return top, demux, objs

    def _run_many(self, cases, pre):
        """one or several instances in ONE Environment; -> ([one observation per instance, in that instance's own stage numbering],
        interference notes)"""
        import io
        import contextlib
        import signal
        import time
        from onl.sim import Environment
        env = Environment()
        h = PipeHarness(env)
        lay = [self.layout(c) for c in cases]
        bases, tot = [], 0
        for (stages, _, _) in lay:
            bases.append(tot)
            tot += len(stages)
        owner = {}
        for i, c in enumerate(cases):
            h.add_packets(c["workload"]["packets"])
            for u in c["workload"]["packets"]:
                owner[int(u)] = i
        tops = [None] * len(cases)

        class Lazy:
            def __init__(self, i):
                self.i = i

            def put(self, p):
                return tops[self.i].put(p)

        def drivers():
            for i, c in enumerate(cases):
                for d in c["workload"]["drivers"]:
                    h.add_driver(d["bursts"], late=d["late"], target=Lazy(i))
        buf = io.StringIO()
        gobjs = [None] * tot
        gstages = [None] * tot
        with contextlib.redirect_stdout(buf):
            if pre:
                drivers()
            demuxes = []
            for i, c in enumerate(cases):
                stages, slots, dm = lay[i]
                top, demux, objs = self._build(c, env, h, bases[i], stages, slots, dm)
                tops[i] = top
                demuxes.append(demux)
                for j, o in enumerate(objs):
                    gobjs[bases[i] + j] = o
                    gstages[bases[i] + j] = stages[j]
            samplers = [(lambda: None)] * tot
            for g in range(tot):
                if gobjs[g] is not None and g not in bases:
                    samplers[g] = self.instrument(h, g, gstages[g], gobjs[g])
            where = {id(o): g for g, o in enumerate(gobjs) if o is not None}

            def tap(src, nxt):
                """a pass-through tap in front of whatever real object `nxt` is (found by identity among the parts of all instances)"""
                if nxt is None:
                    return None
                g = where.get(id(nxt), -1)
                return HandTap(h, src, nxt, samplers[g] if g >= 0 else (lambda: None), dst=g, extra=extra_of(src))
            wrapped = set()

            def extra_of(g):
                return hand_extra(gstages[g], gobjs[g], samplers[g]) if g not in bases else None
            for i, demux in enumerate(demuxes):
                b = bases[i]
                if getattr(demux, "outs", None) is not None:
                    demux.outs = [tap(b, o) for o in demux.outs]
                if getattr(demux, "default_out", None) is not None:
                    demux.default_out = tap(b, demux.default_out)
                ends = getattr(demux, "ends", None)
                if ends and id(ends) not in wrapped:
                    wrapped.add(id(ends))
                    for f in list(ends):                # in place: the dict object the demux was built with stays the same
                        ends[f] = tap(b, ends[f])
            for g in range(tot):
                o = gobjs[g]
                if o is None or g in bases:
                    continue
                nxt = getattr(o, "out", None)
                if isinstance(nxt, ec.Tap):
                    continue                            # already an endpoint recorder (Hub: port.out = endpoint)
                if nxt is not None:
                    o.out = tap(g, nxt)                 # a hand-over inside the switch (egress port -> its scheduler)
                else:
                    o.out = LastTap(h, "s%d" % g, extra=extra_of(g))       # an output of the switch: its own sink
            h.attach(tops[0])
            h.after_action(lambda: [f() for f in samplers])
            if not pre:
                drivers()

            # a scheduler whose run() loops without yielding never comes back from env.step(): bound the run ourselves
            def _hang(signum, frame):
                raise RuntimeError("a process of the switch loops without yielding")
            import random as _random
            from props.part_port import Script as PScript
            draws = PScript([u for c in cases if c["kind"] == "randdemux" for u in c["draws"]])
            scripted = any(c["kind"] == "randdemux" for c in cases)
            saved_mod = None
            if scripted:
                # random.choices is a method of the hidden module-level Random instance and calls self.random(): script THAT
                _random._inst.random = draws
                import onl.netdev.demux as dmod
                if callable(getattr(dmod, "random", None)):            # a demux that draws with `from random import random`
                    saved_mod = dmod.random
                    dmod.random = draws
            try:
                # per-step, repeating guard (props/elem_common.hang_guard): a slow run is not a hanging run
                with ec.hang_guard(h, lambda: RuntimeError("a process of the switch loops without yielding"), first=2.0, every=0.5, grace=3):
                    log = h.run(max_steps=30000)
            except RuntimeError as e:
                log = h.log
                h.raised = ["Hang", str(e)]
                h.exhausted = False
            finally:
                if scripted:
                    del _random._inst.random
                    if saved_mod is not None:
                        dmod.random = saved_mod
        # ---- the global log per instance, in the instance's own stage numbering ----
        def inst_of(g):
            for i in reversed(range(len(cases))):
                if g >= bases[i]:
                    return i
            return 0
        logs = [[] for _ in cases]
        interfere = []

        def local_outs(i, outs, what):
            res = []
            b, n = bases[i], len(lay[i][0])
            for o in outs:
                o = list(o)
                if o[0] == "out":
                    g = int(o[1][1:])
                    if not (b <= g < b + n):
                        interfere.append(f"instances-interfere: during {what} of instance {i} packet {o[2]} left stage {g - bases[inst_of(g)]} of instance {inst_of(g)}")
                        continue
                    o[1] = "s%d" % (g - b)
                elif o[0] == "hand":
                    g = o[1]
                    if g < 0 or not (b <= g < b + n):
                        interfere.append(f"instances-interfere: during {what} of instance {i} packet {o[2]} was handed to "
                                         + (f"stage {g - bases[inst_of(g)]} of instance {inst_of(g)}" if g >= 0 else "an object that is no part of it"))
                        o[1] = -1
                    else:
                        o[1] = g - b
                    if isinstance(o[4], list) and len(o) > 4:
                        pass
                res.append(o)
            return res
        for e in log:
            k, samples = e[0], e[-1]
            if k == "adv":
                for i in range(len(cases)):
                    logs[i].append(["adv", e[1], samples[bases[i]:bases[i] + len(lay[i][0])]])
            elif k == "put":
                i = owner[e[1]]
                logs[i].append(["put", e[1], local_outs(i, e[2], "a put into the switch"), samples[bases[i]:bases[i] + len(lay[i][0])]])
            elif k in ("step", "raise"):
                gs = set(int(x) for x in re.findall(r"@(\d+)", e[1][1])) if e[1] else set()
                i = inst_of(min(gs)) if gs else 0
                lab = [e[1][0], re.sub(r"@(\d+)", lambda m: "@%d" % (int(m.group(1)) - bases[i]), e[1][1])] if e[1] else e[1]
                entry = [k, lab, local_outs(i, e[2], "a kernel step")] + ([e[3]] if k == "raise" else []) + \
                        [samples[bases[i]:bases[i] + len(lay[i][0])]]
                logs[i].append(entry)
            else:
                logs[0].append(e)
        out = []
        for i, c in enumerate(cases):
            stages = lay[i][0]
            final = []
            for j, st in enumerate(stages):
                o = gobjs[bases[i] + j]
                if j == 0:
                    final.append({"received": getattr(o, "packets_recevied", None)})
                elif st["el"] == "port":
                    final.append({"received": o.packets_received, "dropped": o.packets_dropped, "store": len(o.store.items)})
                elif st["el"] == "drr":
                    final.append({"received": o.packets_received, "total": o.total_packets,
                                  "quantum": [[cc, ec.qs(o.quantum[cc])] for cc, _ in st["weights"] if cc in o.quantum]})
                else:
                    final.append({"received": o.packets_received, "total": o.total_packets})
            out.append({"log": logs[i], "raised": h.raised, "exhausted": h.exhausted, "final": final, "draws_used": draws.n})
        return out, interfere[:3]

    # ---- log -> Coq ----------------------------------------------------------------------------------------------------------
    def _view(self, case):
        """the case in the shape props/part_gensink.py's log splitter and element-term printers expect"""
        stages, slots, dm = self.layout(case)
        return {"kind": "route", "stages": stages, "workload": case["workload"]}, stages, slots, dm

    @staticmethod
    def _subcase(view, st):
        if st["el"] == "sp":
            return {"kind": "sp", "sched": "sp", "rate": st["rate"], "classes": st["classes"], "cmap": st["cmap"],
                    "workload": {"packets": view["workload"]["packets"], "drivers": []}, "monitor": None}
        return GS._pipe_subcase(view, st)

    def _elem_term(self, view, k):
        st = view["stages"][k]
        if st["el"] == "sp":
            return f"(mq_elem {GS._pipe_parts()['sp']._cfg_term(self._subcase(view, st))})"
        return GS._pipe_elem_term(view, k)

    def _route_term(self, dm):
        if dm["el"] == "flowdemux":
            return f"(flowdemux true {{| fd_nouts := {cf.nat(dm['nouts'])}; fd_default := {cf.b(dm['default'])} |}})"
        tbl = cf.lst([cf.pair(cf.z(f), cf.z(q)) for f, q in sorted(dm["fib"].items())])
        ends = cf.lst([cf.pair(cf.z(f), cf.nat(d)) for f, d in sorted(dm["ends"].items())])
        return (f"(fibdemux true true {{| fb_fib := Some {tbl}; fb_outs := Some {cf.nat(dm['nouts'])}; fb_ends := {ends}; "
                f"fb_default := {cf.b(dm['default'])} |}})")

    def _E(self, case, view, slots, dm):
        q0 = cf.q(0)
        br = []
        for s in slots:
            if s is None:
                br.append(f"(nil_elem {q0})")
            elif len(s) == 1:
                br.append(self._elem_term(view, s[0]))
            else:
                br.append(f"({self._elem_term(view, s[0])} >> {self._elem_term(view, s[1])})")
        if case["kind"] == "randdemux":
            return f"(rdemux_elem (fun p => nth (uid p) {self._rand_oracle(case)[0]} 0%nat) {q0} {cf.lst(br)})"
        if case["kind"] == "nsplitter":
            return f"(mcast {q0} (fun _ _ => true) {cf.lst(br)})"
        if case["kind"] == "hub":
            eps = cf.lst([f"{{| ep_id := {cf.z(i)}; ep_port := true |}}" for i in range(case["nouts"])])
            return (f"(mcast {q0} (fun i p => existsb (fun e => Nat.eqb (fst e) i) (hub_put {eps} (flow p))) {cf.lst(br)})")
        if case["kind"] == "sswitch":
            # the model of the class itself (AdaptSwitch.sswitch_elem); it unfolds to the same `switch` term
            return (f"(sswitch_elem {cf.nat(case['nports'])} {cf.q(case['rate'])} {cf.opt(case['buffer'], cf.z)} {eid_fun('sw.')} {q0})")
        if case["kind"] == "fswitch":
            n = case["nports"]
            tbl = cf.lst([cf.pair(cf.z(f), cf.z(q)) for f, q in sorted(dm["fib"].items())])
            ends = cf.lst([cf.pair(cf.z(f), cf.nat(d)) for f, d in sorted(dm["ends"].items())])
            cm = cf.lst([cf.pair(cf.z(int(f)), cf.z(c)) for f, c in sorted(case["f2c"].items(), key=lambda x: int(x[0]))])
            c = f"{{| fs_nports := {cf.nat(n)}; fs_fib := Some {tbl}; fs_ends := {ends}; fs_class := SchedBase.cls_of {cm} |}}"
            endl = cf.lst(br[n + 1:]) if len(br) > n else "[]"
            return (f"(fswitch_elem {c} {cf.opt(case['buffer'], cf.z)} {eid_fun('fs_')} {self._elem_term(view, 2)} {endl} {q0})")
        return f"(switch {self._route_term(dm)} {q0} {cf.nat(dm['nouts'])} {cf.lst(br)})"

    def _rand_oracle(self, case, obs=None):
        """RandomDemux: -> (the oracle as a Coq list indexed by uid, the same in put order, the observed indices in put order);
        every entry is `choices_index weights-in-force draw`, evaluated by Coq"""
        order = getattr(self, "_put_order", None) if obs is None else [e[1] for e in obs["log"] if e[0] == "put"]
        self._put_order = order
        by_uid, in_order = {}, []
        for k, u in enumerate(order):
            ws = case["probs"] if not case.get("reprobs") or k < case["reprobs"]["at"] else case["reprobs"]["probs"]
            t = f"(choices_index {cf.lst([cf.q(x) for x in ws])} {cf.q(case['draws'][k])})" if k < len(case["draws"]) else "0%nat"
            by_uid[u] = t
            in_order.append(t)
        top = (max(by_uid) + 1) if by_uid else 0
        seen = []
        if obs is not None:
            for e in obs["log"]:
                if e[0] == "put":
                    hs = [o[1] for o in e[2] if o[0] == "hand"]
                    seen.append(cf.nat(hs[0] - 1) if len(hs) == 1 and hs[0] >= 1 else "99%nat")
        return cf.lst([by_uid.get(u, "0%nat") for u in range(top)]), cf.lst(in_order), cf.lst(seen)

    def _terms(self, case, obs):
        view, stages, slots, dm = self._view(case)
        if case["kind"] == "randdemux":
            self._rand_oracle(case, obs)
        for e in obs["log"]:
            if e[0] in ("put", "step") and any(o[0] == "hand" and o[1] < 0 for o in e[2]):
                return None, None, "a packet was handed to an object that is no part of this switch"
        sub, sched, err = GS._pipe_split(view, obs)
        if sub is None:
            return None, None, err
        parts = GS._pipe_parts()
        specs = case["workload"]["packets"]
        n = len(stages)
        stage_terms, triples = [], [[]]
        for k in range(1, n):
            st = stages[k]
            sc = self._subcase(view, st)
            part = parts[st["el"]]
            o = {"log": sub[k], "raised": None, "exhausted": obs["exhausted"]}
            if st["el"] in ("sp", "rr", "wrr", "wfq", "vc", "port"):
                # part_mq / part_wfq read a 6th field of an output as "the counters the next hop read at the hand-off"; ours is the colour
                o["log"] = [([e[0], e[1], [x[:5] for x in e[2]]] + e[3:]) if e[0] in ("put", "step") else e for e in sub[k]]
            if st["el"] == "drr":
                from props import part_drr
                o["quantum"] = obs["final"][k]["quantum"]
                acts, e2 = part_drr.actions(sc, o)
            else:
                acts, e2 = part._actions(sc, o)
            stage_terms.append("(" + part.agree_term(sc, o) + ")")
            if acts is None:
                return None, None, f"stage {k}: {e2}"
            if len(acts) != len(sub[k]):
                return None, None, f"stage {k}: mapping dropped log entries"
            triples.append(acts)
        pos = {}                       # stage -> (slot, position in its chain, length of the chain)
        width_before = []
        wsum = 0
        for j, s in enumerate(slots):
            width_before.append(wsum)
            wsum += 1 if s is None else len(s)
            for i, k in enumerate(s or []):
                pos[k] = (j, i, len(s))

        cast = dm["el"] in ("nsplitter", "hub")

        def inj(k, a):
            j, i, ln = pos[k]
            inner = a if ln == 1 else ("inl (%s)" % a if i == 0 else "inr (%s)" % a)
            core = "inr (" * j + "inl (" + inner + ")" + ")" * j
            return core if cast else "inr (" + core + ")"              # a switch has its demux in front: one more inr

        def out_term(j, u):
            p = ec.pkt_coq(specs[str(u)], u)
            if j == 0:
                return "" if cast else f"EHand 0%nat {p}"              # the demux hands the packet to a device
            if j not in pos:
                return None
            sl, i, ln = pos[j]
            if i == ln - 1:
                return f"EForward {p}"                                  # an output of the switch
            return f"EHand {cf.nat(1 + width_before[sl] + i)} {p}"      # egress port -> its scheduler

        comp = []
        for x in sched:
            if x[0] == "adv":
                comp.append(f"(IAdv {cf.q(x[1])}, [])")
                continue
            seen = x[2] if x[0] == "put" else x[3]
            outs = [out_term(j, u) for (j, u) in seen]
            if any(o is None for o in outs):
                return None, None, "a packet left a stage that is not part of the switch"
            outs = [o for o in outs if o]
            if x[0] == "put":
                comp.append(f"(IPut {ec.pkt_coq(specs[str(x[1])], x[1])}, {cf.lst(outs)})")
            else:
                _, k, idx, _seen, _c = x
                if k == 0 or k not in pos:
                    return None, None, f"a kernel step of stage {k}, which has no process"
                comp.append(f"(IStep ({inj(k, _first_component(triples[k][idx]))}), {cf.lst(outs)})")
        return stage_terms, comp, (view, slots, dm)

    def agree_term(self, case, obs):
        if case["kind"] == "fswitch2":
            if obs["interfere"]:
                return "false (* instances interfere *)"
            return "(" + ") && (".join(self.agree_term(c, o) for c, o in zip(case["insts"], obs["multi"])) + ")"
        if obs["raised"]:
            return "false"
        stage_terms, comp, x = self._terms(case, obs)
        if stage_terms is None:
            return f"false (* {x} *)"
        view, slots, dm = x
        nl = ";" + chr(10) + "    "
        tie = ""
        if case["kind"] == "randdemux":
            # the transcription of random.choices against what CPython's did with the same draws, packet by packet
            _, computed, seen = self._rand_oracle(case, obs)
            tie = f"list_eqb Nat.eqb {computed} {seen} && "
        return tie + " && ".join(stage_terms) + f" && pipe_agree {self._E(case, view, slots, dm)} {cf.lst(comp, sep=nl)}"

    def model_term(self, case):
        if case["kind"] == "fswitch2":
            return None
        try:
            obs = self.run_impl(case)
        except Exception:
            return None
        if obs.get("raised"):
            return None
        stage_terms, comp, x = self._terms(case, obs)
        if stage_terms is None:
            return None
        view, slots, dm = x
        nl = ";" + chr(10) + "    "
        return f"({cf.lst(stage_terms)}, pipe_first_diff {self._E(case, view, slots, dm)} {cf.lst(comp, sep=nl)})"

    # ---- the property as an oracle over the taps ------------------------------------------------------------------------
    def _walk(self, case, obs):
        stages, slots, dm = self.layout(case)
        n = len(stages)
        specs = case["workload"]["packets"]
        injected, handed, crossed, entered = [], {}, {k: [] for k in range(n)}, {k: [] for k in range(n)}
        stray = False
        for e in obs["log"]:
            if e[0] == "put":
                injected.append(e[1])
                entered[0].append(e[1])
            if e[0] in ("put", "step"):
                src = None
                for o in e[2]:
                    if o[0] == "out":
                        src = int(o[1][1:])
                        crossed[src].append((o[2], o[3], o[4]))
                    elif o[0] == "hand":
                        if o[1] in entered:
                            entered[o[1]].append(o[2])
                        if src == 0:
                            handed.setdefault(o[2], []).append(o[1])
            elif e[0] == "stray-out":
                stray = True
        return stages, slots, dm, specs, injected, handed, crossed, entered, stray

    def monitor(self, case, obs, prop_id):
        if obs.get("raised"):
            return [f"route-raises: {obs['raised']}"]
        if case["kind"] == "fswitch2":
            msgs = list(obs["interfere"])
            for i, (c, o) in enumerate(zip(case["insts"], obs["multi"])):
                msgs += [m.replace(": ", f": [instance {i}] ", 1) for m in self.monitor(c, o, prop_id)]
            return msgs[:4]
        stages, slots, dm, specs, injected, handed, crossed, entered, stray = self._walk(case, obs)
        msgs = []
        n = len(stages)
        if stray:
            msgs.append("route-stray: a packet was handed on outside every action")
        fin = obs["final"]
        if fin[0]["received"] is not None and fin[0]["received"] != len(injected):
            msgs.append(f"route-demux-counter: {len(injected)} packets were put into the switch, its demux counts {fin[0]['received']}")
        cast = dm["el"] in ("nsplitter", "hub")
        noroute = []
        if cast:
            # every output the packet is meant for receives it exactly once, in put order
            for u in injected:
                fl = specs[str(u)]["flow"]
                want = [slots[i][0] for i in self.wanted(dm, fl)]
                if sorted(handed.get(u, [])) != want:
                    msgs.append(f"route-replicate: packet {u} of flow {fl} was handed to stages {handed.get(u, [])}, each of {want} must get it exactly once")
        rand = dm["el"] == "randdemux"
        chosen = {}
        if rand:
            # every packet handed in leaves by exactly one output, one whose weight (as assigned at that moment) is positive
            for k, u in enumerate(injected):
                got = handed.get(u, [])
                ws = case["probs"] if not case.get("reprobs") or k < case["reprobs"]["at"] else case["reprobs"]["probs"]
                if len(got) != 1 or not (1 <= got[0] <= dm["nouts"]):
                    msgs.append(f"route-random-demux: packet {u} was handed to stages {got}; exactly one of the {dm['nouts']} outputs must get it")
                else:
                    chosen[u] = got[0]
                    if F(ws[got[0] - 1]) <= 0:
                        msgs.append(f"route-random-demux: packet {u} was handed to output {got[0] - 1} whose weight is {ws[got[0] - 1]} (weights {ws})")
            if obs.get("draws_used") is not None and obs["draws_used"] != len(injected):
                msgs.append(f"route-random-demux: {len(injected)} packets, {obs['draws_used']} random draws consumed (one per packet)")
        # the demux: exactly one device per packet, the one the documented rule names; no route and no default: discarded
        for u in ([] if (cast or rand) else injected):
            fl = specs[str(u)]["flow"]
            sl = self.slot_of(dm, self.rule(dm, fl))
            want = None if sl is None or sl >= len(slots) or slots[sl] is None else slots[sl][0]
            got = handed.get(u, [])
            if want is None:
                noroute.append(u)
                if got:
                    msgs.append(f"route-demux: packet {u} of flow {fl} has no route (rule: {self.rule(dm, fl)}) and was handed to stage {got}")
            elif got != [want]:
                msgs.append(f"route-demux: packet {u} of flow {fl} handed to stages {got}, its rule ({self.rule(dm, fl)}) names stage {want} exactly once")
        # every stage behind the demux: in = forwarded + counted drops (+ held); identity; order
        sink_of = {}
        for sl, s in enumerate(slots):
            for k in (s or []):
                sink_of[k] = s[-1]
        accounted = {}
        for k in range(1, n):
            st = stages[k]
            name = f"stage {k} ({st['el']})"
            ins, outs = entered[k], [u for (u, _, _) in crossed[k]]
            for (u, fields, same) in crossed[k]:
                sp = specs.get(str(u))
                if sp is None or u not in ins:
                    msgs.append(f"route-invented: {name} forwarded packet {u} that was never put into it")
                    continue
                must_same = not (dm["el"] == "nsplitter" and k != 1)       # NSplitter: outputs 1.. get shallow copies
                if (same != must_same or fields[:2] != [sp["id"], sp["flow"]] or fields[2] != str(sp.get("src", "s")) or fields[3] != sp["size"]
                        or F(fields[4]) != F(sp["time"]) or fields[5] != sp.get("payload")):
                    msgs.append(f"route-altered: {name} forwarded packet {u} as {fields}, same-object={same} (expected {must_same})")
            for u in set(outs):
                if outs.count(u) > 1:
                    msgs.append(f"route-duplicated: {name} forwarded packet {u} {outs.count(u)} times")
            dropped = fin[k].get("dropped", 0)
            if fin[k]["received"] != len(ins):
                msgs.append(f"route-counter: {name} counts {fin[k]['received']} packets received, {len(ins)} were put into it")
            held = len(ins) - len(outs) - dropped
            if held < 0:
                msgs.append(f"route-conservation: {name}: {len(ins)} in, {len(outs)} forwarded, {dropped} counted drops")
            elif obs["exhausted"] and held != 0:
                msgs.append(f"route-not-drained: {name}: the simulation ran out of events, {len(ins)} in, {len(outs)} forwarded, "
                            f"{dropped} counted drops: {held} packets unaccounted for")
            for f in sorted({specs[str(u)]["flow"] for u in ins}):
                a = [u for u in ins if specs[str(u)]["flow"] == f and u in outs]
                b = [u for u in outs if str(u) in specs and specs[str(u)]["flow"] == f and u in ins]
                if a != b and len(set(b)) == len(b):
                    msgs.append(f"route-flow-order: {name} forwarded flow {f} as {b}, it entered as {a}")
        # end to end: every packet put into the switch has exactly one fate
        delivered = {}
        for k in sorted(set(sink_of.values())):
            for (u, _, _) in crossed[k]:
                delivered.setdefault(u, []).append(k)
        for u in (chosen if rand else []):
            d = delivered.get(u, [])
            if len(d) > 1 or (d and d[0] != chosen[u]):
                msgs.append(f"route-wrong-output: packet {u} was handed to output stage {chosen[u]} and delivered at {d}")
        for u in ([] if (cast or rand) else injected):
            fl = specs[str(u)]["flow"]
            sl = self.slot_of(dm, self.rule(dm, fl))
            want = None if sl is None or sl >= len(slots) or slots[sl] is None else slots[sl][-1]
            d = delivered.get(u, [])
            if len(d) > 1:
                msgs.append(f"route-delivered-twice: packet {u} reached the sinks of stages {d}")
            elif d and d[0] != want:
                msgs.append(f"route-wrong-output: packet {u} of flow {fl} was delivered at the output of stage {d[0]}, its route ends at stage {want}")
        if obs["exhausted"] and cast:
            for u in injected:
                for i in self.wanted(dm, specs[str(u)]["flow"]):
                    k = slots[i][0]
                    if [x for (x, _, _) in crossed[k]].count(u) > 1:
                        msgs.append(f"route-delivered-twice: output {i} delivered packet {u} more than once")
        elif obs["exhausted"]:
            total_drops = sum(fin[k].get("dropped", 0) for k in range(1, n))
            if len(injected) != len(delivered) + total_drops + len(noroute):
                msgs.append(f"route-conservation: {len(injected)} packets put into the switch, {len(delivered)} delivered, {total_drops} counted "
                            f"drops at the ports, {len(noroute)} without a route: {len(injected) - len(delivered) - total_drops - len(noroute)} unaccounted for")
        else:
            msgs.append("route-not-quiescent: event queue not empty after 30000 steps")
        return msgs[:4]

    def nontrivial(self, case, obs, prop_id):
        if obs.get("raised"):
            return False
        if case["kind"] == "fswitch2":
            return all(self.nontrivial(c, o, prop_id) for c, o in zip(case["insts"], obs["multi"]))
        stages, slots, dm, specs, injected, handed, crossed, entered, stray = self._walk(case, obs)
        sinks = {s[-1] for s in slots if s}
        deliv = sum(len(crossed[k]) for k in sinks)
        if dm["el"] in ("nsplitter", "hub"):
            return len(injected) >= 2 and deliv >= 3
        if dm["el"] == "randdemux":
            return len(injected) >= 3 and deliv >= 2
        fates = (1 if deliv else 0) + (1 if any(f.get("dropped") for f in obs["final"][1:]) else 0) + \
                (1 if any(self.slot_of(dm, self.rule(dm, specs[str(u)]["flow"])) is None for u in injected) else 0)
        return len(injected) >= 3 and deliv >= 1 and fates >= 2

    def shrink(self, case):
        if case["kind"] == "fswitch2":
            for i, c in enumerate(case["insts"]):
                for c2 in self.shrink(c):
                    if c2["workload"]["packets"] and not (i == 1 and not c2["ends"]):
                        yield {**case, "insts": case["insts"][:i] + [c2] + case["insts"][i + 1:]}
            return
        for w in ec.shrink_workload(case["workload"]):
            if w["packets"]:
                yield {**case, "workload": w}
        if case.get("pre"):
            yield {**case, "pre": False}
        if case["kind"] == "fswitch" and case["ends"]:
            yield {**case, "ends": {}}
        if case.get("buffer") is not None:
            yield {**case, "buffer": None}
        if case.get("buffers") and any(b is not None for b in case["buffers"]):
            yield {**case, "buffers": [None] * len(case["buffers"])}

    def describe(self, case, obs):
        if case["kind"] == "fswitch2":
            return ["route:fswitch2", "fswitch2:servers=" + "+".join(c["server"] for c in case["insts"])]
        k = case["kind"]
        keys = ["route:" + k, "route:packets=%d" % min(len(case["workload"]["packets"]), 10)]
        if k == "fswitch":
            keys += ["fswitch:server=" + case["server"], "fswitch:ports=%d" % case["nports"], "fswitch:ends=%d" % len(case["ends"])]
        elif k == "sswitch":
            keys += ["sswitch:ports=%d" % case["nports"], "sswitch:buffer=%s" % case["buffer"]]
        elif k == "randdemux":
            tot = sum(F(x) for x in case["probs"])
            keys += ["randdemux:outputs=%d" % case["nouts"], "randdemux:weights-" + ("sum=1" if tot == 1 else "sum<1" if tot < 1 else "sum>1"),
                     "randdemux:zero-weight=%s" % any(F(x) == 0 for x in case["probs"]), "randdemux:probs-reassigned=%s" % bool(case.get("reprobs"))]
        elif k in ("nsplitter", "hub"):
            keys += [k + ":outputs=%d" % case["nouts"]]
        else:
            keys += [k + ":default=%s" % case["default"]]
        if case.get("pre"):
            keys.append("route:drivers-created-before-the-switch")
        return keys

    def signature(self, case, obs, msg):
        return msg.split(":")[0]


PART = RoutePart()
