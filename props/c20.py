"""C20 -- real-time pacing never runs ahead of the wall clock and alters no result.
Model: coq/Rt/Realtime.v.  The harness replaces onl.sim.rt.monotonic/sleep by a scripted virtual wall
clock, runs the same random program on Environment and on RealtimeEnvironment, and records per
RealtimeEnvironment.step(): peek(), the clock readings consumed, the sleeps requested, the outcome."""
import re
from fractions import Fraction

from vlib.framework import Prop
from vlib import coqfmt as cf
from props.elem_common import T, qs

EIGHTH = Fraction(1, 8)


class Clock:
    """virtual wall clock: every monotonic() returns the current value and then advances by the next scripted
    cost; sleep(d) advances by d scaled/shifted by the next scripted behaviour (early, exact, late)"""

    def __init__(self, start, costs, sleeps):
        self.w = Fraction(start)
        self.costs, self.sleeps = [Fraction(c) for c in costs], [Fraction(s) for s in sleeps]
        self.i = self.j = 0
        self.readings, self.slept = [], []

    def monotonic(self):
        r = self.w
        self.readings.append(r)
        self.w += self.costs[self.i % len(self.costs)]
        self.i += 1
        return float(r)

    def sleep(self, d):
        self.slept.append(Fraction(d))
        k = self.sleeps[self.j] if self.j < len(self.sleeps) else Fraction(1)   # scripted early/late returns, then exact
        self.j += 1
        self.w += Fraction(d) * k           # k < 1: returns early, k > 1: late


def build(env, prog, trace):
    """prog: list of processes; a process is a list of ops:
       ["t", delay, value] timeout; ["w", ev] wait shared event; ["s", ev, value] succeed shared event"""
    events = {}

    def ev(name):
        if name not in events:
            events[name] = env.event()
        return events[name]

    def proc(pid, ops):
        for op in ops:
            if op[0] == "t":
                v = yield env.timeout(T(op[1]), op[2])
                trace.append([qs(env.now), pid, "t", v])
            elif op[0] == "w":
                v = yield ev(op[1])
                trace.append([qs(env.now), pid, "w", v])
            elif op[0] == "s":
                e = ev(op[1])
                if not e.triggered:
                    e.succeed(op[2])
                trace.append([qs(env.now), pid, "s", op[1]])
    for pid, ops in enumerate(prog):
        env.process(proc(pid, ops))


# ------------------------------------------------------------------------------------------------
# second tie (DESIGN 2.6): RealtimeEnvironment.step / sync translated from the tree under test on every run
# (vlib/translate.py, fail closed) into coq/Gen/Extracted_rt.v; bridged to rt_step / rt_sync of Rt/Realtime.v by
# coq/Rt/RtBridge.v; obligations in Props/C20_Bridge.v.  The sleep loop is ONE whitelisted statement (FxSleepLoop, meaning
# = the model's sleep_loop); each monotonic() call is a draw (FxMonotonic) whose value is a parameter.

RT_CONS = [("FxRaiseEmptySchedule", ""),             # raise EmptySchedule()
           ("FxMonotonic", ""),                      # monotonic()   (the reading is the next parameter r1, r2)
           ("FxRaiseTooSlow", "(delta : Q)"),        # raise RuntimeError(f'Simulation too slow for real time ({delta:.3f}s).')
           ("FxSleepLoop", "(real_time : Q)"),       # while True: delta = real_time - monotonic(); if delta <= 0: break; sleep(delta)
           ("FxKernelStep", ""),                     # Environment.step(self)
           ("FxSetRealStart", "(t : Q)")]            # self.real_start = t
RT_SLEEP = """while True:
    delta = _1 - monotonic()
    if delta <= 0:
        break
    sleep(delta)"""
RT_FX = [("raise EmptySchedule()", "FxRaiseEmptySchedule", []),
         ("raise RuntimeError(f'Simulation too slow for real time ({_1:.3f}s).')", "FxRaiseTooSlow", ["Q"]),
         (RT_SLEEP, "FxSleepLoop", ["Q"]),
         ("Environment.step(self)", "FxKernelStep", []),
         ("self.real_start = _1", "FxSetRealStart", ["Q"])]
RT_READS = [("evt_time is Infinity", "empty", "bool", "needs:evt_time"),      # peek() returned Infinity
            ("evt_time", "evt_time", "Q", "needs:evt_time"),                  # ... or the time of the next event
            ("self.real_start", "real_start", "Q"), ("self.env_start", "env_start", "Q"),
            ("self.factor", "factor", "Q"), ("self.strict", "strict", "bool")]
RT_ALIASES = [("evt_time = self.peek()", "evt_time")]
RT_DRAWS = [("monotonic()", ["r1", "r2"], "Q", "FxMonotonic")]


def extracted_rt(repo):
    import os
    from vlib import translate as tr
    path = os.path.join(repo, "onl", "sim", "rt.py")
    specs = [tr.FnSpec(path, "RealtimeEnvironment", "step", "gen_Rt_step", reads=RT_READS, effects=RT_FX, aliases=RT_ALIASES,
                       draws=RT_DRAWS),
             tr.FnSpec(path, "RealtimeEnvironment", "sync", "gen_Rt_sync", effects=RT_FX, draws=RT_DRAWS)]
    return tr.gen_module("onl/sim/rt.py: RealtimeEnvironment.step, sync", None, "", [], "rt_fx", RT_CONS, specs)


class C20(Prop):
    id = "C20"
    props_file = ["Props/C20.v", "Props/C20_Bridge.v", "Props/C20_Examples.v"]
    coq_imports = ["From ONL Require Import Rt.Realtime."]
    n_quick = 400
    n_thorough = 10000
    nontrivial_rule = ("random programs (1-4 processes; timeouts on a 1/8 lattice, shared events) run on Environment and "
                       "RealtimeEnvironment with a scripted wall clock (per-reading processing costs 0..2, sleeps returning at "
                       "0.5x/1x/1.5x), factors {1/8,1/2,1,2}, initial times {0,2}, strict on/off, sync() at random step indices, lag "
                       "below/at/above factor; non-trivial = at least 4 steps of which at least one needed a sleep and, in strict "
                       "mode, the lag came within one lattice step of `factor` or exceeded it; distinct by case hash")
    trusted_base = ["time.monotonic/time.sleep are replaced by a scripted virtual clock (real sleeping is not exercised and not claimed)",
                    "vlib/translate.py (Python ast, fail closed; tables above the plugin class in props/c20.py) regenerates "
                    "coq/Gen/Extracted_rt.v from RealtimeEnvironment.step / sync of the tree under test before every build; the C20_gen_* "
                    "theorems (Props/C20_Bridge.v) bridge them to rt_step / rt_sync; the sleep loop is one whitelisted statement",
                    "the kernel is abstract in the Coq model (any state, any step function): 'same events' is proved for every kernel "
                    "and checked on the real one by running the same program on Environment and RealtimeEnvironment"]
    assumptions = ["the clock oracle is an arbitrary list of readings; monotonic()'s non-decreasing behaviour is not needed by any theorem"]

    # ---- second tie: regenerate the translated bodies before the Coq build (fail closed) ----------------
    def pre_build(self):
        import os
        from vlib import framework as fw
        from vlib import translate as tr
        tr.write_if_changed(os.path.join(fw.COQ, "Gen", "Extracted_rt.v"), extracted_rt(fw.REPO))

    def gen_case(self, rng, tier):
        if rng.random() < 0.3:
            # a full kernel script (interrupts, conditions, failures, run plans) from the kernel harness, run on both environments
            from props import kernel_common as kc
            factor = rng.choice([EIGHTH, Fraction(1, 2), Fraction(1)])
            return {"kind": "kscript", "k": kc.gen_case(rng), "factor": cf.qjson(factor), "wall0": cf.qjson(rng.choice([0, 7])),
                    "costs": [cf.qjson(rng.choice([0, 0, 1, 2, 8]) * EIGHTH * factor) for _ in range(rng.randint(1, 5))],
                    "sleeps": [cf.qjson(rng.choice([Fraction(1, 2), Fraction(1), Fraction(3, 2)])) for _ in range(rng.randint(1, 3))]}
        nproc = rng.randint(1, 4)
        evs = ["e%d" % i for i in range(rng.randint(0, 2))]
        prog = []
        for _ in range(nproc):
            ops = []
            for _ in range(rng.randint(1, 5)):
                r = rng.random()
                if evs and r < 0.15:
                    ops.append(["w", rng.choice(evs)])
                elif evs and r < 0.3:
                    ops.append(["s", rng.choice(evs), rng.randint(0, 9)])
                else:
                    ops.append(["t", cf.qjson(rng.choice([0, 1, 2, 4, 8, 12, 3]) * EIGHTH), rng.randint(0, 9)])
            prog.append(ops)
        factor = rng.choice([EIGHTH, Fraction(1, 2), Fraction(1), Fraction(2)])
        costs = [rng.choice([0, 0, 1, 1, 2, 4, 8, 16]) * EIGHTH * factor for _ in range(rng.randint(1, 6))]
        return {"kind": "rt", "prog": prog, "factor": cf.qjson(factor), "strict": rng.random() < 0.6,
                "t0": cf.qjson(rng.choice([0, 0, 2])), "wall0": cf.qjson(rng.choice([0, 5, 100])),
                "costs": [cf.qjson(c) for c in costs],
                "sleeps": [cf.qjson(rng.choice([Fraction(1, 2), Fraction(1), Fraction(1), Fraction(3, 2)])) for _ in range(rng.randint(1, 4))],
                "sync_at": sorted(rng.sample(range(12), rng.randint(0, 2)))}

    def case_imports(self, case):
        if case.get("kind") == "kscript":
            from props import kernel_common as kc
            return kc.COQ_IMPORTS
        return self.coq_imports

    def _run_kscript(self, case):
        from props import kernel_common as kc
        import onl.sim.rt as rt
        plain = kc.run_case(case["k"])
        clk = Clock(case["wall0"], case["costs"], case["sleeps"])
        saved = (rt.monotonic, rt.sleep)
        rt.monotonic, rt.sleep = clk.monotonic, clk.sleep
        try:
            robs = kc.run_case(case["k"], env_factory=lambda t0: rt.RealtimeEnvironment(initial_time=t0, factor=T(case["factor"]), strict=False))
        finally:
            rt.monotonic, rt.sleep = saved
        return {"plain_trace": plain["trace"], "plain_results": plain["results"], "rt_obs": robs, "readings": len(clk.readings),
                "slept": len(clk.slept)}

    def run_impl(self, case):
        if case.get("kind") == "kscript":
            return self._run_kscript(case)
        from onl.sim import Environment
        import onl.sim.rt as rt
        from onl.sim.core import EmptySchedule
        # plain run
        env = Environment(initial_time=T(case["t0"]))
        plain = []
        build(env, case["prog"], plain)
        praised = None
        try:
            env.run()
        except Exception as e:
            praised = [type(e).__name__, str(e)[:100]]
        # real-time run with the scripted clock
        clk = Clock(case["wall0"], case["costs"], case["sleeps"])
        saved = (rt.monotonic, rt.sleep)
        rt.monotonic, rt.sleep = clk.monotonic, clk.sleep
        steps, rtrace = [], []
        try:
            renv = rt.RealtimeEnvironment(initial_time=T(case["t0"]), factor=T(case["factor"]), strict=case["strict"])
            rs0 = clk.readings[-1]
            build(renv, case["prog"], rtrace)
            n = 0
            while n < 400:
                if n in case["sync_at"]:
                    r0 = len(clk.readings)
                    renv.sync()
                    steps.append({"sync": [qs(x) for x in clk.readings[r0:]]})
                r0, s0 = len(clk.readings), len(clk.slept)
                pk = renv.peek()
                out = "proceed"
                try:
                    renv.step()
                except EmptySchedule:
                    out = "empty"
                except RuntimeError as e:
                    out = "tooslow:" + str(e)
                steps.append({"peek": None if pk == float("inf") else qs(pk), "readings": [qs(x) for x in clk.readings[r0:]],
                              "sleeps": [qs(x) for x in clk.slept[s0:]], "out": out, "now": qs(renv.now)})
                n += 1
                if out != "proceed":
                    break
        finally:
            rt.monotonic, rt.sleep = saved
        return {"plain": plain, "plain_raised": praised, "rt": rtrace, "steps": steps, "real_start0": qs(rs0)}

    def agree_term(self, case, obs):
        if case.get("kind") == "kscript":
            from props import kernel_common as kc
            return kc.agree_term(case["k"], obs["rt_obs"])      # the kernel model against the REAL-TIME environment's trace
        cfg = f"{{| factor := {cf.q(case['factor'])}; strict := {cf.b(case['strict'])}; env_start := {cf.q(case['t0'])} |}}"
        rs = obs["real_start0"]
        terms = []
        for st in obs["steps"]:
            if "sync" in st:
                if len(st["sync"]) != 1:
                    return "false (* sync() did not read the clock exactly once *)"
                rs = st["sync"][0]
                continue
            if st["out"] == "proceed":
                o = "RProceed"
            elif st["out"] == "empty":
                o = "REmpty"
            else:
                m = re.search(r"\(([-0-9.]+)s\)", st["out"])
                if not m or len(st["readings"]) != 2:
                    return "false (* unexpected RuntimeError text / readings *)"
                # the message prints delta with 3 decimals; the exact delta is (second reading - due real time):
                # the monitor checks the printed text, the model is given the exact value
                due = Fraction(rs) + (Fraction(st["peek"]) - Fraction(case["t0"])) * Fraction(case["factor"])
                d = Fraction(st["readings"][1]) - due
                if f"{float(d):.3f}" != m.group(1):
                    return "false (* delta in the message is not second reading - due time *)"
                o = f"(RTooSlow {cf.q(d)})"
            terms.append(f"rt_step_agree {cfg} {cf.q(rs)} {cf.opt(st['peek'], cf.q)} {cf.lst([cf.q(x) for x in st['readings']])} "
                         f"{o} {cf.lst([cf.q(x) for x in st['sleeps']])}")
        return " &&\n  ".join(terms) if terms else "true"

    def monitor(self, case, obs):
        if case.get("kind") == "kscript":
            if obs["rt_obs"]["trace"] != obs["plain_trace"] or obs["rt_obs"]["results"] != obs["plain_results"]:
                i = next((k for k, (a, b) in enumerate(zip(obs["rt_obs"]["trace"], obs["plain_trace"])) if a != b), None)
                return [f"rt-trace-differs: kernel script: first difference at trace index {i}: "
                        f"{obs['rt_obs']['trace'][i] if i is not None and i < len(obs['rt_obs']['trace']) else None} vs "
                        f"{obs['plain_trace'][i] if i is not None and i < len(obs['plain_trace']) else None}; results "
                        f"{obs['rt_obs']['results'][:3]} vs {obs['plain_results'][:3]}"]
            return []
        msgs = []
        # same event sequence with the same values, for as far as the real-time run got
        n = len(obs["rt"])
        complete = obs["steps"] and obs["steps"][-1]["out"] == "empty"
        if obs["rt"] != obs["plain"][:n] or (complete and n != len(obs["plain"])):
            msgs.append(f"rt-trace-differs: RealtimeEnvironment trace {obs['rt'][:6]} vs Environment {obs['plain'][:6]}")
        factor, t0 = Fraction(case["factor"]), Fraction(case["t0"])
        rs = Fraction(obs["real_start0"])
        for k, st in enumerate(obs["steps"]):
            if "sync" in st:
                rs = Fraction(st["sync"][-1])
                continue
            if st["peek"] is None:
                if st["out"] != "empty":
                    msgs.append("rt-empty: no EmptySchedule on an empty agenda")
                continue
            due = rs + (Fraction(st["peek"]) - t0) * factor
            rd = [Fraction(x) for x in st["readings"]]
            if st["out"] == "proceed":
                if not rd or rd[-1] < due:
                    msgs.append(f"rt-early: step {k} processed an occurrence due at wall time {due} after last reading {rd[-1] if rd else None}")
                if case["strict"] and rd and rd[0] - due > factor:
                    msgs.append(f"rt-strict-missed: step {k} lag {rd[0] - due} > factor {factor} but no RuntimeError")
            elif st["out"].startswith("tooslow"):
                if not case["strict"]:
                    msgs.append("rt-nonstrict-raises: 'too slow' raised in non-strict mode")
                elif not (rd and rd[0] - due > factor):
                    msgs.append(f"rt-strict-spurious: step {k} raised 'too slow' with lag {rd[0] - due if rd else None} <= factor {factor}")
                if "Simulation too slow for real time" not in st["out"]:
                    msgs.append("rt-message: unexpected RuntimeError text " + st["out"][:60])
            elif st["out"] == "empty":
                msgs.append("rt-empty: EmptySchedule although peek() had a time")
        return msgs[:3]

    def nontrivial(self, case, obs):
        if case.get("kind") == "kscript":
            return len(obs["plain_trace"]) >= 6 and obs["slept"] > 0
        st = [s for s in obs["steps"] if "sync" not in s]
        return len(st) >= 4 and any(s["sleeps"] for s in st)

    def shrink(self, case):
        if case.get("kind") == "kscript":
            from props import kernel_common as kc
            for k in kc.shrink(case["k"]):
                yield {**case, "k": k}
            return
        p = case["prog"]
        for i in range(len(p)):
            if len(p) > 1:
                yield {**case, "prog": p[:i] + p[i + 1:]}
        for i in range(len(p)):
            for j in range(len(p[i])):
                if len(p[i]) > 1:
                    yield {**case, "prog": p[:i] + [p[i][:j] + p[i][j + 1:]] + p[i + 1:]}
        if case["sync_at"]:
            yield {**case, "sync_at": case["sync_at"][1:]}
        if len(case["costs"]) > 1:
            yield {**case, "costs": case["costs"][:-1]}

    def describe(self, case, obs):
        if case.get("kind") == "kscript":
            return ["rt:kernel-script", "rt:factor=" + case["factor"]]
        keys = ["rt", "rt:strict" if case["strict"] else "rt:nonstrict", "rt:factor=" + case["factor"]]
        last = obs["steps"][-1]["out"].split(":")[0] if obs["steps"] else "none"
        keys.append("rt:ends-" + last)
        if case["sync_at"]:
            keys.append("rt:with-sync")
        return keys


PROP = C20()
