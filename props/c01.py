"""C01 -- events take effect in time order, urgent first, then in trigger order.
Model: coq/Kernel/Model.v (theorems: coq/Kernel/Order.v, statements in coq/Props/C01.v).
Correspondence: random script families (props/kernel_common.py) on the real onl.sim.Environment vs the model.
Monitor: the property statement over the record of env.schedule / env.step calls (klog), independent of the model."""
from fractions import Fraction

from vlib.framework import Prop
from props import kernel_common as kc

URGENT_KINDS = {"Initialize", "Interruption"}


class C01(Prop):
    id = "C01"
    props_file = ["Props/C01.v", "Props/C01_Bridge.v", "Props/C01_Examples.v"]
    coq_imports = kc.COQ_IMPORTS
    n_quick = 800
    n_thorough = 12000
    shard = 80
    case_timeout = 30
    nontrivial_rule = ("random script families: 1-8 initial processes plus spawned children, delays from the dyadic lattice "
                       "{0,1,2,3,1/2,1/4,3/2,1/8} (and negative ones), shared events and timeouts, joins, interrupts, conditions, "
                       "failures, run plans mixing run(), run(until=number/event) and step(); non-trivial = at least 6 processed "
                       "events of which at least 3 at one instant; distinct by hash of the case")
    trusted_base = ["vlib/translate.py (Python ast, fail closed; observation/effect tables in props/kernel_tie.py) regenerates coq/Gen/Extracted_kernel.v from the kernel leaves of the tree under test (Environment.schedule/peek/step, Event.succeed/fail/defused, Timeout/Initialize/Interruption.__init__, Interruption._interrupt, Process.interrupt) before every build; the C01_gen_* theorems (Props/C01_Bridge.v) bridge them to Kernel/Model.v; step()'s heappop try/except, its callback loop and peek()'s try/except are whitelisted as one statement each; Process._resume is not translated",
                    "kernel harness props/kernel_common.py: real generators on the real Environment; env.schedule/env.step wrapped "
                    "as instance attributes (no change in /repo); events named by creation index",
                    "times are exact: dyadic delays, Python numbers converted with fractions.Fraction; float rounding is outside the theorems",
                    "CPython generator semantics (send/throw/StopIteration) and heapq are modelled, not verified"]
    assumptions = ["theorems are about the model of the repaired kernel (fix: bd0bcc6 in onl/sim/core.py: the stop of run(until=event) "
                   "is raised after the remaining callbacks of the event); the C01 statements do not depend on that choice",
                   "process bodies do not call env.run()/step() re-entrantly",
                   "one Environment (no mixing of environments); Event.trigger (unused public method) is not modelled"]
    partial = []

    knobs = {"p_probe": 0.95}


    # ---- second tie: the kernel leaves translated from the tree under test before the Coq build (fail closed) ----
    def pre_build(self):
        from vlib import framework as fw
        from props import kernel_tie
        kernel_tie.write_extracted_kernel(fw.REPO, fw.COQ)

    def gen_case(self, rng, tier):
        return kc.gen_case(rng, self.knobs)

    def run_impl(self, case):
        return kc.run_case(case)

    def agree_term(self, case, obs):
        return kc.agree_term(case, obs)

    def model_term(self, case):
        return kc.model_term(case)

    def nontrivial(self, case, obs):
        return kc.nontrivial(case, obs)

    def shrink(self, case):
        return kc.shrink(case)

    def describe(self, case, obs):
        return kc.describe(case, obs)

    # ---- the property, as an oracle over what the implementation did ---------------------------------
    def monitor(self, case, obs):
        msgs = list(kc.basic_monitor(case, obs))
        pending = {}            # sid -> (time, prio, seq)
        seq = 0
        last_now = None
        sentinel_expected = False
        done = set()
        for k in obs["klog"]:
            tag = k[0]
            if tag == "R":
                sentinel_expected = '"run_num"' in k[1]
                now = Fraction(k[2])
            elif tag == "S":
                _, sid, now_s, delay, prio, kind = k
                now = Fraction(now_s)
                t = now + Fraction(delay)
                if Fraction(delay) < 0:
                    msgs.append(f"negative-delay-scheduled: {kind} scheduled with delay {delay} at {now_s}")
                if sid in pending or sid in done:
                    # the same event on the agenda twice (only by succeed() on a live Process event, a misuse)
                    pass
                else:
                    pending[sid] = (t, prio, seq)
                seq += 1
                want = 0 if kind in URGENT_KINDS else 1
                if kind == "Event" and sentinel_expected:
                    want = 0
                sentinel_expected = False
                if prio != want:
                    msgs.append(f"priority-class: {kind} scheduled with priority {prio}, expected {want} "
                                f"(process starts, interrupts and the numeric until-stop are urgent, everything else normal)")
            elif tag == "T":
                _, sid, t0, d = k
                now = Fraction(t0)
                if sid not in pending or pending[sid][0] != Fraction(t0) + Fraction(d):
                    msgs.append(f"timeout-not-at-t0+d: timeout created at {t0} with delay {d} is due at "
                                f"{pending.get(sid, ('nowhere',))[0]}")
                if Fraction(d) < 0:
                    msgs.append(f"negative-delay-accepted: timeout({d}) at {t0} did not raise ValueError")
            elif tag == "TX":
                _, t0, d, exn = k
                now = Fraction(t0)
                if Fraction(d) < 0:
                    if exn[0] != "Value" or exn[1] != [["int", 6]]:
                        msgs.append(f"negative-delay-wrong-exception: timeout({d}) raised {exn}")
                else:
                    msgs.append(f"timeout-refused: timeout({d}) raised {exn}")
            elif tag == "P":
                _, sid, nb, na = k
                now = Fraction(na)
                if Fraction(nb) > Fraction(na):
                    msgs.append(f"time-decreases: a step took the clock from {nb} to {na}")
                if sid not in pending:
                    if sid not in done:
                        msgs.append(f"processed-unscheduled: event {sid} processed at {na} without having been scheduled")
                else:
                    key = pending.pop(sid)
                    done.add(sid)
                    if key[0] != Fraction(na):
                        msgs.append(f"not-at-due-time: entry due at {key[0]} (prio {key[1]}) took effect at {na}")
                    for s2, k2 in pending.items():
                        if k2 < key:
                            what = ("late" if k2[0] < key[0] else
                                    "urgent-after-normal" if k2[1] < key[1] else "fifo")
                            msgs.append(f"order-{what}: entry (t={key[0]}, prio={key[1]}, trigger#{key[2]}) processed at {na} "
                                        f"while (t={k2[0]}, prio={k2[1]}, trigger#{k2[2]}) was pending")
                            break
            else:
                continue
            if last_now is not None and now < last_now:
                msgs.append(f"time-decreases: clock {last_now} then {now}")
            last_now = now
        # what process bodies saw: the clock at successive log entries never decreases
        last = None
        for t in obs["trace"]:
            now = Fraction(t[2] if t[0] != "probe" else t[3])
            if last is not None and now < last:
                msgs.append(f"time-decreases: trace shows clock {last} then {now}")
            last = now
        # dedupe by signature
        seen, out = set(), []
        for m in msgs:
            s = m.split(":")[0]
            if s not in seen:
                seen.add(s)
                out.append(m)
        return out


PROP = C01()
