"""C15 -- round-robin schedulers give each backlogged class its per-visit allowance.
Assembled from the scheduler parts: mq (RR, WRR) and drr (DRR)."""
from vlib.composite import Composite

PROP = Composite("C15", ["mq", "drr"], extra_props_files=["Props/C15_Examples_RR.v", "Props/C15_Examples_DRR.v"], n_quick=360, n_thorough=9000)
