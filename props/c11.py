"""C11 -- token-bucket output conforms to (rate, bucket) and delays nothing needlessly; two-rate colours.
Assembled from the element part props/part_bucket.py (kinds 'tb', 'trtb')."""
from vlib.composite import Composite

PROP = Composite("C11", ["bucket"], extra_props_files=["Props/C11_Examples.v"], n_quick=400, n_thorough=10000, case_timeout=20)
