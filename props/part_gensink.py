"""C08 part 'gensink': DistPacketGenerator law, PacketSink books, and conservation through random
pipelines of REAL elements (generator -> elements -> sinks), checked by the monitor (the composition
theorem C08_network_conserves + the per-element theorems carry the proof side)."""
from fractions import Fraction

from vlib import coqfmt as cf
from props import elem_common as ec


class Script:
    def __init__(self, vals, conv=ec.T):
        self.vals = [conv(v) for v in vals]
        self.n = 0

    def __call__(self):
        v = self.vals[self.n]
        self.n += 1
        return v


class PassTap:
    """records what crosses a stage boundary and hands the packet on unchanged"""

    def __init__(self, env, name, nxt, log):
        self.env, self.name, self.nxt, self.log = env, name, nxt, log

    def put(self, p):
        if not hasattr(p, "uid"):
            p.uid = len(self.log)          # first sighting (injection): the log position is a fresh identity
        self.log.append((self.name, p.uid, p.packet_id, p.flow_id, str(p.src), p.size, ec.qs(p.time), ec.qs(self.env.now)))
        if self.nxt is not None:
            self.nxt.put(p)


ELEMENT_KINDS = ["wire", "port", "port0", "tb", "sp", "rr", "wrr", "drr", "wfq", "flowdemux"]


class GenSinkPart:
    name = "gensink"
    kinds = ["gen", "sink", "pipeline"]
    serves = ["C08"]
    coq_imports = ["From ONL Require Import Base.Cmp Elem.Packet Elem.GenSink."]
    props_files = {"C08": ["Props/C08_GenSink.v", "Props/C08_Net.v"]}
    weight = 2
    nontrivial_rule = {"C08": "gen: scripted inter-arrival/size draws incl. zero gaps, finite and infinite finish, initial delays; "
                              "sink: random delivery sequences over 1-3 keys with all 8 flag combinations, keyed by flow id or by source; "
                              "pipeline: 1-3 generators -> chain of 1-3 real elements (wire, port with/without limit, token bucket, "
                              "SP/RR/WRR/DRR/WFQ, FlowDemux fan-out) -> per-flow sinks, run until the event queue is empty; "
                              "non-trivial = at least 3 packets (gen: >= 3 emissions; sink: >= 3 deliveries over >= 2 keys; pipeline: >= 4 packets injected)"}
    trusted_base = {"C08": ["arrival_dist/size_dist/delay_dist are scripted sequences",
                            "pipelines are checked on the real code by the conservation monitor only; the proof side is the composition "
                            "theorem C08_network_conserves applied to the per-element conservation theorems"]}
    partial = {"C08": []}

    # ------------------------------------------------------------------------------------------
    def gen_case(self, rng, tier, prop_id):
        r = rng.random()
        if r < 0.3:
            return self._gen_gen(rng)
        if r < 0.55:
            return self._gen_sink(rng)
        return self._gen_pipeline(rng)

    def _gen_gen(self, rng):
        n = rng.randint(1, 8)
        lat = [Fraction(0), Fraction(1, 4), Fraction(1, 2), Fraction(1), Fraction(3, 2), Fraction(2)]
        arr = [rng.choice(lat) for _ in range(n + 1)]
        sizes = [rng.choice([40, 64, 100, 512, 1500]) for _ in range(n)]
        init = rng.choice([Fraction(0), Fraction(0), Fraction(1, 2), Fraction(1), Fraction(3)])
        total = init + sum(arr)
        finish = rng.choice([None, None, total / 2, total, init, Fraction(1)])
        return {"kind": "gen", "init": cf.qjson(init), "finish": None if finish is None else cf.qjson(finish),
                "flow": rng.randint(0, 5), "arr": [cf.qjson(a) for a in arr], "sizes": sizes,
                "t0": cf.qjson(rng.choice([Fraction(0), Fraction(0), Fraction(2)]))}

    def _gen_sink(self, rng):
        n = rng.randint(1, 10)
        now = Fraction(0)
        ds = []
        for _ in range(n):
            now += rng.choice([Fraction(0), Fraction(1, 4), Fraction(1), Fraction(5, 2)])
            pt = now - rng.choice([Fraction(0), Fraction(1, 4), Fraction(1, 2), now])
            ds.append([rng.randint(0, 2), rng.choice([40, 100, 1500]), cf.qjson(pt), cf.qjson(now)])
        return {"kind": "sink", "rec_arrivals": rng.random() < 0.8, "absolute": rng.random() < 0.5,
                "rec_waits": rng.random() < 0.8, "by_flow": rng.random() < 0.6, "ds": ds}

    def _gen_pipeline(self, rng):
        ngen = rng.randint(1, 3)
        gens = []
        for g in range(ngen):
            n = rng.randint(1, 6)
            gens.append({"flow": g, "init": cf.qjson(rng.choice([Fraction(0), Fraction(1, 2), Fraction(1)])),
                         "arr": [cf.qjson(rng.choice([Fraction(0), Fraction(1, 4), Fraction(1, 2), Fraction(1), Fraction(2)])) for _ in range(n + 1)],
                         "sizes": [rng.choice([64, 128, 512, 1024]) for _ in range(n)]})
        chain = [rng.choice(ELEMENT_KINDS) for _ in range(rng.randint(1, 3))]
        # a demux fans out: keep it last
        if "flowdemux" in chain:
            chain = [c for c in chain if c != "flowdemux"] + ["flowdemux"]
        return {"kind": "pipeline", "gens": gens, "chain": chain, "rate": rng.choice([1024, 4096, 65536]),
                "qlimit": rng.choice([None, None, 2, 3, 2048]), "limit_bytes": rng.random() < 0.5,
                "delay": cf.qjson(rng.choice([Fraction(0), Fraction(1, 4), Fraction(1)]))}

    # ------------------------------------------------------------------------------------------
    def run_impl(self, case):
        return getattr(self, "_run_" + case["kind"])(case)

    def _run_gen(self, case):
        from onl.sim import Environment
        from onl.packet.dist_generator import DistPacketGenerator
        env = Environment(initial_time=ec.T(case["t0"]))
        h = ec.Harness(env)
        arr, sizes = Script(case["arr"]), Script(case["sizes"], conv=int)
        fin = float("inf") if case["finish"] is None else ec.T(case["finish"])
        g = DistPacketGenerator(env, "gen0", arr, sizes, initial_delay=ec.T(case["init"]), finish=fin, flow_id=case["flow"])
        g.out = h.tap("out")
        h.after_action(lambda: [g.packets_send, arr.n, sizes.n])
        # stop before the scripted draws run out
        log = h.run(max_steps=1 + len(case["sizes"]))
        return {"log": log, "raised": h.raised, "src_ok": all(p.src == "gen0" for p in g.out.got)}

    def _run_sink(self, case):
        from onl.sim import Environment
        from onl.packet import Packet
        from onl.packet.sink import PacketSink
        env = Environment()
        s = PacketSink(env, rec_arrivals=case["rec_arrivals"], absolute_arrivals=case["absolute"],
                       rec_waits=case["rec_waits"], rec_flow_ids=case["by_flow"])
        raised = None
        try:
            for (k, size, pt, now) in case["ds"]:
                env._now = ec.T(now)
                s.put(Packet(time=ec.T(pt), size=size, packet_id=1, src=f"src{k}", flow_id=k))
        except Exception as e:
            raised = [type(e).__name__, str(e)[:200]]
        keys = list(s.packets_received.keys())

        def key_of(k):
            return k if case["by_flow"] else int(str(k)[3:])
        books = []
        for k in keys:
            books.append([key_of(k), [ec.qs(x) for x in s.waits.get(k, [])], list(s.packet_sizes.get(k, [])),
                          [ec.qs(x) for x in s.packet_times.get(k, [])], [ec.qs(x) for x in s.arrivals.get(k, [])],
                          ec.qs(s.first_arrival.get(k, 0.0)), ec.qs(s.last_arrival.get(k, 0.0)),
                          s.packets_received[k], s.bytes_received[k]])
        return {"books": books, "raised": raised}

    def _build_element(self, env, kind, case, flows, log, idx, nxt_of):
        """returns (entry element, list of (name, element) for inspection); `nxt_of(flow)` gives the next stage"""
        from onl.netdev.wire import Wire
        from onl.netdev.port import Port
        from onl.netdev.token_bucket import TokenBucket
        from onl.netdev.demux import FlowDemux
        from onl.scheduler import SP, RR, WRR, DRR, WFQ
        rate = case["rate"]
        name = f"{idx}:{kind}"
        after = PassTap(env, name + ":out", None, log)

        class Fan:
            def put(self_inner, p):
                after.log.append((name + ":out", getattr(p, "uid", -id(p)), p.packet_id, p.flow_id, str(p.src), p.size, ec.qs(p.time), ec.qs(env.now)))
                nxt_of(p.flow_id).put(p)
        out = Fan()
        if kind == "wire":
            d = ec.T(case["delay"])
            e = Wire(env, delay_dist=lambda: d)
        elif kind == "port":
            e = Port(env, rate=rate, qlimit=case["qlimit"], limit_bytes=case["limit_bytes"], element_id=f"p{idx}")
        elif kind == "port0":
            e = Port(env, rate=0, qlimit=case["qlimit"], limit_bytes=case["limit_bytes"], element_id=f"p{idx}")
        elif kind == "tb":
            e = TokenBucket(env, rate=rate, bucket_size=1024)
        elif kind == "sp":
            e = SP(env, rate, {f: f + 1 for f in flows})
        elif kind == "rr":
            e = RR(env, rate, list(flows))
        elif kind == "wrr":
            e = WRR(env, rate, {f: f + 1 for f in flows})
        elif kind == "drr":
            e = DRR(env, rate, {f: f + 1 for f in flows})
        elif kind == "wfq":
            e = WFQ(env, rate, {f: f + 1 for f in flows})
        elif kind == "flowdemux":
            e = FlowDemux([out for _ in flows][:max(1, len(flows) - 1)], None)   # the last flow has no route and no default
            return e, e
        else:
            raise ValueError(kind)
        e.out = out
        return e, e

    def _run_pipeline(self, case):
        import io
        import contextlib
        from onl.sim import Environment
        from onl.packet.dist_generator import DistPacketGenerator
        from onl.packet.sink import PacketSink
        env = Environment()
        log = []
        flows = [g["flow"] for g in case["gens"]]
        sinks = {f: PacketSink(env) for f in flows}
        sink_taps = {f: PassTap(env, "sink%d" % f, sinks[f], log) for f in flows}
        elems = []
        nxt_of = (lambda f: sink_taps[f])
        entry = None
        for idx in reversed(range(len(case["chain"]))):
            kind = case["chain"][idx]
            e, insp = self._build_element(env, kind, case, flows, log, idx, nxt_of)
            elems.append((idx, kind, insp))
            entry = e
            nxt_of = (lambda f, e=e: e)
        first = PassTap(env, "inject", entry, log)
        gens = []
        for g in case["gens"]:
            arr, sizes = Script(g["arr"]), Script(g["sizes"], conv=int)
            total = sum(Fraction(a) for a in g["arr"][:len(g["sizes"])]) + Fraction(g["init"])
            dg = DistPacketGenerator(env, "gen%d" % g["flow"], arr, sizes, initial_delay=ec.T(g["init"]),
                                     finish=ec.T(total), flow_id=g["flow"])
            dg.out = first
            gens.append(dg)
        raised = None
        steps = 0
        buf = io.StringIO()
        try:
            with contextlib.redirect_stdout(buf):
                while env._queue and steps < 20000:
                    env.step()
                    steps += 1
        except Exception as e:
            raised = [type(e).__name__, str(e)[:300]]
        drops = {}
        for idx, kind, e in elems:
            if kind in ("port", "port0"):
                drops[f"{idx}:{kind}"] = [e.packets_received, e.packets_dropped]
        books = {f: [sinks[f].packets_received.get(f, 0), sinks[f].bytes_received.get(f, 0)] for f in flows}
        return {"log": [list(x) for x in log], "raised": raised, "exhausted": not env._queue, "drops": drops,
                "sink_books": {str(k): v for k, v in books.items()}, "sent": [g.packets_send for g in gens]}

    # ------------------------------------------------------------------------------------------
    def agree_term(self, case, obs):
        k = case["kind"]
        if k == "gen":
            if obs["raised"]:
                return "false"
            acts = []
            na = ns = 0
            first = True
            for e in obs["log"]:
                sample = e[-1]
                if e[0] == "adv":
                    a, outs = f"GAdvance {cf.q(e[1])}", []
                elif e[0] == "step" and e[1] == ["Initialize", "run"]:
                    a, outs = "GStart", e[2]
                elif e[0] == "step" and e[1] == ["Timeout", "run"]:
                    outs = e[2]
                    ad = cf.opt(case["arr"][na] if sample[1] > na else None, cf.q)
                    if first:
                        a = f"GInitFire {ad}"
                        first = False
                    else:
                        a = f"GFire {cf.z(case['sizes'][ns])} {ad}"
                elif e[0] == "step" and e[1][0] == "Process":
                    continue            # the generator's own termination event (finish reached): no model action
                else:
                    return f"false (* unexpected log entry {e[:2]} *)"
                na, ns = sample[1], sample[2]
                o = cf.lst([f"({cf.z(x[3][0])}, {cf.z(x[3][3])}, {cf.q(x[3][4])}, {cf.z(x[3][1])})" for x in outs])
                acts.append(f"({a}, {o}, {cf.z(sample[0])})")
            cfg = f"{{| g_init := {cf.q(case['init'])}; g_finish := {cf.opt(case['finish'], cf.q)}; g_flow := {cf.z(case['flow'])} |}}"
            return f"gen_agree {cfg} (gen0 {cf.q(case['t0'])}) {cf.lst(acts, sep=';\n   ')}"
        if k == "sink":
            if obs["raised"]:
                return "false"
            cfg = (f"{{| rec_arrivals := {cf.b(case['rec_arrivals'])}; absolute_arrivals := {cf.b(case['absolute'])}; "
                   f"rec_waits := {cf.b(case['rec_waits'])} |}}")
            ds = cf.lst([f"({cf.z(d[0])}, {cf.z(d[1])}, {cf.q(d[2])}, {cf.q(d[3])})" for d in case["ds"]])
            books = cf.lst([f"({cf.z(b[0])}, {{| k_waits := {cf.lst([cf.q(x) for x in b[1]])}; k_sizes := {cf.lst([cf.z(x) for x in b[2]])}; "
                            f"k_times := {cf.lst([cf.q(x) for x in b[3]])}; k_arrivals := {cf.lst([cf.q(x) for x in b[4]])}; "
                            f"k_first := {cf.q(b[5])}; k_last := {cf.q(b[6])}; k_packets := {cf.z(b[7])}; k_bytes := {cf.z(b[8])} |}})"
                            for b in obs["books"]])
            return f"books_eqb (sink_run {cfg} {ds}) {books}"
        return None    # pipelines: monitor only

    def model_term(self, case):
        return None

    # ------------------------------------------------------------------------------------------
    def monitor(self, case, obs, prop_id):
        k = case["kind"]
        if obs.get("raised"):
            return [f"{k}-raises: {obs['raised']}"]
        msgs = []
        if k == "gen":
            now = Fraction(case["t0"])
            ems = []
            for e in obs["log"]:
                if e[0] == "adv":
                    now = Fraction(e[1])
                elif e[0] == "step":
                    for o in e[2]:
                        ems.append((now, o[3]))
            T = Fraction(case["t0"]) + Fraction(case["init"])
            fin = None if case["finish"] is None else Fraction(case["finish"])
            exp = []
            for i, s in enumerate(case["sizes"]):
                if fin is not None and not (T < fin):
                    break
                T = T + Fraction(case["arr"][i])
                exp.append((T, [i + 1, case["flow"], "gen0", s, cf.qjson(T), None]))
            got = [(t, f) for (t, f) in ems]
            n = min(len(got), len(exp))
            if [(t, f[:4], Fraction(f[4])) for t, f in got[:n]] != [(t, f[:4], Fraction(f[4])) for t, f in exp[:n]] or len(got) > len(exp):
                msgs.append(f"gen-law: emissions {[(str(t), f) for t, f in got][:6]} expected {[(str(t), f) for t, f in exp][:6]} "
                            "(packet n at initial_delay + n-th partial sum of the draws, n-th size, ids 1,2,.., while previous instant < finish)")
            if not obs["src_ok"]:
                msgs.append("gen-law: source field is not the generator's element id")
        elif k == "sink":
            per = {}
            order = []
            for (key, size, pt, now) in case["ds"]:
                if key not in per:
                    per[key] = []
                    order.append(key)
                per[key].append((size, Fraction(pt), Fraction(now)))
            got = {b[0]: b for b in obs["books"]}
            if [b[0] for b in obs["books"]] != order:
                msgs.append("sink-books: key set/order differs")
            for key in order:
                b = got.get(key)
                if b is None:
                    continue
                d = per[key]
                arr = [x[2] for x in d]
                if not case["absolute"]:
                    arr = [a - p for a, p in zip(arr, [Fraction(0)] + arr[:-1])]
                exp_w = [x[2] - x[1] for x in d] if case["rec_waits"] else []
                exp_a = arr if case["rec_arrivals"] else []
                if b[7] != len(d) or b[8] != sum(x[0] for x in d) or [Fraction(x) for x in b[1]] != exp_w \
                        or [Fraction(x) for x in b[4]] != exp_a:
                    msgs.append(f"sink-books: key {key}: counts/bytes/waits/arrivals {b[7]},{b[8]},{b[1]},{b[4]} do not match the {len(d)} delivered packets")
        else:
            msgs += self._monitor_pipeline(case, obs)
        return msgs[:3]

    def _monitor_pipeline(self, case, obs):
        msgs = []
        if not obs["exhausted"]:
            return ["pipeline-not-quiescent: event queue not empty after 20000 steps"]
        log = obs["log"]
        inj = [x for x in log if x[0] == "inject"]
        ident = {x[1]: x for x in inj}
        if len(ident) != len(inj):
            msgs.append("pipeline-duplicate: a packet object was injected twice")
        if len(inj) != sum(obs["sent"]):
            msgs.append("pipeline-generator: injected count differs from packets_send")
        # stage-by-stage conservation
        chain = case["chain"]
        stage_in = {0: inj}
        for idx, kind in enumerate(chain):
            outs = [x for x in log if x[0] == f"{idx}:{kind}:out"]
            ins = stage_in[idx]
            dropped = 0
            key = f"{idx}:{kind}"
            if key in obs["drops"]:
                rec, dr = obs["drops"][key]
                dropped = dr
                if rec != len(ins):
                    msgs.append(f"pipeline-port-counter: {key} packets_received {rec} but {len(ins)} packets were put in")
            noroute = 0
            if kind == "flowdemux":
                nfl = len(case["gens"])
                routed = max(1, nfl - 1)
                noroute = sum(1 for x in ins if x[3] >= routed)
            if len(outs) + dropped + noroute != len(ins):
                msgs.append(f"pipeline-conservation: element {key}: {len(ins)} in, {len(outs)} forwarded, {dropped} counted drops, "
                            f"{noroute} without route: {len(ins) - len(outs) - dropped - noroute} packets unaccounted for at quiescence")
            if len(set(x[1] for x in outs)) != len(outs):
                msgs.append(f"pipeline-duplicate: element {key} forwarded a packet twice")
            inids = {x[1]: x for x in ins}
            for x in outs:
                if x[1] not in inids:
                    msgs.append(f"pipeline-invented: element {key} forwarded a packet that was never put in")
                elif list(x[2:7]) != list(inids[x[1]][2:7]):
                    msgs.append(f"pipeline-altered: element {key} changed identifying fields {inids[x[1]][2:7]} -> {x[2:7]}")
            for f in set(x[3] for x in outs):
                a = [x[1] for x in ins if x[3] == f and x[1] in {y[1] for y in outs}]
                b = [x[1] for x in outs if x[3] == f]
                if a != b:
                    msgs.append(f"pipeline-flow-order: element {key} reordered packets of flow {f}")
            stage_in[idx + 1] = outs
        last = stage_in[len(chain)]
        at_sinks = [x for x in log if x[0].startswith("sink")]
        if sorted(x[1] for x in at_sinks) != sorted(x[1] for x in last):
            msgs.append("pipeline-sink: packets leaving the last element and packets reaching the sinks differ")
        for x in at_sinks:
            if x[0] != "sink%d" % x[3]:
                msgs.append("pipeline-sink: packet reached another flow's sink")
        for f, (cnt, byt) in obs["sink_books"].items():
            mine = [x for x in at_sinks if x[3] == int(f)]
            if cnt != len(mine) or byt != sum(x[5] for x in mine):
                msgs.append(f"pipeline-sink-books: sink of flow {f} reports {cnt} packets/{byt} bytes, {len(mine)} delivered")
        return msgs

    def nontrivial(self, case, obs, prop_id):
        k = case["kind"]
        if k == "gen":
            return sum(len(e[2]) for e in obs["log"] if e[0] == "step") >= 3
        if k == "sink":
            return len(case["ds"]) >= 3 and len({d[0] for d in case["ds"]}) >= 2
        return len([x for x in obs["log"] if x[0] == "inject"]) >= 4

    def shrink(self, case):
        k = case["kind"]
        if k == "sink":
            for i in range(len(case["ds"])):
                yield {**case, "ds": case["ds"][:i] + case["ds"][i + 1:]}
        elif k == "gen":
            if len(case["sizes"]) > 1:
                yield {**case, "sizes": case["sizes"][:-1], "arr": case["arr"][:-1]}
            if case["finish"] is not None:
                yield {**case, "finish": None}
        else:
            if len(case["chain"]) > 1:
                for i in range(len(case["chain"])):
                    yield {**case, "chain": case["chain"][:i] + case["chain"][i + 1:]}
            if len(case["gens"]) > 1:
                for i in range(len(case["gens"])):
                    gs = case["gens"][:i] + case["gens"][i + 1:]
                    yield {**case, "gens": [{**g, "flow": j} for j, g in enumerate(gs)]}
            for i, g in enumerate(case["gens"]):
                if len(g["sizes"]) > 1:
                    g2 = {**g, "sizes": g["sizes"][:-1], "arr": g["arr"][:-1]}
                    yield {**case, "gens": case["gens"][:i] + [g2] + case["gens"][i + 1:]}

    def describe(self, case, obs):
        k = case["kind"]
        keys = ["gensink:" + k]
        if k == "pipeline":
            keys += ["pipeline:has-" + c for c in sorted(set(case["chain"]))]
            keys.append("pipeline:len=%d" % len(case["chain"]))
        return keys

    def signature(self, case, obs, msg):
        return msg.split(":")[0]


PART = GenSinkPart()
