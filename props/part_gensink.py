"""C08 part 'gensink': DistPacketGenerator law, PacketSink books, and conservation through pipelines of REAL elements.

kinds:  'gen', 'sink'   the generator law and the sink's books (models in coq/Elem/GenSink.v)
        'pipeline'      generators -> chain of 1-3 real elements of ANY kind (incl. DRR, WFQ, FlowDemux fan-out) -> per-flow
                        sinks, run to quiescence under the conservation monitor; no Coq model of the composition
                        (proof side: C08_network_conserves + the per-element theorems)
        'pipe'          linear pipelines of 2-3 real elements among those with an interface adapter (Wire, Port incl. rate 0,
                        TokenBucket, SP, RR, WRR), all in ONE Environment driven by the elem_common harness with taps
                        BETWEEN the stages.  The observed GLOBAL action sequence is replayed in the composite Coq model
                        `pipeline E0 [E1; E2]` (coq/Elem/Compose.v: every action must be admissible for the composite, and
                        must show exactly the observed hand-overs at every stage boundary and the final deliveries), and the
                        projection of the log onto every stage is replayed by that element's own part (port_agree,
                        wire_agree, tb_agree, mq_agree: counters, store lengths, stamps after every action).  The log ->
                        action mappings are the element parts' own (part_wire._actions, part_port._actions,
                        part_bucket._obs_term, part_mq._actions, part_wfq._actions, part_drr.actions); this file only splits the
                        global log per stage.  Elements: Wire, Port (incl. rate 0), REDPort (its draws go onto the adapter's
                        oracle tape: `OLoad u` just before the action during which the put is made), TokenBucket,
                        TwoRateTokenBucket, SP, RR, WRR, WFQ, VirtualClock, DRR.
        'fanin'         two real upstream elements (flow 0 into the first, flows 1-2 into the second) feeding ONE real
                        scheduler, replayed in `fanin sel A B C`; the hand-overs of both branches are compared
        'fanout'        a real element -> real FlowDemux / FIBDemux (two outputs, no default) -> two real elements, replayed in
                        `fanout route t0 A B C` with route = the decision function of coq/Route/Demux.v; flows without a
                        route are discarded by the demux (monitor: exactly the output the rule names)
                        Theorems: Props/C08_Pipe.v."""
from fractions import Fraction

from vlib import coqfmt as cf
from props import elem_common as ec


class Script:
    def __init__(self, vals, conv=ec.T):
        self.vals = [conv(v) for v in vals]
        self.n = 0

    def __call__(self):
        v = self.vals[self.n]
        self.n += 1
        return v


class PassTap:
    """records what crosses a stage boundary and hands the packet on unchanged"""

    def __init__(self, env, name, nxt, log):
        self.env, self.name, self.nxt, self.log = env, name, nxt, log

    def put(self, p):
        if not hasattr(p, "uid"):
            p.uid = len(self.log)          # first sighting (injection): the log position is a fresh identity
        self.log.append((self.name, p.uid, p.packet_id, p.flow_id, str(p.src), p.size, ec.qs(p.time), ec.qs(self.env.now)))
        if self.nxt is not None:
            self.nxt.put(p)


ELEMENT_KINDS = ["wire", "port", "port0", "tb", "sp", "rr", "wrr", "drr", "wfq", "flowdemux", "fibdemux"]

# ---- kind 'pipe': linear pipelines of 2-3 REAL elements that have an interface adapter (coq/Elem/Adapt*.v), driven by
# the elem_common harness and replayed in the COMPOSITE Coq model (coq/Elem/Compose.v) --------------------------------
PIPE_ELEMS = ["wire", "port", "port0", "red", "tb", "trtb", "sp", "rr", "wrr", "wfq", "vc", "drr"]
PIPE_SCHEDS = ("sp", "rr", "wrr", "wfq", "vc", "drr")
PIPE_FLOWS = (0, 1, 2)
PIPE_SIZES = (64, 128, 256, 512)
PIPE_SIZES_BIG = (512, 1536, 2048, 3072)      # above DRR's quantum of 1500 * weight / min weight: heads get parked
PIPE_DELAYS = [Fraction(0), Fraction(1, 4), Fraction(1, 2), Fraction(1), Fraction(2)]
PIPE_UNIFORMS = [Fraction(0), Fraction(1, 8), Fraction(1, 4), Fraction(3, 8), Fraction(1, 2), Fraction(3, 4), Fraction(1)]


class PipeHarness(ec.Harness):
    """elem_common harness for several elements in ONE Environment.  Every kernel step is attributed to its stage:
    the generator functions of stage k are renamed run@k / send_packet@k, its stores are watched as store@k (the
    schedulers' lazily created per-class stores and the token store are recognised when their events are processed)."""

    def __init__(self, env):
        super().__init__(env)
        self.scheds = {}            # stage index -> (scheduler with per-class stores, label prefix "f:" (SP/RR/WRR) | "s:" (DRR))

    def classify(self, ev):
        res = getattr(ev, "resource", None)
        if res is not None:
            tn = type(ev).__name__
            for k, (s, pfx) in self.scheds.items():
                if res is s.packets_available:
                    return [tn, "tok@%d" % k]
                for f, st in list(s.stores.items()):
                    if st is res:
                        return [tn, "%s%d@%d" % (pfx, f, k)]
        return super().classify(ev)

    @staticmethod
    def wrap_send_packet(e, k):
        """the send_packet children of the scheduler of stage k are named send_packet@k"""
        orig = e.send_packet

        def send_packet(pkt, orig=orig, k=k):
            g = orig(pkt)
            g.__name__ = "send_packet@%d" % k
            return g
        e.send_packet = send_packet

    def _do_put(self, element, uid):
        pkt = self.packets[uid]
        before = dict(pkt.perhop_time)
        super()._do_put(element, uid)
        self.log[-1][2].extend(stamp_diff(before, pkt))


def stamp_diff(before, pkt):
    """what a put() wrote into packet.perhop_time (Port stamps), as extra outputs of the put"""
    return [["stamp", k if (k is None or isinstance(k, str)) else repr(k), ec.qs(v)]
            for k, v in pkt.perhop_time.items() if k not in before or before[k] != v]


class HandTap:
    """the boundary between stage k and stage k+1: records the hand-over (as an output of the action of stage k that is
    running), calls the real put() of the next element, and records what that put did to the next element"""

    def __init__(self, h, k, nxt, sample_next, dst=None, extra=None):
        self.h, self.k, self.nxt, self.sample_next = h, k, nxt, sample_next
        self.dst = k + 1 if dst is None else dst
        self.extra = extra or hand_extra(None, None, None)

    def put(self, p):
        uid = getattr(p, "uid", None)
        self.h._emit(["out", "s%d" % self.k, uid, ec.pkt_fields(p), id(p) == id(self.h.packets.get(uid))] + self.extra(p))
        before = dict(p.perhop_time)
        self.nxt.put(p)
        self.h._emit(["hand", self.dst, uid, stamp_diff(before, p), self.sample_next()])


def hand_extra(st, e, smp):
    """what the element parts' own taps record about the FORWARDING element at the moment of out.put (a next hop that reads
    the forwarder's public state inside its put() sees exactly this), appended to the out entry of stage st:
    token buckets: packet.color and the shaper's sample; DRR: ["at-forward", per-flow counters, total_packets, class counts];
    every other element: packet.color only"""
    el = st["el"] if st else None
    if el in ("tb", "trtb"):
        return lambda p: [getattr(p, "color", None), smp()]
    if el == "drr":
        flows = sorted(f for f, _ in st["f2c"])
        cls = [c for c, _ in st["weights"]]
        return lambda p: [getattr(p, "color", None),
                          ["at-forward", [[f, e.queue_count.get(f, 0), e.queue_byte_size.get(f, 0)] for f in flows], e.total_packets,
                           [[k, e.class_count.get(k, 0)] for k in cls]]]
    return lambda p: [getattr(p, "color", None)]


class LastTap(ec.Tap):
    """the recorder behind the last stage (also notes what hand_extra says about the forwarding element)"""

    def __init__(self, h, tag, extra=None):
        super().__init__(h, tag)
        self.extra = extra or hand_extra(None, None, None)

    def put(self, p):
        uid = getattr(p, "uid", None)
        self.got.append(p)
        self.h._emit(["out", self.tag, uid, ec.pkt_fields(p), id(p) == id(self.h.packets.get(uid))] + self.extra(p))


class Router:
    """what the drivers of a fan-in put into: the packet goes to the branch its flow is injected into"""

    def __init__(self, branch_of, elems):
        self.branch_of, self.elems = branch_of, elems

    def put(self, p):
        return self.elems[self.branch_of(p.flow_id)].put(p)


def ids_per_flow(w):
    """number the packets of a workload PER FLOW from 1, in injection order, as DistPacketGenerator does: packets of different
    flows carry equal packet ids and are in flight together (identity for the monitors stays the harness uid)"""
    order = []
    for d in w["drivers"]:
        for (t, uids) in d["bursts"]:
            for u in uids:
                order.append((Fraction(t), d["late"], u))
    order.sort(key=lambda x: (x[0], x[1]))
    nxt = {}
    for (_, _, u) in order:
        sp = w["packets"][str(u)]
        nxt[sp["flow"]] = nxt.get(sp["flow"], 0) + 1
        sp["id"] = nxt[sp["flow"]]
    return w


def wire_loss_arg(st):
    """Wire(loss_rate=...) as a user writes it: None, an int when integral, else an exact float"""
    if st["loss"] is None:
        return None
    loss = ec.T(st["loss"])
    return int(loss) if loss == int(loss) else loss


def wire_stage_actions(sc, o):
    """the log of ONE wire (the layout of this file's wire sampler: packets_rec, len(store.items), uniform draws consumed,
    delay draws consumed) -> the rows of Elem/Wire.v's wire_agree: (action, deliveries, (packets_rec, len(store.items)))"""
    specs = sc["workload"]["packets"]
    steps = {("Initialize", "run"): "WInit", ("StorePut", "store"): "WStoreCb", ("StoreGet", "store"): "get", ("Timeout", "run"): "WTimer"}
    acts = []
    nu = nd = 0
    for e in o["log"]:
        kind, sample = e[0], e[-1]
        su, sd = sample[-2], sample[-1]
        outs = []
        if kind == "adv":
            a = f"WAdvance {cf.q(e[1])}"
        elif kind == "put":
            a, outs = f"WPut {ec.pkt_coq(specs[str(e[1])], e[1])}", e[2]
        elif kind == "step":
            (tn, tgt), outs = e[1], e[2]
            a = steps.get((tn, tgt))
            if a is None:
                return None, f"unexpected kernel step {e[1]}"
            if a == "get":
                if su > nu + 1 or sd > nd + 1:
                    return None, "more than one draw of a kind in one step"
                u = sc["uniforms"][nu] if su > nu else None
                dd = sc["delays"][nd] if sd > nd else None
                a = f"WGet {cf.opt(u, cf.q)} {cf.opt(dd, cf.q)}"
        else:
            return None, f"unexpected log entry {e[:2]}"
        if (su, sd) != (nu, nd) and not (kind == "step" and e[1][0] == "StoreGet"):
            return None, f"draws consumed outside a StoreGet step ({e[:2]})"
        nu, nd = su, sd
        dl = cf.lst([f"ODeliver {ec.pkt_coq(specs[str(x[2])], x[2])}" for x in outs])
        acts.append(f"({a}, {dl}, ({cf.z(sample[0])}, {cf.nat(sample[1])}))")
    return acts, None


def wire_stage_agree(sc, o):
    acts, err = wire_stage_actions(sc, o)
    if acts is None:
        return f"false (* {err} *)"
    return f"wire_agree {cf.opt(sc['loss'], cf.q)} (wire0 0) {cf.lst(acts, sep=';' + chr(10) + '    ')}"


def topo(case):
    """the wiring of a composed case: entry(flow) -> stage a driver puts into; the Coq element term is built by _pipe_E"""
    kind = case["kind"]
    n = len(case["stages"])
    if kind == "fanin":            # stages [A, B, C]: flow 0 is injected into A, the other flows into B; both feed C
        return {"entry": (lambda f: 0 if f == 0 else 1), "sinks": [2]}
    if kind == "fanout":           # stages [A, demux, B, C]
        return {"entry": (lambda f: 0), "sinks": [2, 3]}
    return {"entry": (lambda f: 0), "sinks": [n - 1]}


def demux_route(st, flow):
    """the decision of the real demux of a fan-out, as the documentation states it: index of the output or None (discarded)"""
    if st["el"] == "flowdemux":
        return flow if 0 <= flow < 2 else None
    port = {int(f): q for f, q in st["fib"].items()}.get(flow)
    return port if port in (0, 1) else None


def _first_component(s):
    """the action part `a` of a triple string "(a, outs, obs)" produced by the element parts' log->action mappings"""
    assert s[0] == "("
    depth = 0
    for i, ch in enumerate(s):
        if ch in "([{":
            depth += 1
        elif ch in ")]}":
            depth -= 1
        elif ch == "," and depth == 1:
            return s[1:i].strip()
    raise ValueError(s[:80])


class GenSinkPart:
    name = "gensink"
    kinds = ["gen", "sink", "pipeline", "pipe", "fanin", "fanout"]
    serves = ["C08"]
    # the order matters: the element parts' action terms use unqualified constructor names (Port.PGet / SchedBase.PGet,
    # OForward of Port / Bucket / SchedBase, the record field `rate` of Bucket / SchedBase); GenSink last for gen/sink terms
    coq_imports = ["From ONL Require Import Base.Cmp Elem.Packet Elem.StoreQ Elem.HeapList Elem.WFQServer Elem.WFQ Elem.VC Elem.DRR "
                   "Elem.SchedBase Elem.SP Elem.RR Elem.WRR Elem.Bucket "
                   "Elem.TwoRate Elem.Wire Elem.Port Elem.Red Elem.Iface Elem.Compose Elem.AdaptWire Elem.AdaptPort Elem.AdaptBucket "
                   "Elem.AdaptSched Elem.AdaptSrv Elem.AdaptDRR Elem.AdaptTwoRate Elem.AdaptRed Route.Demux Elem.ComposePar "
                   "Elem.ComposeFan Elem.GenSink."]
    props_files = {"C08": ["Props/C08_GenSink.v", "Props/C08_Net.v", "Props/C08_Pipe.v", "Props/C08_BridgeSink.v", "Props/C08_BridgeGen.v"]}

    # ---- second tie: PacketSink.put translated from the tree under test before the Coq build (fail closed) ----
    def pre_build(self, prop_id):
        if prop_id != "C08":
            return
        from vlib import framework as fw
        from props import sink_tie
        sink_tie.write_extracted_packetsink(fw.REPO, fw.COQ)
        from props import gen_tie
        gen_tie.write_extracted_distgen_run(fw.REPO, fw.COQ)

    weight = 2
    nontrivial_rule = {"C08": "gen: scripted inter-arrival/size draws incl. zero gaps, finite and infinite finish, initial delays; "
                              "sink: random delivery sequences over 1-3 keys with all 8 flag combinations, keyed by flow id or by source; "
                              "pipeline: 1-3 generators -> chain of 1-3 real elements (wire, port with/without limit, token bucket, "
                              "SP/RR/WRR/DRR/WFQ, FlowDemux fan-out) -> per-flow sinks, run until the event queue is empty; "
                              "pipe: 2-3 stages drawn from wire (constant / random / zero delays, loss 1/4 or 1/2 with scripted draws when it is "
                              "the only wire), port (rates 512/1024/4096 or 0, no limit / byte limit / packet limit), token bucket (bucket 0..1024 B, "
                              "peak unset / 0 / set), SP / RR / WRR over flows 0-2, bursty workloads of 1-8 packets from 1-3 drivers on a dyadic "
                              "lattice, drivers created before or after the elements, elements constructed first-to-last or last-to-first; "
                              "stages also REDPort (scripted draws on the k/8 lattice), TwoRateTokenBucket, WFQ (equal power-of-two weights), "
                              "VirtualClock, DRR (half of the time with packets above the quantum); fanin: two upstream elements into one "
                              "scheduler; fanout: element -> FlowDemux/FIBDemux (two outputs, no default, some flows without a route) -> two "
                              "elements; non-trivial = at least 3 packets (gen: >= 3 emissions; sink: >= 3 deliveries over >= 2 keys; pipeline: "
                              ">= 4 packets injected; pipe/fanin/fanout: >= 3 packets injected and at least one delivered at a sink)"}
    trusted_base = {"C08": ["arrival_dist/size_dist/delay_dist are scripted sequences",
                            "vlib/translate.py (Python ast, fail closed; tables in props/sink_tie.py) regenerates "
                            "coq/Gen/Extracted_packetsink.v from PacketSink.put of the tree under test before every build; "
                            "C08_gen_packetsink_put (Props/C08_BridgeSink.v) bridges it to sink_put_rec of the hand-written model; the "
                            "`if self.debug:` block is dropped, packet.src is the plugin's source number",
                            "vlib/translate_gen.py (generator bodies cut at their yields, fail closed; tables in props/gen_tie.py) regenerates "
                            "coq/Gen/Extracted_distgen_run.v from DistPacketGenerator.run before every build; the C08_gen_distgen_run_* "
                            "theorems (Props/C08_BridgeGen.v, proofs Elem/GenRunBridge.v) prove GStart / GInitFire / GFire of the generator "
                            "automaton equal to the generated functions; the loop test `env.now < self.finish` is an observation "
                            "(finish may be float('inf')); that the kernel resumes the generator at these steps stays with the correspondence",
                            "kind 'pipeline' (fan-out, DRR, WFQ, generators and sinks in the loop) is checked on the real code by the conservation "
                            "monitor only; its proof side is C08_network_conserves applied to the per-element conservation theorems",
                            "kind 'pipe': the processes and stores of stage k are told apart by renaming the generator objects (run@k, "
                            "send_packet@k through an instance-level wrapper of send_packet) and by object identity of the kernel Stores; "
                            "the hand-over tap between two stages calls the real put() of the next element synchronously, as `out.put` does",
                            "kind 'pipe': admissibility of the real kernel's global interleaving for the composite model is checked on every "
                            "observed execution, not proved (DESIGN 2.4)"]}
    partial = {"C08": []}

    # ------------------------------------------------------------------------------------------
    def gen_case(self, rng, tier, prop_id):
        r = rng.random()
        if r < 0.22:
            return self._gen_gen(rng)
        if r < 0.38:
            return self._gen_sink(rng)
        if r < 0.56:
            return self._gen_pipeline(rng)
        if r < 0.8:
            return self._gen_pipe(rng)
        if r < 0.9:
            return self._gen_fanin(rng)
        return self._gen_fanout(rng)

    def _gen_gen(self, rng):
        n = rng.randint(1, 8)
        lat = [Fraction(0), Fraction(1, 4), Fraction(1, 2), Fraction(1), Fraction(3, 2), Fraction(2)]
        arr = [rng.choice(lat) for _ in range(n + 1)]
        sizes = [rng.choice([40, 64, 100, 512, 1500]) for _ in range(n)]
        init = rng.choice([Fraction(0), Fraction(0), Fraction(1, 2), Fraction(1), Fraction(3)])
        total = init + sum(arr)
        finish = rng.choice([None, None, total / 2, total, init, Fraction(1)])
        return {"kind": "gen", "init": cf.qjson(init), "finish": None if finish is None else cf.qjson(finish),
                "flow": rng.randint(0, 5), "arr": [cf.qjson(a) for a in arr], "sizes": sizes,
                "t0": cf.qjson(rng.choice([Fraction(0), Fraction(0), Fraction(2)]))}

    def _gen_sink(self, rng):
        n = rng.randint(1, 10)
        now = Fraction(0)
        ds = []
        for _ in range(n):
            now += rng.choice([Fraction(0), Fraction(1, 4), Fraction(1), Fraction(5, 2)])
            pt = now - rng.choice([Fraction(0), Fraction(1, 4), Fraction(1, 2), now])
            ds.append([rng.randint(0, 2), rng.choice([40, 100, 1500]), cf.qjson(pt), cf.qjson(now)])
        return {"kind": "sink", "rec_arrivals": rng.random() < 0.8, "absolute": rng.random() < 0.5,
                "rec_waits": rng.random() < 0.8, "by_flow": rng.random() < 0.6, "ds": ds}

    def _gen_pipeline(self, rng):
        ngen = rng.randint(1, 3)
        gens = []
        for g in range(ngen):
            n = rng.randint(1, 6)
            gens.append({"flow": g, "init": cf.qjson(rng.choice([Fraction(0), Fraction(1, 2), Fraction(1)])),
                         "arr": [cf.qjson(rng.choice([Fraction(0), Fraction(1, 4), Fraction(1, 2), Fraction(1), Fraction(2)])) for _ in range(n + 1)],
                         "sizes": [rng.choice([64, 128, 512, 1024]) for _ in range(n)]})
        chain = [rng.choice(ELEMENT_KINDS) for _ in range(rng.randint(1, 3))]
        # a demux fans out: keep (one of) it last
        if "flowdemux" in chain or "fibdemux" in chain:
            last = rng.choice([c for c in chain if c in ("flowdemux", "fibdemux")])
            chain = [c for c in chain if c not in ("flowdemux", "fibdemux")] + [last]
        # FIBDemux: per flow, where the packet must go: its registered end device ('end'; 'end+fib' = also present in the
        # forwarding table, the end device still wins), the table's output ('fib'), or the default output / nowhere
        fibmode = {str(g["flow"]): rng.choice(["end", "end+fib", "end+fib", "fib", "fib", "unknown"]) for g in gens}
        return {"kind": "pipeline", "gens": gens, "chain": chain, "rate": rng.choice([1024, 4096, 65536]),
                "fibmode": fibmode, "fibdefault": rng.random() < 0.6,
                "qlimit": rng.choice([None, None, 2, 3, 2048]), "limit_bytes": rng.random() < 0.5,
                "delay": cf.qjson(rng.choice([Fraction(0), Fraction(1, 4), Fraction(1)]))}

    # ------------------------------------------------------------------------------------------
    def run_impl(self, case):
        if case["kind"] in ("fanin", "fanout"):
            return self._run_pipe(case)
        return getattr(self, "_run_" + case["kind"])(case)

    def _run_gen(self, case):
        from onl.sim import Environment
        from onl.packet.dist_generator import DistPacketGenerator
        env = Environment(initial_time=ec.T(case["t0"]))
        h = ec.Harness(env)
        arr, sizes = Script(case["arr"]), Script(case["sizes"], conv=int)
        fin = float("inf") if case["finish"] is None else ec.T(case["finish"])
        g = DistPacketGenerator(env, "gen0", arr, sizes, initial_delay=ec.T(case["init"]), finish=fin, flow_id=case["flow"])
        g.out = h.tap("out")
        h.after_action(lambda: [g.packets_send, arr.n, sizes.n])
        # stop before the scripted draws run out
        log = h.run(max_steps=1 + len(case["sizes"]))
        return {"log": log, "raised": h.raised, "src_ok": all(p.src == "gen0" for p in g.out.got)}

    def _run_sink(self, case):
        from onl.sim import Environment
        from onl.packet import Packet
        from onl.packet.sink import PacketSink
        env = Environment()
        s = PacketSink(env, rec_arrivals=case["rec_arrivals"], absolute_arrivals=case["absolute"],
                       rec_waits=case["rec_waits"], rec_flow_ids=case["by_flow"])
        raised = None
        try:
            for (k, size, pt, now) in case["ds"]:
                env._now = ec.T(now)
                s.put(Packet(time=ec.T(pt), size=size, packet_id=1, src=f"src{k}", flow_id=k))
        except Exception as e:
            raised = [type(e).__name__, str(e)[:200]]
        keys = list(s.packets_received.keys())

        def key_of(k):
            return k if case["by_flow"] else int(str(k)[3:])
        books = []
        for k in keys:
            books.append([key_of(k), [ec.qs(x) for x in s.waits.get(k, [])], list(s.packet_sizes.get(k, [])),
                          [ec.qs(x) for x in s.packet_times.get(k, [])], [ec.qs(x) for x in s.arrivals.get(k, [])],
                          ec.qs(s.first_arrival.get(k, 0.0)), ec.qs(s.last_arrival.get(k, 0.0)),
                          s.packets_received[k], s.bytes_received[k]])
        return {"books": books, "raised": raised}

    def _build_element(self, env, kind, case, flows, log, idx, nxt_of):
        """returns (entry element, list of (name, element) for inspection); `nxt_of(flow)` gives the next stage"""
        from onl.netdev.wire import Wire
        from onl.netdev.port import Port
        from onl.netdev.token_bucket import TokenBucket
        from onl.netdev.demux import FlowDemux, FIBDemux
        from onl.scheduler import SP, RR, WRR, DRR, WFQ
        rate = case["rate"]
        name = f"{idx}:{kind}"
        after = PassTap(env, name + ":out", None, log)

        class Fan:
            def put(self_inner, p):
                after.log.append((name + ":out", getattr(p, "uid", -id(p)), p.packet_id, p.flow_id, str(p.src), p.size, ec.qs(p.time), ec.qs(env.now)))
                nxt_of(p.flow_id).put(p)
        out = Fan()
        if kind == "wire":
            d = ec.T(case["delay"])
            e = Wire(env, delay_dist=lambda: d)
        elif kind == "port":
            e = Port(env, rate=rate, qlimit=case["qlimit"], limit_bytes=case["limit_bytes"], element_id=f"p{idx}")
        elif kind == "port0":
            e = Port(env, rate=0, qlimit=case["qlimit"], limit_bytes=case["limit_bytes"], element_id=f"p{idx}")
        elif kind == "tb":
            e = TokenBucket(env, rate=rate, bucket_size=1024)
        elif kind == "sp":
            e = SP(env, rate, {f: f + 1 for f in flows})
        elif kind == "rr":
            e = RR(env, rate, list(flows))
        elif kind == "wrr":
            e = WRR(env, rate, {f: f + 1 for f in flows})
        elif kind == "drr":
            e = DRR(env, rate, {f: f + 1 for f in flows})
        elif kind == "wfq":
            e = WFQ(env, rate, {f: f + 1 for f in flows})
        elif kind == "flowdemux":
            e = FlowDemux([out for _ in flows][:max(1, len(flows) - 1)], None)   # the last flow has no route and no default
            return e, e
        elif kind == "fibdemux":
            mode = case.get("fibmode", {})
            fib = {f: 0 for f in flows if "fib" in mode.get(str(f), "fib")}
            ends = {f: nxt_of(f) for f in flows if mode.get(str(f), "fib").startswith("end")}
            e = FIBDemux(outs=[out], ends=ends, fib=fib, default_out=out if case.get("fibdefault") else None)
            return e, e
        else:
            raise ValueError(kind)
        e.out = out
        return e, e

    def _run_pipeline(self, case):
        import io
        import contextlib
        from onl.sim import Environment
        from onl.packet.dist_generator import DistPacketGenerator
        from onl.packet.sink import PacketSink
        env = Environment()
        log = []
        flows = [g["flow"] for g in case["gens"]]
        sinks = {f: PacketSink(env) for f in flows}
        sink_taps = {f: PassTap(env, "sink%d" % f, sinks[f], log) for f in flows}
        elems = []
        nxt_of = (lambda f: sink_taps[f])
        entry = None
        for idx in reversed(range(len(case["chain"]))):
            kind = case["chain"][idx]
            e, insp = self._build_element(env, kind, case, flows, log, idx, nxt_of)
            elems.append((idx, kind, insp))
            entry = e
            nxt_of = (lambda f, e=e: e)
        first = PassTap(env, "inject", entry, log)
        gens = []
        for g in case["gens"]:
            arr, sizes = Script(g["arr"]), Script(g["sizes"], conv=int)
            total = sum(Fraction(a) for a in g["arr"][:len(g["sizes"])]) + Fraction(g["init"])
            dg = DistPacketGenerator(env, "gen%d" % g["flow"], arr, sizes, initial_delay=ec.T(g["init"]),
                                     finish=ec.T(total), flow_id=g["flow"])
            dg.out = first
            gens.append(dg)
        raised = None
        steps = 0
        buf = io.StringIO()
        try:
            with contextlib.redirect_stdout(buf):
                while env._queue and steps < 20000:
                    env.step()
                    steps += 1
        except Exception as e:
            raised = [type(e).__name__, str(e)[:300]]
        drops = {}
        for idx, kind, e in elems:
            if kind in ("port", "port0"):
                drops[f"{idx}:{kind}"] = [e.packets_received, e.packets_dropped]
        books = {f: [sinks[f].packets_received.get(f, 0), sinks[f].bytes_received.get(f, 0)] for f in flows}
        return {"log": [list(x) for x in log], "raised": raised, "exhausted": not env._queue, "drops": drops,
                "sink_books": {str(k): v for k, v in books.items()}, "sent": [g.packets_send for g in gens]}


    @staticmethod
    def _gen_stage(rng, el, npk, one_wire, twin, eids):
        """the configuration of one stage of kind el (appended to the list it returns)"""
        stages = []
        if el == "wire":
            style = "const" if twin else rng.choice(["const", "rand", "zero"])
            if style == "const":
                ds = [rng.choice(PIPE_DELAYS[1:])] * npk
            elif style == "zero":
                ds = [Fraction(0)] * npk
            else:
                ds = [rng.choice(PIPE_DELAYS) for _ in range(npk)]
            loss = rng.choice([None, None, Fraction(1, 4), Fraction(1, 2)]) if one_wire else None
            stages.append({"el": "wire", "delays": [cf.qjson(d) for d in ds], "loss": None if loss is None else cf.qjson(loss),
                           "uniforms": [cf.qjson(rng.choice(PIPE_UNIFORMS)) for _ in range(npk)]})
        elif el in ("port", "port0"):
            mode = rng.choice(["none", "bytes", "packets", "packets"])
            ql, lb = None, rng.random() < 0.5
            if mode == "bytes":
                ql, lb = rng.choice([128, 256, 512, 1024]), True
            elif mode == "packets":
                ql, lb = rng.choice([1, 2, 2, 3, 4]), False
            stages.append({"el": "port", "rate": 0 if el == "port0" else rng.choice([512, 1024, 4096]), "qlimit": ql,
                           "limit_bytes": lb, "eid": eids.pop() if eids else None})
        elif el == "red":
            lb = rng.random() < 0.5
            if lb:
                unit = rng.choice(PIPE_SIZES)
                mn = rng.choice([0, unit, 2 * unit, unit // 2])
                mx = mn + rng.choice([1, 2, 4]) * unit
                ql = mx + rng.choice([0, unit, 4 * unit])
            else:
                mn = rng.choice([0, 0, 1, 1, 2])
                mx = mn + rng.choice([1, 2, 4])
                ql = mx + rng.choice([0, 1, 2, 4])
            stages.append({"el": "red", "rate": rng.choice([512, 1024, 4096]), "qlimit": ql, "limit_bytes": lb,
                           "eid": eids.pop() if eids else None,
                           "red": {"min": mn, "max": mx, "maxp": cf.qjson(rng.choice([Fraction(1, 2), Fraction(1, 4), Fraction(1), Fraction(3, 4)])),
                                   "w": rng.choice([0, 0, 1, 1, 2, 3])},
                           "uniforms": [cf.qjson(Fraction(rng.randint(0, 8), 8)) for _ in range(npk)]})
        elif el == "tb":
            stages.append({"el": "tb", "rate": rng.choice([512, 1024, 2048, 8192]), "bsize": rng.choice([0, 64, 128, 256, 1024]),
                           "peak": rng.choice([None, None, 0, 4096, 16384])})
        elif el == "trtb":
            cir = rng.choice([512, 1024, 2048])
            st = {"el": "trtb", "cir": cir, "cbs": rng.choice([64, 128, 256, 1024])}
            if rng.random() < 0.7:
                st.update({"pir": rng.choice([1, 2, 2, 4]) * cir, "pbs": rng.choice([64, 128, 256, 1024])})
            else:
                st.update({"pir": rng.choice([None, None, 0]), "pbs": rng.choice([None, 512])})
            stages.append(st)
        elif el in ("wfq", "vc"):
            # flows 0-2 on one or two classes; WFQ weights equal powers of two so that every weight sum the code divides by
            # is a power of two (exact floats); VC vticks dyadic
            f2c = rng.choice([{0: 5, 1: 5, 2: 5}, {0: 4, 1: 7, 2: 7}, {0: 0, 1: 1, 2: 1}, {0: 3, 1: 3, 2: 6}])
            cl = sorted(set(f2c.values()))
            if el == "wfq":
                wt = rng.choice([1, 2, 4])
                classes = {str(c): wt for c in cl}
            else:
                classes = {str(c): cf.qjson(rng.choice([Fraction(1, 4), Fraction(1, 2), Fraction(1), Fraction(3, 2)])) for c in cl}
            stages.append({"el": el, "rate": rng.choice([512, 1024, 4096]), "classes": classes,
                           "f2c": {str(f): c for f, c in f2c.items()}})
        elif el == "drr":
            f2c = rng.choice([[[0, 0], [1, 1], [2, 2]], [[0, 3], [1, 3], [2, 4]], [[0, 1], [1, 0], [2, 0]]])
            cl = []
            for _, c in f2c:
                if c not in cl:
                    cl.append(c)
            rng.shuffle(cl)
            stages.append({"el": "drr", "rate": rng.choice([2048, 4096, 16384]), "weights": [[c, rng.choice([1, 1, 2, 3, 4])] for c in cl],
                           "f2c": f2c})
        else:
            if el == "rr":
                classes = [[f, 1] for f in PIPE_FLOWS]
                rng.shuffle(classes)
            else:
                classes = [[f, rng.choice([1, 1, 2, 3])] for f in PIPE_FLOWS]
            stages.append({"el": el, "rate": rng.choice([512, 1024, 4096]), "classes": classes})
        return stages[0]

    # ---- kind 'pipe' ----------------------------------------------------------------------------------------
    def _gen_pipe(self, rng):
        n = rng.choice([2, 2, 3, 3])
        w = ec.gen_workload(rng, flows=PIPE_FLOWS, n_max=8, sizes=PIPE_SIZES, burst_p=0.45)
        npk = len(w["packets"])
        els = [rng.choice(PIPE_ELEMS) for _ in range(n)]
        if "drr" in els and rng.random() < 0.5:
            w = ec.gen_workload(rng, flows=PIPE_FLOWS, n_max=8, sizes=PIPE_SIZES_BIG, burst_p=0.45)
            npk = len(w["packets"])
        seen_red = False
        for i, el in enumerate(els):          # random.uniform of red_port.py is module-level: one scripted REDPort per pipeline
            if el == "red":
                if seen_red:
                    els[i] = "port"
                seen_red = True
        twin = rng.random() < 0.12
        if twin:
            # the same kind of element twice: whatever an element keeps ON THE PACKET (Wire: current_time, Port: perhop_time)
            # is overwritten by its second instance -- visible only in a composition
            k = rng.choice(["wire", "wire", "port"])
            els[0] = els[-1] = k
        one_wire = els.count("wire") == 1
        eids = ["p1", "sw3", None]
        rng.shuffle(eids)
        stages = [self._gen_stage(rng, el, npk, one_wire, twin, eids) for el in els]
        return {"kind": "pipe", "stages": stages, "workload": ids_per_flow(w), "pre": rng.random() < 0.3, "rev": rng.random() < 0.5}

    def _gen_fanin(self, rng):
        """two upstream elements (flow 0 is injected into the first, flows 1 and 2 into the second) feeding ONE scheduler"""
        w = ec.gen_workload(rng, flows=PIPE_FLOWS, n_max=8, sizes=PIPE_SIZES, burst_p=0.45)
        npk = len(w["packets"])
        ups = [rng.choice(["wire", "wire", "port", "port0", "tb", "trtb", "red", "sp", "wfq"]) for _ in range(2)]
        if ups == ["red", "red"]:
            ups[1] = "port"
        down = rng.choice(PIPE_SCHEDS)
        if down == "drr" and rng.random() < 0.5:
            w = ec.gen_workload(rng, flows=PIPE_FLOWS, n_max=8, sizes=PIPE_SIZES_BIG, burst_p=0.45)
            npk = len(w["packets"])
        eids = ["p1", "sw3", None]
        rng.shuffle(eids)
        one_wire = ups.count("wire") == 1
        stages = [self._gen_stage(rng, el, npk, one_wire, False, eids) for el in ups + [down]]
        return {"kind": "fanin", "stages": stages, "workload": ids_per_flow(w), "pre": rng.random() < 0.3, "rev": rng.random() < 0.5}

    def _gen_fanout(self, rng):
        """one upstream element, a FlowDemux / FIBDemux with two outputs and no default, two downstream elements; packets of a
        flow without a route are discarded by the demux (its documented rule)"""
        w = ec.gen_workload(rng, flows=PIPE_FLOWS, n_max=8, sizes=PIPE_SIZES, burst_p=0.45)
        npk = len(w["packets"])
        els = [rng.choice(["wire", "port", "port0", "tb", "sp", "rr", "drr", "vc"])] + \
              [rng.choice(["port", "port", "port0", "wire", "tb", "red", "wrr", "wfq"]) for _ in range(2)]
        if els[1:] == ["red", "red"]:
            els[2] = "port"
        if els[0] == "drr" and rng.random() < 0.5:
            w = ec.gen_workload(rng, flows=PIPE_FLOWS, n_max=8, sizes=PIPE_SIZES_BIG, burst_p=0.45)
            npk = len(w["packets"])
        eids = ["p1", "sw3", None]
        rng.shuffle(eids)
        one_wire = els.count("wire") == 1
        st = [self._gen_stage(rng, el, npk, one_wire, False, eids) for el in els]
        if rng.random() < 0.6:
            dm = {"el": "flowdemux"}                                  # flow 0 -> first output, flow 1 -> second, flow 2 -> nowhere
        else:
            dm = {"el": "fibdemux", "fib": rng.choice([{"0": 1, "1": 0, "2": 1}, {"0": 0, "1": 1}, {"0": 0, "1": 0, "2": 1}, {"1": 1, "2": 5}])}
        return {"kind": "fanout", "stages": [st[0], dm, st[1], st[2]], "workload": ids_per_flow(w), "pre": rng.random() < 0.3,
                "rev": rng.random() < 0.5}

    @staticmethod
    def _pipe_parts():
        from props.part_wire import PART as WP
        from props.part_port import PART as PP
        from props.part_bucket import PART as BP
        from props.part_mq import PART as MP
        from props.part_wfq import PART as FP
        from props.part_drr import PART as DP
        return {"wire": WP, "port": PP, "red": PP, "tb": BP, "trtb": BP, "sp": MP, "rr": MP, "wrr": MP, "wfq": FP, "vc": FP, "drr": DP}

    @staticmethod
    def _pipe_subcase(case, st):
        """the case of the element part that owns stage st (the shape its log->action mapping expects)"""
        w = {"packets": case["workload"]["packets"], "drivers": []}
        el = st["el"]
        if el == "wire":
            return {"kind": "wire", "workload": w, "delays": st["delays"], "loss": st["loss"], "uniforms": st["uniforms"]}
        if el == "port":
            return {"kind": "port", "workload": w, "rate": st["rate"], "qlimit": st["qlimit"], "limit_bytes": st["limit_bytes"],
                    "eid": st["eid"], "uniforms": []}
        if el == "red":
            return {"kind": "redport", "workload": w, "rate": st["rate"], "qlimit": st["qlimit"], "limit_bytes": st["limit_bytes"],
                    "eid": st["eid"], "red": st["red"], "uniforms": st["uniforms"]}
        if el == "trtb":
            return {"kind": "trtb", "workload": w, "cir": st["cir"], "cbs": st["cbs"], "pir": st["pir"], "pbs": st["pbs"], "t0": "0"}
        if el == "tb":
            return {"kind": "tb", "workload": w, "rate": st["rate"], "bsize": st["bsize"], "peak": st["peak"], "t0": "0"}
        if el in ("wfq", "vc"):
            return {"kind": el, "workload": w, "rate": st["rate"], "classes": st["classes"], "f2c": st["f2c"], "exact": True}
        if el == "drr":
            return {"kind": "drr", "workload": w, "rate": st["rate"], "weights": st["weights"], "f2c": st["f2c"]}
        return {"kind": el, "sched": el, "rate": st["rate"], "classes": st["classes"], "cmap": None, "workload": w, "monitor": None}

    def _run_pipe(self, case):
        import io
        import contextlib
        from onl.sim import Environment
        import onl.netdev.wire as wmod
        from props.part_wire import Script as WScript
        from props.part_bucket import num
        env = Environment()
        h = PipeHarness(env)
        w = case["workload"]
        h.add_packets(w["packets"])
        stages = case["stages"]
        n = len(stages)
        unis = None
        for st in stages:
            if st["el"] == "wire" and st["loss"] is not None:
                unis = WScript(st["uniforms"])
        if unis is None:
            unis = WScript([])

        class FakeRandom:
            uniform = staticmethod(unis.uniform)
        saved = wmod.random
        wmod.random = FakeRandom
        import onl.netdev.red_port as rmod
        from props.part_port import Script as PScript
        runis = PScript(next((st["uniforms"] for st in stages if st["el"] == "red"), []))

        class FakeRandomRed:
            uniform = staticmethod(runis.uniform)
        saved_r = rmod.random
        rmod.random = FakeRandomRed
        self._runis = runis
        buf = io.StringIO()
        try:
            with contextlib.redirect_stdout(buf):
                if case.get("pre"):
                    for d in w["drivers"]:
                        h.add_driver(d["bursts"], late=d["late"])
                elems = [None] * n
                samplers = [None] * n
                order = list(reversed(range(n))) if case.get("rev") else list(range(n))
                for k in order:
                    if stages[k]["el"] in ("flowdemux", "fibdemux"):
                        samplers[k] = (lambda: None)
                        continue
                    elems[k], samplers[k] = self._pipe_element(env, h, k, stages[k], unis, wmod, wire_loss_arg, num)
                X = [hand_extra(stages[k], elems[k], samplers[k]) if elems[k] is not None else None for k in range(n)]
                if case["kind"] == "fanin":
                    elems[0].out = HandTap(h, 0, elems[2], samplers[2], dst=2, extra=X[0])
                    elems[1].out = HandTap(h, 1, elems[2], samplers[2], dst=2, extra=X[1])
                    elems[2].out = LastTap(h, "s2", extra=X[2])
                    h.attach(Router(topo(case)["entry"], elems))
                elif case["kind"] == "fanout":
                    from onl.netdev.demux import FlowDemux, FIBDemux
                    outs = [HandTap(h, 1, elems[2], samplers[2], dst=2), HandTap(h, 1, elems[3], samplers[3], dst=3)]
                    if stages[1]["el"] == "flowdemux":
                        elems[1] = FlowDemux(outs, None)
                    else:
                        elems[1] = FIBDemux(outs=outs, fib={int(f): q for f, q in stages[1]["fib"].items()})
                    elems[0].out = HandTap(h, 0, elems[1], samplers[1], dst=1, extra=X[0])
                    elems[2].out = LastTap(h, "s2", extra=X[2])
                    elems[3].out = LastTap(h, "s3", extra=X[3])
                    h.attach(elems[0])
                else:
                    for k in range(n):
                        if k + 1 < n:
                            elems[k].out = HandTap(h, k, elems[k + 1], samplers[k + 1], extra=X[k])
                        else:
                            elems[k].out = LastTap(h, "s%d" % k, extra=X[k])
                    h.attach(elems[0])
                h.after_action(lambda: [f() for f in samplers])
                if not case.get("pre"):
                    for d in w["drivers"]:
                        h.add_driver(d["bursts"], late=d["late"])
                log = h.run(max_steps=20000)
        finally:
            wmod.random = saved
            rmod.random = saved_r
        final = []
        for k, st in enumerate(stages):
            e = elems[k]
            if st["el"] in ("port", "red"):
                final.append({"received": e.packets_received, "dropped": e.packets_dropped, "store": len(e.store.items)})
            elif st["el"] == "trtb":
                final.append({"received": e.packets_received, "sent": e.packets_sent, "store": len(e.store.items)})
            elif st["el"] == "wire":
                final.append({"received": e.packets_rec, "store": len(e.store.items), "uniforms": unis.n})
            elif st["el"] == "tb":
                final.append({"received": e.packets_received, "sent": e.packets_sent, "store": len(e.store.items)})
            elif st["el"] == "drr":
                final.append({"received": e.packets_received, "total": e.total_packets,
                              "quantum": [[c, ec.qs(e.quantum[c])] for c, _ in st["weights"] if c in e.quantum]})
            elif st["el"] in ("flowdemux", "fibdemux"):
                final.append({"received": e.packets_recevied})
            else:
                final.append({"received": e.packets_received, "total": e.total_packets})
        return {"log": log, "raised": h.raised, "exhausted": h.exhausted, "final": final}

    @staticmethod
    def _pipe_element(env, h, k, st, unis, wmod, loss_arg, num):
        """construct the real element of stage k, name its processes and stores, return (element, sampler);
        each sampler returns what the owning part's harness samples after every action (same layout)"""
        from props.part_wire import Script as WScript
        el = st["el"]
        if el == "wire":
            delays = WScript(st["delays"])
            e = wmod.Wire(env, delay_dist=delays, loss_rate=loss_arg(st))
            un = unis if st["loss"] is not None else WScript([])
            smp = (lambda: [e.packets_rec, len(e.store.items), un.n, delays.n])
        elif el == "port":
            from onl.netdev.port import Port
            e = Port(env, st["rate"], st["qlimit"], st["limit_bytes"], st["eid"])
            smp = (lambda: [e.packets_received, e.packets_dropped, e.byte_size, len(e.store.items), int(e.busy), "0/1", 0,
                            [getattr(p, "uid", -1) for p in e.store.items], e.busy_packet_size, []])
        elif el == "red":
            from onl.netdev.red_port import REDPort
            from props.part_port import _num
            r = st["red"]
            runis = PART._runis
            e = REDPort(env, st["rate"], max_threshold=r["max"], min_threshold=r["min"], max_probability=_num(r["maxp"]),
                        element_id=st["eid"], qlimit=st["qlimit"], weight_factor=r["w"], limit_bytes=st["limit_bytes"])
            smp = (lambda: [e.packets_received, e.packets_dropped, e.byte_size, len(e.store.items), int(e.busy),
                            ec.qs(e.average_queue_size), runis.n, [getattr(p, "uid", -1) for p in e.store.items], e.busy_packet_size, []])
        elif el == "trtb":
            from onl.netdev.two_level_token_bucket import TwoRateTokenBucket
            e = TwoRateTokenBucket(env, cir=num(st["cir"]), cbs=st["cbs"], pir=None if st["pir"] is None else num(st["pir"]), pbs=st["pbs"])
            smp = (lambda: [e.packets_received, e.packets_sent, ec.qs(e.current_bucket_commit),
                            None if e.current_bucket_peak is None else ec.qs(e.current_bucket_peak), ec.qs(e.update_time), len(e.store.items)])
        elif el == "tb":
            from onl.netdev.token_bucket import TokenBucket
            e = TokenBucket(env, rate=num(st["rate"]), bucket_size=st["bsize"], peak=None if st["peak"] is None else num(st["peak"]))
            smp = (lambda: [e.packets_received, e.packets_sent, ec.qs(e.current_bucket), ec.qs(e.update_time), len(e.store.items)])
        elif el in ("wfq", "vc"):
            tbl = {int(f): int(c) for f, c in st["f2c"].items()}
            if el == "wfq":
                from onl.scheduler.wfq import WFQ
                e = WFQ(env, st["rate"], {int(c): int(v) for c, v in st["classes"].items()}, flow2class=lambda f: tbl.get(f, f))
            else:
                from onl.scheduler.virtual_clock import VC
                e = VC(env, st["rate"], {int(c): ec.T(v) for c, v in st["classes"].items()}, flow2class=lambda f: tbl.get(f, f))
            cls = sorted(int(c) for c in st["classes"])
            flows = sorted(tbl)
            PipeHarness.wrap_send_packet(e, k)

            def smp():
                cur = e.current_packet
                cur = getattr(cur, "uid", -2) if cur is not None else -1
                per = [[f, e.queue_count.get(f, 0), e.queue_byte_size.get(f, 0)] for f in flows]
                if el == "wfq":
                    extra = {"vtime": ec.qs(e.vtime), "last": ec.qs(e.last_time), "active": sorted(e.active_set),
                             "fin": [[c, ec.qs(e.finish_times.get(c, 0))] for c in cls]}
                else:
                    extra = {"aux": [[c, ec.qs(e.aux_vc.get(c, 0))] for c in cls]}
                return [cur, len(e.store.items), e.packets_received, per, extra]
        elif el == "drr":
            from onl.scheduler.drr import DRR
            tbl = {f: c for f, c in st["f2c"]}
            e = DRR(env, st["rate"], {c: wt for c, wt in st["weights"]}, flow2class=lambda f: tbl.get(f, f))
            cls = [c for c, _ in st["weights"]]
            flows = sorted(tbl)
            h.scheds[k] = (e, "s:")
            PipeHarness.wrap_send_packet(e, k)

            def smp():
                cur = e.current_packet
                return [[[c, ec.qs(e.deficit[c])] for c in cls],
                        [[f, e.queue_count.get(f, 0), e.queue_byte_size.get(f, 0)] for f in flows],
                        [[c, getattr(e.head_of_line[c], "uid", -1) if c in e.head_of_line else None] for c in cls],
                        None if cur is None else getattr(cur, "uid", -1),
                        [[c, len(e.stores[c].items) if c in e.stores else 0] for c in cls],
                        len(e.packets_available.items), e.packets_received, e.total_packets]
        else:
            classes = st["classes"]
            if el == "sp":
                from onl.scheduler.sp import SP
                e = SP(env, st["rate"], {f: p for f, p in classes})
            elif el == "rr":
                from onl.scheduler.rr import RR
                e = RR(env, st["rate"], [f for f, _ in classes])
            else:
                from onl.scheduler.wrr import WRR
                e = WRR(env, st["rate"], {f: wt for f, wt in classes})
            flows = sorted({f for f, _ in classes})
            h.scheds[k] = (e, "f:")
            PipeHarness.wrap_send_packet(e, k)

            def smp():
                q = [[f, e.queue_count.get(f, 0), e.queue_byte_size.get(f, 0)] for f in flows]
                stl = [[f, len(e.stores[f].items) if f in e.stores else 0] for f in flows]
                cur = e.current_packet
                return [q, None if cur is None else getattr(cur, "uid", -1), e.packets_received, len(e.packets_available.items),
                        e.total_packets, [], stl]
        proc = getattr(e, "action", None) or getattr(e, "proc")
        proc._generator.__name__ = "run@%d" % k
        if el in ("wire", "port", "red", "tb", "trtb", "wfq", "vc"):
            h.watch_store("store@%d" % k, e.store)
        return e, smp

    # ---- the global log -> per-stage logs (the shape the element parts' mappings expect) + global schedule ----
    @staticmethod
    def _pipe_split(case, obs):
        """-> (sublogs, sched, err).  sublogs[k] = the log of stage k as its own part's harness would have written it;
        sched = per global action ("adv", t) | ("put", uid, outs) | ("step", k, index into sublogs[k], outs)
        with outs = the hand-overs / deliveries of the action as (boundary, uid), in order; every entry but "adv" ends with
        the list of (stage, index into its sublog) of the put() calls made during the action"""
        import re
        stages = case["stages"]
        n = len(stages)
        entry = topo(case)["entry"]
        sub = [[] for _ in range(n)]
        sched = []
        for e in obs["log"]:
            kind, samples = e[0], e[-1]
            if kind == "adv":
                for k in range(n):
                    sub[k].append(["adv", e[1], samples[k]])
                sched.append(("adv", e[1]))
                continue
            if kind == "put":
                owner, outs = entry(case["workload"]["packets"][str(e[1])]["flow"]), e[2]
            elif kind == "step":
                ks = set(re.findall(r"@(\d+)", e[1][1]))
                if len(ks) != 1:
                    return None, None, f"kernel step {e[1]} does not belong to exactly one stage"
                owner, outs = int(ks.pop()), e[2]
            else:
                return None, None, f"unexpected log entry {e[:2]}"
            mine = []
            seen = []
            pending = []          # put entries of the downstream stages caused by this action, in order
            for o in outs:
                if o[0] == "out":
                    j = int(o[1][1:])
                    seen.append((j, o[2]))
                    if j == owner:
                        mine.append(o)
                elif o[0] == "hand":
                    j = o[1]
                    st = [x for x in o[3]] if stages[j]["el"] in ("port", "red") else []
                    pending.append((j, ["put", o[2], st, o[4]]))
                elif o[0] == "stamp":
                    if stages[owner]["el"] in ("port", "red"):
                        mine.append(o)
                else:
                    return None, None, f"unexpected output {o[:2]}"
            caused = []           # (stage, index into its sublog) of every put() made during this action, in order
            if kind == "put":
                sub[owner].append(["put", e[1], mine, samples[owner]])
                caused.append((owner, len(sub[owner]) - 1))
                ent = ["put", e[1], seen]
            else:
                label = [e[1][0], re.sub(r"@\d+", "", e[1][1])]
                sub[owner].append(["step", label, mine, samples[owner]])
                ent = ["step", owner, len(sub[owner]) - 1, seen]
            for j, pe in pending:
                sub[j].append(pe)
                caused.append((j, len(sub[j]) - 1))
            sched.append(tuple(ent) + (caused,))
        return sub, sched, None

    def _pipe_elem_term(self, case, k):
        st = case["stages"][k]
        sc = self._pipe_subcase(case, st)
        parts = self._pipe_parts()
        q0 = cf.q(0)
        if st["el"] == "wire":
            return f"(wire_elem {cf.opt(st['loss'], cf.q)} {q0})"
        if st["el"] == "port":
            return f"(port_elem {parts['port']._cfg_term(sc)} {q0})"
        if st["el"] == "red":
            return f"(oport_elem {parts['port']._cfg_term(sc)} {q0})"
        if st["el"] == "trtb":
            return f"(trtb_elem {parts['trtb']._cfg_term(sc)} {q0})"
        if st["el"] == "tb":
            return f"(tb_elem {parts['tb']._cfg_term(sc)} {q0})"
        if st["el"] == "wfq":
            return f"(wfq_elem {parts['wfq']._cfg(sc)})"
        if st["el"] == "vc":
            return f"(vc_elem {parts['vc']._cfg(sc)})"
        if st["el"] == "drr":
            from props import part_drr
            return f"(drr_elem {part_drr.cfg_term(sc)} {q0})"
        return f"(mq_elem {parts[st['el']]._cfg_term(sc)})"

    def _pipe_terms(self, case, obs):
        """-> (per-stage agree terms of the element parts, composite observation list, err)"""
        sub, sched, err = self._pipe_split(case, obs)
        if sub is None:
            return None, None, err
        parts = self._pipe_parts()
        stages = case["stages"]
        n = len(stages)
        specs = case["workload"]["packets"]
        stage_terms, triples = [], []
        kind = case["kind"]
        for k, st in enumerate(stages):
            if st["el"] in ("flowdemux", "fibdemux"):
                triples.append([])          # stateless: no process, no store; its decisions show as hand-overs
                continue
            sc = self._pipe_subcase(case, st)
            part = parts[st["el"]]
            o = {"log": sub[k], "raised": None, "exhausted": obs["exhausted"]}
            if st["el"] in ("sp", "rr", "wrr", "wfq", "vc", "wire", "port", "red"):
                # part_mq / part_wfq read a 6th field of an output as "the counters the next hop read at the hand-off"; ours is the colour
                o["log"] = [([e[0], e[1], [x[:5] for x in e[2]]] + e[3:]) if e[0] in ("put", "step") else e for e in sub[k]]
            if st["el"] == "drr":
                from props import part_drr
                o["quantum"] = obs["final"][k]["quantum"]
                acts, e2 = part_drr.actions(sc, o)
            elif st["el"] in ("tb", "trtb"):
                acts, e2 = part._obs_term(sc, o)
            elif st["el"] == "wire":
                acts, e2 = wire_stage_actions(sc, o)            # props/part_wire.py's own mapping is cable / hub shaped by now
            else:
                acts, e2 = part._actions(sc, o)
            stage_terms.append("(" + (wire_stage_agree(sc, o) if st["el"] == "wire" else part.agree_term(sc, o)) + ")")
            if acts is None:
                return None, None, f"stage {k}: {e2}"
            if len(acts) != len(sub[k]):
                return None, None, f"stage {k}: mapping dropped log entries"
            triples.append(acts)

        def inj(k, a):
            if kind == "fanin":           # fanin sel A B C = par sel A B >> C : labels (lab A + lab B) + lab C
                return ["inl (inl (%s))", "inl (inr (%s))", "inr (%s)"][k] % a
            if kind == "fanout":          # A >> (demux >> par B C) : labels lab A + (Empty_set + (lab B + lab C))
                return {0: "inl (%s)", 2: "inr (inr (inl (%s)))", 3: "inr (inr (inr (%s)))"}[k] % a
            if k == n - 1:
                return "inr (" * k + a + ")" * k
            return "inr (" * k + "inl (" + a + ")" + ")" * k

        def boundary(j):
            """what the composite shows when stage j hands a packet on: None = a delivery (EForward), else the index of EHand"""
            if kind == "fanin":
                return None if j == 2 else 1          # width (par A B) - 1, for both branches
            if kind == "fanout":
                return None if j >= 2 else j          # A -> demux is boundary 0, demux -> branch is boundary 1
            return None if j == n - 1 else j

        def outs_term(seen):
            return cf.lst([(f"EForward {ec.pkt_coq(specs[str(u)], u)}" if boundary(j) is None
                            else f"EHand {cf.nat(boundary(j))} {ec.pkt_coq(specs[str(u)], u)}") for (j, u) in seen])
        import re
        comp = []
        for x in sched:
            if x[0] == "adv":
                comp.append(f"(IAdv {cf.q(x[1])}, [])")
                continue
            # a put into a REDPort that consumes a draw: the value is loaded onto the adapter's oracle tape just before the
            # action during which the put is made
            for (j, idx) in x[-1]:
                if stages[j]["el"] == "red":
                    m = re.search(r"\(Some (\(\(-?\d+\)%Z # \d+\))\)$", _first_component(triples[j][idx]))
                    if m:
                        comp.append(f"(IStep ({inj(j, 'OLoad ' + m.group(1))}), [])")
            if x[0] == "put":
                comp.append(f"(IPut {ec.pkt_coq(specs[str(x[1])], x[1])}, {outs_term(x[2])})")
            else:
                _, k, idx, seen, _c = x
                a = _first_component(triples[k][idx])
                if stages[k]["el"] == "red":
                    a = "OAct (" + a + ")"
                comp.append(f"(IStep ({inj(k, a)}), {outs_term(seen)})")
        return stage_terms, comp, None

    def _pipe_E(self, case):
        """the Coq term of the composed element"""
        n = len(case["stages"])
        T = lambda k: self._pipe_elem_term(case, k)                                        # noqa: E731
        if case["kind"] == "fanin":
            return f"(fanin (fun p => Z.eqb (flow p) 0) {T(0)} {T(1)} {T(2)})"
        if case["kind"] == "fanout":
            dm = case["stages"][1]
            if dm["el"] == "flowdemux":
                route = "(flowdemux true {| fd_nouts := 2%nat; fd_default := false |})"
            else:
                tbl = cf.lst([cf.pair(cf.z(int(f)), cf.z(q)) for f, q in sorted(dm["fib"].items(), key=lambda x: int(x[0]))])
                route = f"(fibdemux true true {{| fb_fib := Some {tbl}; fb_outs := Some 2%nat; fb_ends := []; fb_default := false |}})"
            return f"(fanout {route} {cf.q(0)} {T(0)} {T(2)} {T(3)})"
        return f"(pipeline {T(0)} {cf.lst([T(k) for k in range(1, n)])})"

    def _pipe_agree(self, case, obs):
        if obs["raised"]:
            return "false"
        stage_terms, comp, err = self._pipe_terms(case, obs)
        if stage_terms is None:
            return f"false (* {err} *)"
        E = self._pipe_E(case)
        nl = ";" + chr(10) + "    "
        return " && ".join(stage_terms) + f" && pipe_agree {E} {cf.lst(comp, sep=nl)}"

    def _pipe_model_term(self, case):
        try:
            obs = self._run_pipe(case)
        except Exception:
            return None
        if obs.get("raised"):
            return None
        stage_terms, comp, err = self._pipe_terms(case, obs)
        if stage_terms is None:
            return None
        E = self._pipe_E(case)
        nl = ";" + chr(10) + "    "
        return f"({cf.lst(stage_terms)}, pipe_first_diff {E} {cf.lst(comp, sep=nl)})"

    # ---- the property as an oracle over what crossed the stage boundaries -----------------------------------
    def _monitor_pipe(self, case, obs):
        msgs = []
        stages = case["stages"]
        n = len(stages)
        specs = case["workload"]["packets"]
        crossed = {k: [] for k in range(n)}        # what left stage k: (uid, fields, same object), in order
        entered = {k: [] for k in range(n)}        # what was put into stage k (by a driver or by the stage before it), in order
        went = {}                                  # demux: uid -> stage it was handed to
        tp = topo(case)
        inj = []
        for e in obs["log"]:
            if e[0] == "put":
                inj.append(e[1])
                entered[tp["entry"](specs[str(e[1])]["flow"])].append(e[1])
            if e[0] in ("put", "step"):
                src = None
                for o in e[2]:
                    if o[0] == "out":
                        src = int(o[1][1:])
                        crossed[src].append((o[2], o[3], o[4]))
                    elif o[0] == "hand":
                        entered[o[1]].append(o[2])
                        if src is not None and o[1] != src and stages[src]["el"] in ("flowdemux", "fibdemux"):
                            went[o[2]] = o[1]
            elif e[0] == "stray-out":
                msgs.append("pipe-stray: a packet was handed on outside every action")
        if len(set(inj)) != len(inj):
            msgs.append("pipe-harness: a packet was injected twice")
        for k, st in enumerate(stages):
            name = f"stage {k} ({st['el']})"
            ins = entered[k]
            outs = [u for (u, _, _) in crossed[k]]
            fin = obs["final"][k]
            for (u, fields, same) in crossed[k]:
                sp = specs.get(str(u))
                if sp is None or u not in ins:
                    msgs.append(f"pipe-invented: {name} forwarded packet {u} that was never put into it")
                    continue
                if (not same or fields[:2] != [sp["id"], sp["flow"]] or fields[2] != str(sp.get("src", "s")) or fields[3] != sp["size"]
                        or Fraction(fields[4]) != Fraction(sp["time"]) or fields[5] != sp.get("payload")):
                    msgs.append(f"pipe-altered: {name} forwarded packet {u} as {fields}, same-object={same}")
            for u in set(outs):
                if outs.count(u) > 1:
                    msgs.append(f"pipe-duplicated: {name} forwarded packet {u} {outs.count(u)} times")
            # the documented discards
            dropped = 0
            if st["el"] in ("port", "red"):
                dropped = fin["dropped"]
            elif st["el"] in ("flowdemux", "fibdemux"):
                # exactly one output per packet, the one the rule names; no route and no default: discarded
                dropped = sum(1 for u in ins if demux_route(st, specs[str(u)]["flow"]) is None)
                for u in ins:
                    r = demux_route(st, specs[str(u)]["flow"])
                    if (None if r is None else 2 + r) != went.get(u):
                        msgs.append(f"pipe-demux-route: {name} handed packet {u} of flow {specs[str(u)]['flow']} to "
                                    f"{went.get(u)}, its rule says {'nowhere' if r is None else 'output %d' % r}")
            elif st["el"] == "wire" and st["loss"] is not None:
                loss = Fraction(st["loss"])
                taken = fin["uniforms"]                      # one uniform draw per dequeued packet, in FIFO order
                lost = [u for u, x in zip(ins[:taken], st["uniforms"]) if Fraction(x) < loss]
                dropped = len(lost)
                for u in lost:
                    if u in outs:
                        msgs.append(f"pipe-lost-delivered: {name} delivered packet {u} although its draw is below the loss rate")
            if fin.get("received") is not None and fin["received"] != len(ins):
                msgs.append(f"pipe-counter: {name} counts {fin['received']} packets received, {len(ins)} were put into it")
            held = len(ins) - len(outs) - dropped
            if held < 0:
                msgs.append(f"pipe-conservation: {name}: {len(ins)} in, {len(outs)} forwarded, {dropped} discarded by its rule")
            elif obs["exhausted"] and held != 0:
                msgs.append(f"pipe-not-drained: {name}: the simulation ran out of events, {len(ins)} in, {len(outs)} forwarded, "
                            f"{dropped} discarded by its documented rule: {held} packets unaccounted for")
            for f in PIPE_FLOWS:
                a = [u for u in ins if specs[str(u)]["flow"] == f and u in outs]
                b = [u for u in outs if str(u) in specs and specs[str(u)]["flow"] == f and u in ins]
                if a != b and len(set(b)) == len(b):
                    msgs.append(f"pipe-flow-order: {name} forwarded flow {f} as {b}, it entered as {a}")
        delivered = [u for k in tp["sinks"] for (u, _, _) in crossed[k]]
        if len(set(delivered)) != len(delivered):
            msgs.append("pipe-duplicated: a packet was delivered twice at the sinks")
        if not obs["exhausted"]:
            msgs.append("pipe-not-quiescent: event queue not empty after 20000 steps")
        return msgs

    # ------------------------------------------------------------------------------------------
    def agree_term(self, case, obs):
        k = case["kind"]
        if k == "gen":
            if obs["raised"]:
                return "false"
            acts = []
            na = ns = 0
            first = True
            for e in obs["log"]:
                sample = e[-1]
                if e[0] == "adv":
                    a, outs = f"GAdvance {cf.q(e[1])}", []
                elif e[0] == "step" and e[1] == ["Initialize", "run"]:
                    a, outs = "GStart", e[2]
                elif e[0] == "step" and e[1] == ["Timeout", "run"]:
                    outs = e[2]
                    ad = cf.opt(case["arr"][na] if sample[1] > na else None, cf.q)
                    if first:
                        a = f"GInitFire {ad}"
                        first = False
                    else:
                        a = f"GFire {cf.z(case['sizes'][ns])} {ad}"
                elif e[0] == "step" and e[1][0] == "Process":
                    continue            # the generator's own termination event (finish reached): no model action
                else:
                    return f"false (* unexpected log entry {e[:2]} *)"
                na, ns = sample[1], sample[2]
                o = cf.lst([f"({cf.z(x[3][0])}, {cf.z(x[3][3])}, {cf.q(x[3][4])}, {cf.z(x[3][1])})" for x in outs])
                acts.append(f"({a}, {o}, {cf.z(sample[0])})")
            cfg = f"{{| g_init := {cf.q(case['init'])}; g_finish := {cf.opt(case['finish'], cf.q)}; g_flow := {cf.z(case['flow'])} |}}"
            return f"gen_agree {cfg} (gen0 {cf.q(case['t0'])}) {cf.lst(acts, sep=';\n   ')}"
        if k == "sink":
            if obs["raised"]:
                return "false"
            cfg = (f"{{| rec_arrivals := {cf.b(case['rec_arrivals'])}; absolute_arrivals := {cf.b(case['absolute'])}; "
                   f"rec_waits := {cf.b(case['rec_waits'])} |}}")
            ds = cf.lst([f"({cf.z(d[0])}, {cf.z(d[1])}, {cf.q(d[2])}, {cf.q(d[3])})" for d in case["ds"]])
            books = cf.lst([f"({cf.z(b[0])}, {{| k_waits := {cf.lst([cf.q(x) for x in b[1]])}; k_sizes := {cf.lst([cf.z(x) for x in b[2]])}; "
                            f"k_times := {cf.lst([cf.q(x) for x in b[3]])}; k_arrivals := {cf.lst([cf.q(x) for x in b[4]])}; "
                            f"k_first := {cf.q(b[5])}; k_last := {cf.q(b[6])}; k_packets := {cf.z(b[7])}; k_bytes := {cf.z(b[8])} |}})"
                            for b in obs["books"]])
            return f"books_eqb (sink_run {cfg} {ds}) {books}"
        if k in ("pipe", "fanin", "fanout"):
            return self._pipe_agree(case, obs)
        return None    # kind 'pipeline' (fan-out, DRR/WFQ, generators and sinks): monitor only

    def model_term(self, case):
        if case["kind"] in ("pipe", "fanin", "fanout"):
            return self._pipe_model_term(case)
        return None

    # ------------------------------------------------------------------------------------------
    def monitor(self, case, obs, prop_id):
        k = case["kind"]
        if obs.get("raised"):
            return [f"{k}-raises: {obs['raised']}"]
        msgs = []
        if k == "gen":
            now = Fraction(case["t0"])
            ems = []
            for e in obs["log"]:
                if e[0] == "adv":
                    now = Fraction(e[1])
                elif e[0] == "step":
                    for o in e[2]:
                        ems.append((now, o[3]))
            T = Fraction(case["t0"]) + Fraction(case["init"])
            fin = None if case["finish"] is None else Fraction(case["finish"])
            exp = []
            for i, s in enumerate(case["sizes"]):
                if fin is not None and not (T < fin):
                    break
                T = T + Fraction(case["arr"][i])
                exp.append((T, [i + 1, case["flow"], "gen0", s, cf.qjson(T), None]))
            got = [(t, f) for (t, f) in ems]
            n = min(len(got), len(exp))
            if [(t, f[:4], Fraction(f[4])) for t, f in got[:n]] != [(t, f[:4], Fraction(f[4])) for t, f in exp[:n]] or len(got) > len(exp):
                msgs.append(f"gen-law: emissions {[(str(t), f) for t, f in got][:6]} expected {[(str(t), f) for t, f in exp][:6]} "
                            "(packet n at initial_delay + n-th partial sum of the draws, n-th size, ids 1,2,.., while previous instant < finish)")
            if not obs["src_ok"]:
                msgs.append("gen-law: source field is not the generator's element id")
        elif k == "sink":
            per = {}
            order = []
            for (key, size, pt, now) in case["ds"]:
                if key not in per:
                    per[key] = []
                    order.append(key)
                per[key].append((size, Fraction(pt), Fraction(now)))
            got = {b[0]: b for b in obs["books"]}
            if [b[0] for b in obs["books"]] != order:
                msgs.append("sink-books: key set/order differs")
            for key in order:
                b = got.get(key)
                if b is None:
                    continue
                d = per[key]
                arr = [x[2] for x in d]
                if not case["absolute"]:
                    arr = [a - p for a, p in zip(arr, [Fraction(0)] + arr[:-1])]
                exp_w = [x[2] - x[1] for x in d] if case["rec_waits"] else []
                exp_a = arr if case["rec_arrivals"] else []
                if b[7] != len(d) or b[8] != sum(x[0] for x in d) or [Fraction(x) for x in b[1]] != exp_w \
                        or [Fraction(x) for x in b[4]] != exp_a:
                    msgs.append(f"sink-books: key {key}: counts/bytes/waits/arrivals {b[7]},{b[8]},{b[1]},{b[4]} do not match the {len(d)} delivered packets")
        elif k in ("pipe", "fanin", "fanout"):
            msgs += self._monitor_pipe(case, obs)
        else:
            msgs += self._monitor_pipeline(case, obs)
        return msgs[:3]

    def _monitor_pipeline(self, case, obs):
        msgs = []
        if not obs["exhausted"]:
            return ["pipeline-not-quiescent: event queue not empty after 20000 steps"]
        log = obs["log"]
        inj = [x for x in log if x[0] == "inject"]
        ident = {x[1]: x for x in inj}
        if len(ident) != len(inj):
            msgs.append("pipeline-duplicate: a packet object was injected twice")
        if len(inj) != sum(obs["sent"]):
            msgs.append("pipeline-generator: injected count differs from packets_send")
        # stage-by-stage conservation
        chain = case["chain"]
        stage_in = {0: inj}
        for idx, kind in enumerate(chain):
            outs = [x for x in log if x[0] == f"{idx}:{kind}:out"]
            ins = stage_in[idx]
            dropped = 0
            key = f"{idx}:{kind}"
            if key in obs["drops"]:
                rec, dr = obs["drops"][key]
                dropped = dr
                if rec != len(ins):
                    msgs.append(f"pipeline-port-counter: {key} packets_received {rec} but {len(ins)} packets were put in")
            noroute = 0
            if kind == "flowdemux":
                nfl = len(case["gens"])
                routed = max(1, nfl - 1)
                noroute = sum(1 for x in ins if x[3] >= routed)
            if kind == "fibdemux":
                # end devices are reached directly (not through the stage's output tap): by the FIBDemux rule every packet goes
                # to exactly ONE place: its end device, else the table's output, else the default output, else nowhere
                mode = case.get("fibmode", {})
                via_out = [x for x in ins if not mode.get(str(x[3]), "fib").startswith("end")
                           and ("fib" in mode.get(str(x[3]), "fib") or case.get("fibdefault"))]
                via_end = [x for x in ins if mode.get(str(x[3]), "fib").startswith("end")]
                if sorted(x[1] for x in outs) != sorted(x[1] for x in via_out):
                    msgs.append(f"pipeline-demux-output: FIBDemux {key} handed {sorted(x[1] for x in outs)} to its output/default, the rule "
                                f"(end device, else table, else default, else nowhere; modes {mode}, default={case.get('fibdefault')}) gives "
                                f"{sorted(x[1] for x in via_out)}")
                stage_in[idx + 1] = via_out + via_end
                continue
            if len(outs) + dropped + noroute != len(ins):
                msgs.append(f"pipeline-conservation: element {key}: {len(ins)} in, {len(outs)} forwarded, {dropped} counted drops, "
                            f"{noroute} without route: {len(ins) - len(outs) - dropped - noroute} packets unaccounted for at quiescence")
            if len(set(x[1] for x in outs)) != len(outs):
                msgs.append(f"pipeline-duplicate: element {key} forwarded a packet twice")
            inids = {x[1]: x for x in ins}
            for x in outs:
                if x[1] not in inids:
                    msgs.append(f"pipeline-invented: element {key} forwarded a packet that was never put in")
                elif list(x[2:7]) != list(inids[x[1]][2:7]):
                    msgs.append(f"pipeline-altered: element {key} changed identifying fields {inids[x[1]][2:7]} -> {x[2:7]}")
            for f in set(x[3] for x in outs):
                a = [x[1] for x in ins if x[3] == f and x[1] in {y[1] for y in outs}]
                b = [x[1] for x in outs if x[3] == f]
                if a != b:
                    msgs.append(f"pipeline-flow-order: element {key} reordered packets of flow {f}")
            stage_in[idx + 1] = outs
        last = stage_in[len(chain)]
        at_sinks = [x for x in log if x[0].startswith("sink")]
        if sorted(x[1] for x in at_sinks) != sorted(x[1] for x in last):
            msgs.append("pipeline-sink: packets leaving the last element and packets reaching the sinks differ")
        for x in at_sinks:
            if x[0] != "sink%d" % x[3]:
                msgs.append("pipeline-sink: packet reached another flow's sink")
        for f, (cnt, byt) in obs["sink_books"].items():
            mine = [x for x in at_sinks if x[3] == int(f)]
            if cnt != len(mine) or byt != sum(x[5] for x in mine):
                msgs.append(f"pipeline-sink-books: sink of flow {f} reports {cnt} packets/{byt} bytes, {len(mine)} delivered")
        return msgs

    def nontrivial(self, case, obs, prop_id):
        k = case["kind"]
        if k == "gen":
            return sum(len(e[2]) for e in obs["log"] if e[0] == "step") >= 3
        if k == "sink":
            return len(case["ds"]) >= 3 and len({d[0] for d in case["ds"]}) >= 2
        if k in ("pipe", "fanin", "fanout"):
            last = ["s%d" % j for j in topo(case)["sinks"]]
            return len(case["workload"]["packets"]) >= 3 and any(o[0] == "out" and o[1] in last
                                                                 for e in obs["log"] if e[0] in ("put", "step") for o in e[2])
        return len([x for x in obs["log"] if x[0] == "inject"]) >= 4

    def shrink(self, case):
        k = case["kind"]
        if k == "sink":
            for i in range(len(case["ds"])):
                yield {**case, "ds": case["ds"][:i] + case["ds"][i + 1:]}
        elif k == "gen":
            if len(case["sizes"]) > 1:
                yield {**case, "sizes": case["sizes"][:-1], "arr": case["arr"][:-1]}
            if case["finish"] is not None:
                yield {**case, "finish": None}
        elif k in ("fanin", "fanout"):
            for w in ec.shrink_workload(case["workload"]):
                if w["packets"]:
                    yield {**case, "workload": w}
            if case.get("pre"):
                yield {**case, "pre": False}
        elif k == "pipe":
            if len(case["stages"]) > 1:
                for i in range(len(case["stages"])):
                    yield {**case, "stages": case["stages"][:i] + case["stages"][i + 1:]}
            for w in ec.shrink_workload(case["workload"]):
                if w["packets"]:
                    yield {**case, "workload": w}
            for i, st in enumerate(case["stages"]):
                if st["el"] == "wire" and st["loss"] is not None:
                    yield {**case, "stages": case["stages"][:i] + [{**st, "loss": None}] + case["stages"][i + 1:]}
            if case.get("pre"):
                yield {**case, "pre": False}
        else:
            if len(case["chain"]) > 1:
                for i in range(len(case["chain"])):
                    yield {**case, "chain": case["chain"][:i] + case["chain"][i + 1:]}
            if len(case["gens"]) > 1:
                for i in range(len(case["gens"])):
                    gs = case["gens"][:i] + case["gens"][i + 1:]
                    yield {**case, "gens": [{**g, "flow": j} for j, g in enumerate(gs)]}
            for i, g in enumerate(case["gens"]):
                if len(g["sizes"]) > 1:
                    g2 = {**g, "sizes": g["sizes"][:-1], "arr": g["arr"][:-1]}
                    yield {**case, "gens": case["gens"][:i] + [g2] + case["gens"][i + 1:]}

    def describe(self, case, obs):
        k = case["kind"]
        keys = ["gensink:" + k]
        if k == "pipeline":
            keys += ["pipeline:has-" + c for c in sorted(set(case["chain"]))]
            keys.append("pipeline:len=%d" % len(case["chain"]))
        if k in ("fanin", "fanout"):
            keys.append(k + ":" + ",".join(st["el"] for st in case["stages"]))
            keys.append(k + ":packets=%d" % min(len(case["workload"]["packets"]), 8))
        if k == "pipe":
            keys.append("pipe:" + ">".join(st["el"] + ("0" if st["el"] == "port" and st["rate"] == 0 else "") for st in case["stages"]))
            keys += ["pipe:has-" + e for e in sorted({st["el"] for st in case["stages"]})]
            keys.append("pipe:len=%d" % len(case["stages"]))
            keys.append("pipe:packets=%d" % min(len(case["workload"]["packets"]), 8))
        return keys

    def signature(self, case, obs, msg):
        return msg.split(":")[0]


PART = GenSinkPart()
