"""C14 -- WFQ and VirtualClock transmit in virtual-finish-stamp order (part 'wfq': props/part_wfq.py)."""
from vlib.composite import Composite

PROP = Composite("C14", ["wfq"], extra_props_files=["Props/C14_Examples.v"], n_quick=400, n_thorough=8000, shard=40, case_timeout=30)
