"""C02 -- every waiter gets an event's outcome exactly once; failures are never lost.
Model: coq/Kernel/Model.v; theorems: coq/Kernel/Deliver*.v, statements in coq/Props/C02.v.
Correspondence: kernel_common script families (random + hand-shaped delivery scenarios) on the real onl.sim kernel vs the model
(whole trace: values/exceptions seen at every yield, probe order, query answers, what run()/step() returned or raised).
Direct scenarios (kind "direct", run by extra_checks on every run, real kernel only): fail() with exceptions deriving directly
from BaseException / KeyboardInterrupt, fail() with non-exceptions, children raising BaseException subclasses.
Monitor: the property statement over an INDEPENDENT record (obs["dlog"]) made by this plugin's own instrumentation of the real
kernel -- a generator proxy around every process body (what was yielded, what was received, how the body ended), wrappers around
env.schedule / env.step (outcome of every event when triggered and when processed, its callback list, what step() raised) and
around succeed()/fail() calls.  The monitor never looks at the Coq model or at the model-shaped trace."""
import json
from fractions import Fraction

from vlib.framework import Prop
from props import kernel_common as kc

COND_CLASSES = ("Condition", "AllOf", "AnyOf")


# ----------------------------------------------------------------------------------------------------
# instrumentation (second recording path)

class DHarness(kc.Harness):
    """kernel_common.Harness plus the delivery log `dlog`:
         ["sched", sid, outcome, prio, delay, cls, now]        env.schedule(event): outcome the event carries when triggered
         ["step", k, sid, cls, outcome, defused, waiters, now]  step k is about to process event sid; waiters = its callback list
                                                                ([["resume", pid] | ["interrupt", pid] | ["check", sid] | ["build"] | ["stop"] | ["probe"]]) or None
         ["stepend", k, raised, outcome, defused, now]          raised = None | ["stop", v] | ["raise", exn]
         ["yield", pid, sid|None, processed, outcome, now]      a process body yielded (sid None: not an event)
         ["recv", pid, "ok"|"exc", value, now]                  a process body was resumed with a value / an exception thrown in;
                                                                carries also the event being processed and its outcome at that moment
         ["end", pid, "ret"|"exc", value, psid, now]            the body returned / raised; psid = the Process event
         ["trig", op, sid, cls, pre, post, raised, arg, nsched, now]   succeed()/fail() called by a script; pre/post = snapshots
         ["item", i] / ["itemend", i, until_sid, until_outcome]        plan item i starts / ends
    """

    def __init__(self, case, env_factory=None):
        self.dlog = []
        self.nsched = 0
        self.cur = None
        self.step_no = 0
        super().__init__(case, env_factory)

    # -- helpers
    def oc(self, ev):
        from onl.sim.events import PENDING
        if ev._value is PENDING:
            return None
        if getattr(ev, "_ok", None):
            return ["ok", self.conv(ev._value)]
        return ["fail", self.conv_exn(ev._value)]

    def cbdesc(self, c):
        fn = getattr(c, "__func__", None)
        owner = getattr(c, "__self__", None)
        name = getattr(fn, "__name__", None)
        if name == "_resume":
            return ["resume", self.pid.get(id(owner), -1)]
        if name == "_interrupt":
            return ["interrupt", self.pid.get(id(owner.process), -1)]
        if name == "_check":
            return ["check", self.sid_of(owner)]
        if name == "_build_value":
            return ["build"]
        if name == "callback":
            return ["stop"]
        if getattr(c, "__name__", "") == "<lambda>":
            return ["probe"]
        return ["other", str(name)]

    def snap(self, ev):
        return [self.oc(ev), hasattr(ev, "_defused"),
                None if ev.callbacks is None else [self.cbdesc(c) for c in ev.callbacks]]

    def me(self):
        p = self.env.active_process
        return -1 if p is None else self.pid.get(id(p), -1)

    # -- env.schedule / env.step
    def _schedule(self, event, priority=None, delay=0):
        from onl.sim.events import NORMAL
        pr = NORMAL if priority is None else priority
        self.dlog.append(["sched", self.sid_of(event), self.oc(event), int(pr), kc.qs(delay), type(event).__name__, self.now()])
        self.nsched += 1
        return super()._schedule(event, priority, delay)

    def _step(self):
        from onl.sim.core import EmptySchedule, StopSimulation
        q = self.env._queue
        if not q:
            return super()._step()
        ev = q[0][3]
        k = self.step_no
        self.step_no += 1
        s = self.snap(ev)
        self.dlog.append(["step", k, self.sid_of(ev), type(ev).__name__, s[0], s[1], s[2], kc.qs(q[0][0])])
        prev, self.cur = self.cur, ev
        raised = None
        try:
            return super()._step()
        except kc.HarnessAbort:
            raise
        except StopSimulation as e:
            raised = ["stop", self.conv(e.args[0])]
            raise
        except EmptySchedule:
            raised = ["empty"]
            raise
        except BaseException as e:
            raised = ["raise", self.conv_exn(e)]
            raise
        finally:
            self.cur = prev
            self.dlog.append(["stepend", k, raised, self.oc(ev), hasattr(ev, "_defused"), self.now()])

    # -- process bodies
    def body(self, code, arg):
        return self._proxy(super().body(code, arg))

    def _proxy(self, inner):
        from onl.sim.events import Event
        self._recv("ok", None)
        send_val, exc, first = None, None, True
        while True:
            try:
                if first:
                    first = False
                    target = next(inner)
                elif exc is not None:
                    target = inner.throw(exc)
                else:
                    target = inner.send(send_val)
            except StopIteration as e:
                self.dlog.append(["end", self.me(), "ret", self.conv(e.value), self._psid(), self.now()])
                return e.value
            except kc.HarnessAbort:
                raise
            except BaseException as e:
                self.dlog.append(["end", self.me(), "exc", self.conv_exn(e), self._psid(), self.now()])
                raise
            if isinstance(target, Event):
                self.dlog.append(["yield", self.me(), self.sid_of(target), target.callbacks is None, self.oc(target), self.now()])
            else:
                self.dlog.append(["yield", self.me(), None, False, None, self.now()])
            try:
                send_val = yield target
                exc = None
                self._recv("ok", send_val)
            except GeneratorExit:
                inner.close()
                raise
            except kc.HarnessAbort:
                raise
            except BaseException as e:
                exc = e
                self._recv("exc", e)

    def _psid(self):
        p = self.env.active_process
        return -1 if p is None else self.sid_of(p)

    def _recv(self, kind, v):
        val = self.conv(v) if kind == "ok" else self.conv_exn(v)
        cur = self.cur
        self.dlog.append(["recv", self.me(), kind, val, None if cur is None else self.sid_of(cur),
                          None if cur is None else self.oc(cur), self.now()])

    # -- succeed / fail
    def exec_i(self, ins, regs):
        from onl.sim.events import Event
        if ins[0] in ("succeed", "fail"):
            e = self.read(ins[1], regs)
            if isinstance(e, Event):
                pre = self.snap(e)
                n, nd = len(self.trace), self.nsched
                arg = self.ev(ins[2], regs)
                r = yield from super().exec_i(ins, regs)
                post = self.snap(e)
                raised = None
                for t in self.trace[n:]:
                    if t[0] == "log" and t[3][1][0] == ["int", 2]:
                        raised = t[3][1][1]
                nsched = self.nsched - nd
                self.dlog.append(["trig", ins[0], self.sid_of(e), type(e).__name__, pre, post, raised, self.conv(arg),
                                  nsched, self.now()])
                return r
        return (yield from super().exec_i(ins, regs))

    # -- plan items
    def run_item(self, it):
        from onl.sim.events import Event
        i = len(self.results)
        self.dlog.append(["item", i])
        super().run_item(it)
        u = self.glob.get(it[1]) if it[0] == "run_ev" else None
        if isinstance(u, Event):
            self.dlog.append(["itemend", i, self.sid_of(u), self.oc(u)])
        else:
            self.dlog.append(["itemend", i, None, None])

    def run(self):
        o = super().run()
        o["dlog"] = self.dlog
        return o


# ----------------------------------------------------------------------------------------------------
# generator: kernel_common families biased towards delivery + hand-shaped scenario families

KNOBS = {
    "procs": (1, 6), "body": (1, 6), "n_shared": (1, 4), "n_shared_timeouts": (0, 2), "child_codes": (0, 3),
    "w_timeout": 4, "w_wait_shared": 5, "w_trigger": 4, "w_fail": 3, "w_spawn": 3, "w_join": 4,
    "w_interrupt": 0.8, "w_cond": 1.2, "w_query": 1.5, "w_log": 0.3, "w_double_trigger": 2.0,
    "w_neg_delay": 0.1, "w_bad_yield": 0.05, "w_interrupt_self": 0.1, "w_zero_burst": 0.8, "w_fine_pair": 0.2,
    "w_intr_then_spawn": 0.2, "p_catch": 0.55, "p_retry": 0.1, "p_end_raise": 0.25, "p_end_return": 0.6,
    "p_probe": 0.8, "p_fine": 0.04, "p_fraction": 0.05, "plan_run": 4, "plan_num": 1.5, "plan_ev": 3, "plan_steps": 2,
    "plan_mixed": 2, "p_top_exec": 0.35,
}

QUERIES = ["ok", "value", "defused", "triggered", "processed"]
DELAYS = ["0", "0", "1", "1", "2", "1/2", "3/2"]


def _val(rng):
    r = rng.random()
    if r < 0.4:
        return ["int", 0]
    if r < 0.6:
        return ["none"]
    return ["int", rng.randint(1, 9)]


def _exc(rng):
    return kc.rand_exc(rng, 0.5)


def _mode(rng):
    return "catch" if rng.random() < 0.6 else "prop"


def _queries(rng, ereg, base, qs_=None):
    out = []
    for j, q in enumerate(qs_ or rng.sample(QUERIES, rng.randint(2, 5))):
        out.append(["query", ["L", base + j], q, ereg])
        out.append(["log", ["reg", ["L", base + j]]])
    return out


class _Lbl:
    def __init__(self):
        self.n = 1000
        self.p = 500

    def lbl(self):
        self.n += 1
        return self.n

    def probe(self):
        self.p += 1
        return self.p


def _plan_tail(rng, setup, mid=None, until=None):
    plan = [["exec", setup]]
    r = rng.random()
    if until is not None and r < 0.35:
        plan.append(["run_ev", until])
    elif r < 0.55:
        for _ in range(rng.randint(1, 4)):
            plan.append(["step", rng.choice([1, 2, 3, 5, 8])])
    elif r < 0.7:
        plan.append(["run_num", rng.choice(["1", "2", "1/2", "3"])])
    if mid:
        plan.append(["exec", mid])
    for _ in range(rng.choice([2, 3])):
        plan.append(["run"])
    return plan


def shaped_double(rng):
    """fail() then succeed() (or the reverse) on one event in one instant; 0-3 waiters (catching or not), maybe one that
    registers while the event is triggered but not yet processed; ok/value/defused asked after the rejected call"""
    L = _Lbl()
    codes, setup = [], [["event", ["G", 0]]]
    if rng.random() < 0.8:
        setup.append(["probe", ["G", 0], L.probe()])
    d = rng.choice(DELAYS)
    nw = rng.choice([0, 0, 1, 2, 3])
    for i in range(nw):
        body = []
        if rng.random() < 0.3:
            body += [["timeout", ["L", 1], rng.choice(["0", d]), ["none"]], ["yield", L.lbl(), ["reg", ["L", 1]], ["L", 2], "catch"]]
        body.append(["yield", L.lbl(), ["reg", ["G", 0]], ["L", 3], _mode(rng)])
        body += _queries(rng, ["G", 0], 10, ["ok", "value", "defused"][:rng.randint(1, 3)])
        if rng.random() < 0.5:
            body.append(["return", ["reg", ["L", 3]]])
        codes.append(body)
    first_fail = rng.random() < 0.6
    first = ["fail", ["G", 0], _exc(rng)] if first_fail else ["succeed", ["G", 0], _val(rng)]
    second = ["succeed", ["G", 0], _val(rng)] if first_fail else ["fail", ["G", 0], _exc(rng)]
    trig = [["timeout", ["L", 1], d, ["none"]], ["yield", L.lbl(), ["reg", ["L", 1]], ["L", 2], "catch"], first]
    if rng.random() < 0.3:
        trig += _queries(rng, ["G", 0], 10)
    trig.append(second)
    trig += _queries(rng, ["G", 0], 20)
    if rng.random() < 0.3:
        trig.append(rng.choice([first, second, ["fail", ["G", 0], ["int", 3]]]))
        trig += _queries(rng, ["G", 0], 30, ["ok", "value"])
    codes.append(trig)
    tcode = len(codes) - 1
    late = None
    if rng.random() < 0.5:
        codes.append([["timeout", ["L", 1], d, ["none"]], ["yield", L.lbl(), ["reg", ["L", 1]], ["L", 2], "catch"],
                      ["yield", L.lbl(), ["reg", ["G", 0]], ["L", 3], _mode(rng)], ["log", ["reg", ["L", 3]]]])
        late = len(codes) - 1
    order = list(range(nw))
    for i in order:
        setup.append(["spawn", ["G", 1 + i], i, ["none"]])
        if rng.random() < 0.6:
            setup.append(["probe", ["G", 1 + i], L.probe()])
    setup.append(["spawn", ["G", 8], tcode, ["none"]])
    if late is not None:
        setup.append(["spawn", ["G", 9], late, ["none"]])
    mid = _queries(rng, ["G", 0], 0) if rng.random() < 0.6 else None
    return {"t0": rng.choice(["0", "0", "1", "-1"]), "codes": codes,
            "plan": _plan_tail(rng, setup, mid, until=rng.choice([0, 0, 8, 1]))}


def shaped_join(rng):
    """children that return falsy / other values or raise; joiners that wait before the child ends (pending join), after it
    was processed (the inner loop of _resume), run(until=child); values handed on to grand-parents"""
    L = _Lbl()
    dchild = rng.choice(DELAYS)
    end = rng.random()
    child = []
    if rng.random() < 0.85:
        child += [["timeout", ["L", 1], dchild, _val(rng)], ["yield", L.lbl(), ["reg", ["L", 1]], ["L", 2], "catch"]]
    if end < 0.55:
        child.append(["return", rng.choice([["int", 0], ["int", 0], ["none"], ["int", rng.randint(1, 9)], ["reg", ["L", 2]], ["reg", ["L", 0]]])])
    elif end < 0.8:
        child.append(["raise", _exc(rng)])
    codes = [child]
    setup = [["spawn", ["G", 0], 0, _val(rng)]]
    if rng.random() < 0.8:
        setup.append(["probe", ["G", 0], L.probe()])
    nj = rng.choice([1, 1, 2, 3, 4])
    for j in range(nj):
        body = []
        kind = rng.choice(["pending", "processed", "same-instant", "twice"])
        if kind == "processed":
            body += [["timeout", ["L", 1], kc.qs(Fraction(dchild) + Fraction(rng.choice(["1", "1/2", "2"]))), ["none"]],
                     ["yield", L.lbl(), ["reg", ["L", 1]], ["L", 2], "catch"]]
        elif kind == "same-instant":
            body += [["timeout", ["L", 1], dchild, ["none"]], ["yield", L.lbl(), ["reg", ["L", 1]], ["L", 2], "catch"]]
        m = _mode(rng)
        body.append(["yield", L.lbl(), ["reg", ["G", 0]], ["L", 3], m])
        body.append(["log", ["reg", ["L", 3]]])
        if kind == "twice" or rng.random() < 0.25:
            body.append(["yield", L.lbl(), ["reg", ["G", 0]], ["L", 4], _mode(rng)])     # already processed: continues at once
            body.append(["log", ["reg", ["L", 4]]])
        if rng.random() < 0.5:
            body += _queries(rng, ["G", 0], 10)
        r = rng.random()
        if r < 0.5:
            body.append(["return", ["reg", ["L", 3]]])
        elif r < 0.65:
            body.append(["ifexn", ["L", 3], ["raise", ["reg", ["L", 3]]]])
        codes.append(body)
        setup.append(["spawn", ["G", 1 + j], len(codes) - 1, ["none"]])
        if rng.random() < 0.7:
            setup.append(["probe", ["G", 1 + j], L.probe()])
    if rng.random() < 0.5:            # a grand-parent joins a joiner
        codes.append([["yield", L.lbl(), ["reg", ["G", 1]], ["L", 3], _mode(rng)], ["log", ["reg", ["L", 3]]],
                      ["return", ["reg", ["L", 3]]]])
        setup.append(["spawn", ["G", 7], len(codes) - 1, ["none"]])
        setup.append(["probe", ["G", 7], L.probe()])
    mid = _queries(rng, ["G", rng.choice([0, 1])], 0) if rng.random() < 0.6 else None
    return {"t0": rng.choice(["0", "0", "1/2"]), "codes": codes,
            "plan": _plan_tail(rng, setup, mid, until=rng.choice([0, 0, 1, 7]))}


def shaped_timeouts(rng):
    """one value-carrying timeout (value 0 / None / k) and one shared event, several waiters, some of them arriving after the
    event was processed, some while it is triggered and not yet processed"""
    L = _Lbl()
    d = rng.choice(["1", "1", "2", "1/2", "0"])
    setup = [["timeout", ["G", 0], d, _val(rng)], ["event", ["G", 1]]]
    for g in (0, 1):
        if rng.random() < 0.8:
            setup.append(["probe", ["G", g], L.probe()])
    codes = []
    for j in range(rng.randint(1, 5)):
        body = []
        when = rng.choice(["before", "at", "after"])
        if when != "before":
            dd = d if when == "at" else kc.qs(Fraction(d) + 1)
            body += [["timeout", ["L", 1], dd, _val(rng)], ["yield", L.lbl(), ["reg", ["L", 1]], ["L", 2], "catch"],
                     ["log", ["reg", ["L", 2]]]]
        for _ in range(rng.randint(1, 3)):
            g = rng.choice([0, 0, 1])
            body.append(["yield", L.lbl(), ["reg", ["G", g]], ["L", 3], _mode(rng)])
            body.append(["log", ["reg", ["L", 3]]])
        if rng.random() < 0.4:
            body.append(["return", ["reg", ["L", 3]]])
        codes.append(body)
        setup.append(["spawn", ["G", 2 + j], j, ["none"]])
    trig = [["timeout", ["L", 1], rng.choice([d, "0", "3"]), ["none"]], ["yield", L.lbl(), ["reg", ["L", 1]], ["L", 2], "catch"],
            rng.choice([["succeed", ["G", 1], _val(rng)], ["fail", ["G", 1], _exc(rng)]])]
    if rng.random() < 0.5:
        trig.append(["succeed", ["G", 0], _val(rng)])          # a timeout is born triggered: must be refused
        trig += _queries(rng, ["G", 0], 10, ["ok", "value"])
    codes.append(trig)
    setup.append(["spawn", ["G", 9], len(codes) - 1, ["none"]])
    return {"t0": rng.choice(["0", "0", "5/4"]), "codes": codes, "plan": _plan_tail(rng, setup, None, until=rng.choice([0, 1, 2]))}


def shaped_unhandled(rng):
    """failures nobody (or not everybody) handles: run()/step() must raise them at that instant and go on afterwards"""
    L = _Lbl()
    codes, setup = [], [["event", ["G", 0]], ["probe", ["G", 0], L.probe()]]
    d = rng.choice(DELAYS)
    codes.append([["timeout", ["L", 1], d, ["none"]], ["yield", L.lbl(), ["reg", ["L", 1]], ["L", 2], "catch"],
                  ["fail", ["G", 0], _exc(rng)],
                  ["timeout", ["L", 3], "1", ["int", 0]], ["yield", L.lbl(), ["reg", ["L", 3]], ["L", 4], "catch"], ["log", ["reg", ["L", 4]]]])
    setup.append(["spawn", ["G", 1], 0, ["none"]])
    for j in range(rng.choice([0, 0, 1, 2])):
        m = rng.choice(["prop", "prop", "catch"])
        body = [["yield", L.lbl(), ["reg", ["G", 0]], ["L", 3], m], ["log", ["reg", ["L", 3]]]]
        if rng.random() < 0.4:
            body.append(["raise", _exc(rng)])
        codes.append(body)
        setup.append(["spawn", ["G", 2 + j], len(codes) - 1, ["none"]])
        if rng.random() < 0.7:
            setup.append(["probe", ["G", 2 + j], L.probe()])
    if rng.random() < 0.4:                 # a condition absorbs it
        codes.append([["timeout", ["L", 1], "5", ["none"]], ["cond", ["L", 2], rng.random() < 0.5, [["G", 0], ["L", 1]]],
                      ["yield", L.lbl(), ["reg", ["L", 2]], ["L", 3], _mode(rng)], ["log", ["reg", ["L", 3]]]])
        setup.append(["spawn", ["G", 6], len(codes) - 1, ["none"]])
    plan = [["exec", setup]]
    for _ in range(rng.randint(2, 4)):
        plan.append(rng.choice([["run"], ["run"], ["step", rng.choice([1, 2, 3, 6])], ["run_ev", rng.choice([0, 1, 2])]]))
    plan.append(["exec", _queries(rng, ["G", 0], 0)])
    plan += [["run"], ["run"]]
    return {"t0": "0", "codes": codes, "plan": plan}


def shaped_stopiteration(rng):
    """a shared event failed with StopIteration(k) (the type named by `except StopIteration` in Process._resume): waiters that catch
    it receive exactly that exception and carry on; with no waiter step()/run() raises it.  Never raised or re-raised inside a process
    body (PEP 479 would turn it into RuntimeError), so every waiter catches."""
    L = _Lbl()
    exc = ["user", kc.TAG_STOPITERATION, rng.randint(0, 9)]
    nw = rng.choice([0, 1, 2, 3])
    waiter = [["yield", L.lbl(), ["reg", ["G", 0]], ["L", 1], "catch"], ["log", ["reg", ["L", 1]]],
              ["timeout", ["L", 2], rng.choice(DELAYS), _val(rng)], ["yield", L.lbl(), ["reg", ["L", 2]], ["L", 3], "catch"],
              ["return", ["reg", ["L", 1]] if rng.random() < 0.5 else _val(rng)]]
    late = [["timeout", ["L", 1], "2", ["none"]], ["yield", L.lbl(), ["reg", ["L", 1]], ["L", 2], "catch"],
            ["yield", L.lbl(), ["reg", ["G", 0]], ["L", 3], "catch"], ["log", ["reg", ["L", 3]]]]
    trig = [["timeout", ["L", 1], rng.choice(["0", "1"]), ["none"]], ["yield", L.lbl(), ["reg", ["L", 1]], ["L", 2], "catch"],
            ["fail", ["G", 0], exc]] + _queries(rng, ["G", 0], 10)
    setup = [["event", ["G", 0]], ["probe", ["G", 0], L.probe()]]
    for i in range(nw):
        setup.append(["spawn", ["G", 1 + i], 0, ["none"]])
    if nw and rng.random() < 0.5:
        setup.append(["spawn", ["G", 5], 1, ["none"]])
    setup.append(["spawn", ["G", 6], 2, ["none"]])
    plan = [["exec", setup]] + rng.choice([[["run"]], [["run_ev", 0], ["run"]], [["run_num", "1"], ["run"]]]) + [["run"]]
    return {"t0": "0", "codes": [waiter, late, trig], "plan": plan}


def shaped_cond_decided_then_fail(rng):
    """a condition over two shared events A, B is decided by one operand and, IN THE SAME INSTANT and before the condition is
    processed, the other operand fails with nobody else waiting on it: the condition forwards that failure to no one, so
    step()/run() must raise it at that instant (any_of: A succeeds then B fails; all_of: A fails then B fails).  Variants: the
    failure comes first, or one instant later, or another waiter of B catches it"""
    L = _Lbl()
    anyof = rng.random() < 0.5
    setup = [["event", ["G", 0]], ["event", ["G", 1]], ["probe", ["G", 0], L.probe()], ["probe", ["G", 1], L.probe()]]
    waiter = [["cond", ["L", 1], not anyof, [["G", 0], ["G", 1]]],
              ["yield", L.lbl(), ["reg", ["L", 1]], ["L", 2], _mode(rng)], ["log", ["reg", ["L", 2]]],
              ["timeout", ["L", 3], "1", ["int", 3]], ["yield", L.lbl(), ["reg", ["L", 3]], ["L", 4], "catch"], ["log", ["reg", ["L", 4]]]]
    d = rng.choice(["0", "1", "1/2"])
    first = ["succeed", ["G", 0], _val(rng)] if anyof else ["fail", ["G", 0], _exc(rng)]
    second = ["fail", ["G", 1], _exc(rng)]
    order = rng.random()
    trig = [["timeout", ["L", 1], d, ["none"]], ["yield", L.lbl(), ["reg", ["L", 1]], ["L", 2], "catch"]]
    if order < 0.6:
        trig += [first, second]                                             # decided, then the other operand fails at once
    elif order < 0.8:
        trig += [second, first]                                             # the failure comes first
    else:
        trig += [first, ["timeout", ["L", 3], rng.choice(["0", "1"]), ["none"]],
                 ["yield", L.lbl(), ["reg", ["L", 3]], ["L", 4], "catch"], second]   # a kernel step / an instant later
    trig += [["timeout", ["L", 5], "1", ["int", 5]], ["yield", L.lbl(), ["reg", ["L", 5]], ["L", 6], "catch"], ["log", ["reg", ["L", 6]]]]
    codes = [waiter, trig]
    setup += [["spawn", ["G", 2], 0, ["none"]], ["spawn", ["G", 3], 1, ["none"]]]
    if rng.random() < 0.25:                                                 # somebody else handles B's failure
        codes.append([["yield", L.lbl(), ["reg", ["G", 1]], ["L", 1], "catch"], ["log", ["reg", ["L", 1]]]])
        setup.append(["spawn", ["G", 4], 2, ["none"]])
    plan = [["exec", setup]]
    for _ in range(rng.randint(2, 4)):
        plan.append(rng.choice([["run"], ["run"], ["step", rng.choice([1, 2, 4])]]))
    plan += [["run"], ["run"]]
    return {"t0": "0", "codes": codes, "plan": plan}


SHAPED = [shaped_double, shaped_double, shaped_double, shaped_join, shaped_join, shaped_join, shaped_timeouts, shaped_timeouts,
          shaped_unhandled, shaped_unhandled, shaped_stopiteration, shaped_cond_decided_then_fail, shaped_cond_decided_then_fail]


def mutate_case(rng, case):
    """post-processing of a random kernel_common case: opposite-kind second triggers with queries behind them, falsy values"""
    def fix_val(v):
        if v[0] == "int" and rng.random() < 0.35:
            return ["int", 0]
        return v

    def walk(code, depth=0):
        out = []
        for ins in code:
            op = ins[0]
            if op == "return":
                ins = ["return", fix_val(ins[1])]
            elif op == "timeout":
                ins = [op, ins[1], ins[2], fix_val(ins[3])]
            elif op == "succeed":
                ins = [op, ins[1], fix_val(ins[2])]
            out.append(ins)
            if op == "succeed" and rng.random() < 0.3:
                out.append(["fail", ins[1], _exc(rng)])
                out += _queries(rng, ins[1], 40 + 6 * depth, rng.sample(["ok", "value", "defused"], rng.randint(1, 3)))
            elif op == "fail" and ins[2][0] == "user" and rng.random() < 0.45:
                out.append(["succeed", ins[1], _val(rng)])
                out += _queries(rng, ins[1], 40 + 6 * depth, rng.sample(["ok", "value", "defused"], rng.randint(1, 3)))
        return out
    codes = [walk(c) for c in case["codes"]]
    plan = [["exec", walk(it[1])] if it[0] == "exec" else it for it in case["plan"]]
    return {**case, "codes": codes, "plan": plan}



# ----------------------------------------------------------------------------------------------------
# direct scenarios (kind "direct"): exception classes the script language cannot express -- classes deriving DIRECTLY from
# BaseException -- and non-exceptions passed to fail().  Run on the real kernel only; the checks are evaluated inside.

class _UserExc(Exception):
    pass


class _Abort(BaseException):
    """application-level abort signal, deliberately not an Exception"""


DIRECT_FAIL = {"fail-user-exception": (_UserExc, ("link-down", 3)),
               "fail-baseexception-subclass": (_Abort, ("link-down", 3)),
               "fail-keyboardinterrupt": (KeyboardInterrupt, ("k", 3))}
DIRECT_NONEXC = {"fail-string": "not an exception", "fail-none": None, "fail-int": 3, "fail-exception-class": ValueError}
DIRECT_CHILD = {"child-raises-user-exception": (_UserExc, ("child-gave-up", 9)),
                "child-raises-baseexception-subclass": (_Abort, ("child-gave-up", 9))}
DIRECT = list(DIRECT_FAIL) + list(DIRECT_NONEXC) + list(DIRECT_CHILD)


def run_direct(name):
    from onl.sim import Environment
    checks = []

    def chk(sig, ok, what):
        checks.append([sig, bool(ok), what])

    env = Environment()
    log = []

    def waiter(tag, ev):
        try:
            v = yield ev
            log.append((tag, env.now, "value", repr(v)))
        except BaseException as err:      # noqa: B036 -- the scenario wants to see everything
            log.append((tag, env.now, type(err), err.args))

    if name in DIRECT_FAIL:
        cls, args = DIRECT_FAIL[name]
        ev = env.event()
        raised = []

        def controller():
            yield env.timeout(4)
            try:
                ev.fail(cls(*args))
            except BaseException as e:    # noqa: B036
                raised.append((type(e).__name__, str(e)[:80]))

        env.process(waiter("w1", ev))
        env.process(waiter("w2", ev))
        env.process(controller())
        run_exc = None
        try:
            env.run()
        except BaseException as e:        # noqa: B036
            run_exc = (type(e).__name__, str(e)[:80])
        sig = "fail-rejects-baseexception"
        chk(sig, not raised, f"ev.fail({cls.__name__}{args}) raised {raised}")
        chk(sig, run_exc is None, f"env.run() raised {run_exc} although both waiters handle the failure")
        chk(sig, ev.triggered and getattr(ev, "_ok", None) is False, f"after fail({cls.__name__}): triggered={ev.triggered}, "
            f"ok={getattr(ev, '_ok', 'unset')}")
        chk(sig, ev.processed and ev.defused, f"after the waiters handled it: processed={ev.processed}, defused={ev.defused}")
        want = [("w1", 4, cls, args), ("w2", 4, cls, args)]
        chk(sig, log == want, f"waiters of an event failed with {cls.__name__}{args} at 4 received {log}, expected each exactly "
            f"once, in registration order, type and args preserved")
    elif name in DIRECT_NONEXC:
        bad = DIRECT_NONEXC[name]
        ev = env.event()
        got = []

        def controller():
            yield env.timeout(1)
            try:
                ev.fail(bad)
                got.append(None)
            except BaseException as e:    # noqa: B036
                got.append((type(e), str(e)))

        env.process(waiter("w1", ev))
        env.process(controller())
        run_exc = None
        try:
            env.run()
        except BaseException as e:        # noqa: B036
            run_exc = (type(e).__name__, str(e)[:80])
        sig = "fail-accepts-non-exception"
        chk(sig, got and got[0] is not None and got[0][0] is ValueError and "is not an exception" in got[0][1],
            f"ev.fail({bad!r}) answered {got}, expected ValueError('... is not an exception.')")
        chk(sig, not ev.triggered and not ev.processed and not ev.defused and ev.callbacks is not None and len(ev.callbacks) == 1,
            f"after the rejected fail({bad!r}): triggered={ev.triggered}, processed={ev.processed}, defused={ev.defused}, "
            f"callbacks={ev.callbacks}")
        chk(sig, log == [] and run_exc is None, f"rejected fail({bad!r}): waiter saw {log}, env.run() raised {run_exc}")
    elif name in DIRECT_CHILD:
        cls, args = DIRECT_CHILD[name]

        def child():
            yield env.timeout(6)
            raise cls(*args)

        c = env.process(child())
        env.process(waiter("p1", c))
        env.process(waiter("p2", c))
        run_exc = None
        try:
            env.run()
        except BaseException as e:        # noqa: B036
            run_exc = (type(e).__name__, str(e)[:80])
        sig = "fail-rejects-baseexception"
        chk(sig, run_exc is None, f"env.run() raised {run_exc} although both joiners handle the child's {cls.__name__}")
        chk(sig, c.triggered and getattr(c, "_ok", None) is False and type(c._value) is cls and c._value.args == args,
            f"child raised {cls.__name__}{args}: process event ok={getattr(c, '_ok', 'unset')}, value={c._value!r}")
        want = [("p1", 6, cls, args), ("p2", 6, cls, args)]
        chk(sig, log == want, f"joiners of a child that raised {cls.__name__}{args} at 6 received {log}")
        chk(sig, c.processed and c.defused, f"processed={c.processed}, defused={c.defused}")
    else:
        raise ValueError(name)
    return {"direct": name, "checks": checks}


# ----------------------------------------------------------------------------------------------------

class C02(Prop):
    id = "C02"
    props_file = ["Props/C02.v", "Props/C02_Bridge.v", "Props/C02_Examples.v"]
    coq_imports = kc.COQ_IMPORTS
    n_quick = 700
    n_thorough = 16000
    shard = 70
    case_timeout = 30
    nontrivial_rule = ("LONG families (corpus/C02/long-*.json on every run + 0.6% of the generated cases): one process yielding 1200 / "
                       "3000 already processed events (timeout with value, succeeded, failed-and-defused, finished children) back to "
                       "back in one resumption, a 1500-deep chain of zero-delay hand-overs, a run of > 5000 steps; otherwise "
                       "45% hand-shaped families (double triggers of the opposite kind in one instant with 0-3 waiters and late "
                       "registrations; children returning 0/None/k or raising with pending, processed and same-instant joiners and "
                       "run(until=child); value-carrying timeouts incl. 0 with waiters before/at/after processing; failures nobody or "
                       "not everybody handles), 55% random kernel_common script families biased to shared events, joins, failures and "
                       "double triggers, post-processed with opposite-kind second triggers + ok/value/defused queries and falsy "
                       "values; non-trivial = an event processed with >= 2 process waiters, or a failure thrown into a process, or a "
                       "rejected trigger, and >= 5 processed events; distinct by hash of the case")
    trusted_base = ["vlib/translate.py (Python ast, fail closed; observation/effect tables in props/kernel_tie.py) regenerates coq/Gen/Extracted_kernel.v from the kernel leaves of the tree under test (Environment.schedule/peek/step, Event.succeed/fail/defused, Timeout/Initialize/Interruption.__init__, Interruption._interrupt, Process.interrupt) before every build; the C02_gen_* theorems (Props/C02_Bridge.v) bridge them to Kernel/Model.v; step()'s heappop try/except, its callback loop and peek()'s try/except are whitelisted as one statement each; Event.trigger is tied to the model definition Kernel/Trigger.v (the kernel model itself leaves it out); Process._resume: see C04",
                    "kernel harness props/kernel_common.py (real generators on the real Environment, events named by creation index) "
                    "and this plugin's instrumentation (generator proxy around process bodies, wrappers of env.schedule/env.step as "
                    "instance attributes; nothing in /repo is touched)",
                    "exceptions are compared by class and args (the kernel throws per-process copies type(e)(*e.args)); tracebacks and "
                    "__cause__ are not modelled",
                    "times are exact dyadic numbers; CPython generator semantics (send/throw/StopIteration) are modelled, not verified"]
    assumptions = ["process bodies do not call env.run()/step() re-entrantly",
                   "executions are considered up to the first exception that escapes from the MIDDLE of a callback loop (invalid yield, "
                   "interrupt of a process whose target is being processed): the kernel has then dropped the remaining callbacks "
                   "(DESIGN.md 4 (ii)); the stop of run(until=event) is no such escape since fix bd0bcc6 (found by this monitor as "
                   "waiter-lost-at-until-stop, repaired together with C03)",
                   "succeed()/fail() called by hand on a live Process event (the kernel re-triggers it when the generator ends) and "
                   "Event.trigger are misuse outside the property"]
    partial = ["for Process events and conditions the theorems deliver the outcome the event carries at the moment its callback is "
               "invoked (C02_resume_gets_outcome) and show that a generator's return value / exception becomes its Process event's "
               "outcome (C02_process_event_outcome); that this outcome is unchanged until the Process event is processed is proved "
               "only for the other kinds of events (C02_value_stable: timeouts, plain events, ...) -- for a Process event it is "
               "false when succeed()/fail() is called by hand on a live process; the monitor checks it on every run "
               "(outcome-changed-before/during-processing); condition values are C05's subject",
               "RBroken is shown unreachable for the answers the C02 theorems meet (popped event missing or without outcome, waiter "
               "without process record, process without Process event); the internal RBroken answers of conditions and "
               "interruptions belong to C05/C04"]


    # ---- second tie: the kernel leaves translated from the tree under test before the Coq build (fail closed) ----
    def pre_build(self):
        from vlib import framework as fw
        from props import kernel_tie
        kernel_tie.write_extracted_kernel(fw.REPO, fw.COQ)

    # LONG-STREAK families (kernel_common.long_case): rare among the generated cases (they are expensive), never among the
    # first few (the framework stores the first cases verbatim in the evidence); fixed instances are in corpus/C02/long-*.json
    p_long = 0.006
    _ngen = 0

    def gen_case(self, rng, tier):
        self._ngen += 1
        if self._ngen > 6 and rng.random() < self.p_long:
            case = kc.long_case(rng, rng.choice(["streak", "streak", "streak", "chain", "longrun"]))
            case["kind"] = "long"
            return case
        if rng.random() < 0.45:
            case = rng.choice(SHAPED)(rng)
            case["kind"] = "shaped"
            return case
        return mutate_case(rng, kc.gen_case(rng, KNOBS))

    def run_impl(self, case):
        if case.get("kind") == "direct":
            try:
                return run_direct(case["name"])
            except Exception as e:
                return {"direct": case["name"], "checks": [], "crash": repr(e)[:300]}
        return DHarness(case).run()

    def agree_term(self, case, obs):
        if case.get("kind") == "direct":
            return None                    # exception classes outside the script language: no model term
        return kc.agree_term(case, obs)

    def model_term(self, case):
        if case.get("kind") == "direct":
            return None
        return kc.model_term(case)

    def shrink(self, case):
        if case.get("kind") == "direct":
            return []
        return kc.shrink(case)

    def extra_checks(self, rng, tier):
        viol, n = [], 0
        for name in DIRECT:
            case = {"kind": "direct", "name": name, "_noshrink": True}
            obs = self.run_impl(case)
            n += len(obs.get("checks", []))
            for m in self.monitor(case, obs):
                viol.append((case, obs, m))
        return viol, {"direct_checks": n, "direct_scenarios": len(DIRECT)}

    def nontrivial(self, case, obs):
        if case.get("kind") == "direct":
            return True
        steps = [d for d in obs.get("dlog", []) if d[0] == "step"]
        if len(steps) < 5:
            return False
        multi = any(d[6] and sum(1 for w in d[6] if w[0] == "resume") >= 2 for d in steps)
        thrown = any(d[0] == "recv" and d[2] == "exc" for d in obs["dlog"])
        rejected = any(d[0] == "trig" and d[6] is not None for d in obs["dlog"])
        return multi or thrown or rejected

    def describe(self, case, obs):
        if case.get("kind") == "direct":
            return ["direct:" + case["name"]]
        keys = [case.get("kind", "random")]
        if case.get("long"):
            keys.append("long:" + case["long"])
        d = obs.get("dlog", [])
        steps = [x for x in d if x[0] == "step"]
        mw = max([sum(1 for w in (x[6] or []) if w[0] == "resume") for x in steps] or [0])
        keys.append("max-waiters=%s" % (mw if mw < 4 else "4+"))
        trig = [x for x in d if x[0] == "trig"]
        if any(x[6] is not None and x[4][0] is not None and ((x[1] == "succeed") != (x[4][0][0] == "ok")) for x in trig):
            keys.append("rejected-opposite-kind-trigger")
        if any(x[6] is not None for x in trig):
            keys.append("rejected-trigger")
        if any(x[0] == "end" and x[2] == "ret" and x[3] == ["int", 0] for x in d):
            keys.append("process-returns-0")
        if any(x[0] == "end" and x[2] == "exc" for x in d):
            keys.append("process-raises")
        if any(x[0] == "yield" and x[3] for x in d):
            keys.append("yield-of-processed-event")
        if any(x[0] == "yield" and x[2] is not None and not x[3] and x[4] is not None for x in d):
            keys.append("waiter-registered-while-triggered")
        if any(x[0] == "recv" and x[2] == "exc" for x in d):
            keys.append("failure-thrown-into-process")
        if any(x[0] == "recv" and x[2] == "ok" and x[3] == ["int", 0] for x in d):
            keys.append("value-0-delivered")
        if any(x[0] == "stepend" and x[2] and x[2][0] == "raise" and x[2][1][0] not in ("Runtime", "Attribute", "Type", "Value") for x in d):
            keys.append("unhandled-failure-raised-by-step")
        for r in obs["results"]:
            keys.append("result-" + r[0][0])
        for it in case["plan"]:
            if it[0] != "exec":
                keys.append("plan-" + it[0])
        n = len(steps)
        keys.append("steps=%s" % ("<10" if n < 10 else "<30" if n < 30 else "30+" if n < 1000 else "1000+"))
        streak, best = 0, 0
        for x in d:
            if x[0] == "yield":
                streak = streak + 1 if x[3] else 0
                best = max(best, streak)
        if best >= 2:
            keys.append("processed-yield-streak=%s" % ("<10" if best < 10 else "<1000" if best < 1000 else "1000+"))
        return sorted(set(keys))

    # ---- the property, as an oracle over the delivery log -------------------------------------------------------
    def monitor(self, case, obs):
        if case.get("kind") == "direct":
            if obs.get("crash"):
                return ["direct-scenario-crashed: " + case["name"] + " " + obs["crash"]]
            out, seen = [], set()
            for sig, ok, what in obs.get("checks", []):
                if not ok and sig not in seen:
                    seen.add(sig)
                    out.append(f"{sig}: [{case['name']}] {what}")
            return out
        msgs = list(kc.basic_monitor(case, obs))
        if obs.get("aborted"):
            return msgs
        d = obs["dlog"]
        results = obs["results"]
        trig_oc = {}           # sid -> outcome when (last) scheduled
        cls_of = {}
        reg = {}               # sid -> pids waiting, in registration order (from the yield records)
        last_yield = {}        # pid -> (index, sid, processed, outcome)
        misused = set()        # Process events triggered by hand
        step = None
        pending_end = None
        pending_raise = None   # (exn, now) raised by a step, to be seen as the result of the plan item
        item = None
        done, done_before = set(), set()     # events processed so far / when the current plan item began
        escaped = set()        # events whose callback loop was left by an exception of a callback (DESIGN 4 (ii): no claim)

        def add(m):
            msgs.append(m)

        for idx, x in enumerate(d):
            tag = x[0]
            if pending_end is not None and tag != "sched":
                add(f"process-end-not-triggered: process ended with {pending_end[1]} but its event was not scheduled next")
                pending_end = None
            if tag == "item":
                item = x[1]
                pending_raise = None
                done_before = set(done)
            elif tag == "itemend":
                res = results[x[1]] if x[1] < len(results) else None
                if pending_raise is not None and res is not None:
                    exn, t = pending_raise
                    if res[0] != ["raise", exn] or res[1] != t:
                        add(f"failure-not-propagated: step raised {exn} at {t}, the plan item ended with {res[0]} at {res[1]}")
                if x[2] is not None and res is not None and x[3] is not None and x[2] not in misused \
                        and x[2] not in escaped and cls_of.get(x[2]) not in COND_CLASSES:
                    if x[2] in done_before:
                        # already processed when run() was called: run returns until.value (the exception object if it failed)
                        want = ["stop", x[3][1] if x[3][0] == "ok" else ["exn", x[3][1][0], x[3][1][1]]]
                    else:
                        want = ["stop", x[3][1]] if x[3][0] == "ok" else ["raise", x[3][1]]
                    if res[0][0] in ("stop", "raise") and res[0] != want and x[2] in done:
                        add(f"until-value: run(until=event {x[2]}) ended with {res[0]}; the event's outcome is {x[3]}, expected {want}")
                item = None
                pending_raise = None
            elif tag == "sched":
                _, sid, oc, prio, delay, cls, now = x
                cls_of[sid] = cls
                if pending_end is not None:
                    psid, poc, pnow = pending_end
                    if sid != psid or oc != poc or prio != 1 or Fraction(delay) != 0:
                        add(f"process-event-outcome: process ended with {poc} at {pnow}; scheduled next: event {sid} outcome {oc} "
                            f"priority {prio} delay {delay}")
                    pending_end = None
                if sid in trig_oc and cls == "Process":
                    misused.add(sid)
                trig_oc[sid] = oc
            elif tag == "step":
                _, k, sid, cls, oc, defused, waiters, now = x
                if pending_raise is not None:
                    add(f"run-continued-after-failure: step {k} ran after a step raised {pending_raise[0]}")
                    pending_raise = None
                cls_of[sid] = cls
                done.add(sid)
                expected = reg.pop(sid, [])
                if waiters is not None:
                    snap = [w[1] for w in waiters if w[0] == "resume"]
                    if cls == "Initialize":
                        expected = list(snap)
                    if snap != expected:
                        add(f"waiter-list: event {sid} ({cls}) is processed with resume callbacks {snap}; processes that yielded it "
                            f"and were not interrupted since, in order: {expected}")
                if sid in trig_oc and trig_oc[sid] != oc and sid not in misused:
                    add(f"outcome-changed-before-processing: event {sid} ({cls}) was triggered with {trig_oc[sid]}, carries {oc} "
                        f"when processed")
                step = {"k": k, "sid": sid, "cls": cls, "oc": oc, "defused": defused, "waiters": waiters, "expected": expected,
                        "i": 0, "thrown": False, "now": now}
            elif tag == "stepend":
                _, k, raised, oc, defused, now = x
                st, step = step, None
                if st is None or st["waiters"] is None:
                    continue
                left = st["expected"][st["i"]:]
                sid, cls = st["sid"], st["cls"]
                all_done = not left
                if raised is None:
                    if left:
                        add(f"waiter-not-resumed: event {sid} ({cls}) processed at {now}; processes {left} waited for it and were "
                            f"not resumed")
                    if oc is not None and oc[0] == "fail" and not defused:
                        add(f"failure-lost: event {sid} ({cls}) failed with {oc[1]}, nobody defused it, step() returned normally")
                elif raised[0] == "stop":
                    if left:
                        add(f"waiter-lost-at-until-stop: run(until=event {sid}) stopped at {now}; processes {left} registered on "
                            f"the event after run() was entered are never resumed")
                elif raised[0] == "raise":
                    if oc is None or oc[0] == "ok" or raised[1] != oc[1]:
                        # a callback (a waiter's invalid yield, an interrupt of a process whose target is being processed ...)
                        # let an exception escape from the loop: it also supersedes the remembered stop of run(until=event)
                        escaped.add(sid)
                    if oc is not None and oc[0] == "fail" and all_done:
                        if not defused and raised[1] != oc[1]:
                            add(f"failure-wrong-exception: event {sid} failed with {oc[1]} (not defused), step() raised {raised[1]}")
                        if defused and raised[1] == oc[1] and ["stop"] not in (st["waiters"] or []):
                            add(f"raised-although-defused: event {sid} failed with {oc[1]}, was defused, step() raised it anyway")
                    if oc is not None and oc[0] == "fail" and not defused and all_done and raised[1] == oc[1]:
                        pending_raise = (raised[1], now)
                if (not st["defused"]) and defused and oc is not None and oc[0] == "fail":
                    has_check = any(w[0] == "check" for w in st["waiters"])
                    if not st["thrown"] and not has_check:
                        add(f"defused-without-handler: event {sid} ({cls}) was marked defused although its exception was neither "
                            f"thrown into a process nor taken by a condition")
            elif tag == "yield":
                _, pid, sid, processed, oc, now = x
                last_yield[pid] = (idx, sid, processed, oc)
                if sid is not None and not processed:
                    reg.setdefault(sid, []).append(pid)
            elif tag == "recv":
                _, pid, kind, val, cur_sid, cur_oc, now = x
                got = ["ok", val] if kind == "ok" else ["fail", val]
                ly = last_yield.pop(pid, None)
                if ly is not None and ly[2]:
                    # continuation of the inner loop of _resume
                    if idx != ly[0] + 1:
                        add(f"processed-yield-not-continued: process {pid} yielded the processed event {ly[1]} and was not "
                            f"continued at once")
                    if got != ly[3]:
                        add(f"wrong-outcome-delivered: process {pid} yielded the processed event {ly[1]} whose outcome is {ly[3]} "
                            f"and received {got}")
                    if step is not None and ly[1] == step["sid"] and kind == "exc":
                        step["thrown"] = True
                    continue
                if step is None:
                    add(f"resumed-outside-step: process {pid} received {got} while no event was being processed")
                    continue
                ws = step["waiters"] or []
                if step["cls"] == "Interruption" and ["interrupt", pid] in ws:
                    for lst in reg.values():
                        if pid in lst:
                            lst.remove(pid)
                    if got != cur_oc:
                        add(f"wrong-outcome-delivered: interrupt of process {pid} carries {cur_oc}, it received {got}")
                    continue
                exp = step["expected"]
                if step["i"] < len(exp) and exp[step["i"]] == pid:
                    step["i"] += 1
                elif pid in exp[step["i"]:]:
                    add(f"resumed-out-of-order: event {step['sid']} resumed process {pid}; registration order is {exp}")
                    exp.remove(pid)
                else:
                    add(f"resumed-unexpectedly: process {pid} was resumed by event {step['sid']} ({step['cls']}) without waiting "
                        f"for it (or a second time); waiting: {exp}")
                if got != cur_oc:
                    add(f"wrong-outcome-delivered: event {step['sid']} ({step['cls']}) has outcome {cur_oc}; process {pid} "
                        f"received {got}")
                if step["cls"] not in COND_CLASSES and cur_oc != step["oc"] and step["sid"] not in misused:
                    add(f"outcome-changed-during-processing: event {step['sid']} ({step['cls']}) had outcome {step['oc']} when its "
                        f"processing began and {cur_oc} when process {pid} was resumed")
                if kind == "exc":
                    step["thrown"] = True
            elif tag == "end":
                _, pid, kind, val, psid, now = x
                pending_end = (psid, ["ok", val] if kind == "ret" else ["fail", val], now)
                last_yield.pop(pid, None)
            elif tag == "trig":
                _, op, sid, cls, pre, post, raised, arg, nsched, now = x
                was = pre[0] is not None
                if was:
                    if raised != ["exn", "Runtime", [["int", 1]]]:
                        add(f"double-trigger-accepted: {op}() on the triggered event {sid} ({pre[0]}) raised {raised} instead of "
                            f"RuntimeError 'already been triggered'")
                    if pre != post or nsched:
                        add(f"double-trigger-changed-state: rejected {op}({arg}) on event {sid}: outcome/defused/callbacks "
                            f"{pre} -> {post}, {nsched} schedule calls")
                elif op == "fail" and arg[0] != "exn":
                    if raised != ["exn", "Value", [["int", 7]]] or pre != post or nsched:
                        add(f"fail-non-exception: fail({arg}) on event {sid} raised {raised}; state {pre} -> {post}")
                else:
                    want = ["ok", arg] if op == "succeed" else ["fail", [arg[1], arg[2]]]
                    if raised is not None or post[0] != want or nsched != 1 or post[1] != pre[1] or post[2] != pre[2]:
                        add(f"first-trigger: {op}({arg}) on the pending event {sid} raised {raised}; outcome {post[0]}, "
                            f"{nsched} schedule calls, defused {pre[1]} -> {post[1]}")
                    if cls == "Process":
                        misused.add(sid)
        seen, out = set(), []
        for m in msgs:
            s = m.split(":")[0]
            if s not in seen:
                seen.add(s)
                out.append(m)
        return out


PROP = C02()
