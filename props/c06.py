"""C06 -- Resources never exceed capacity, grant in queue order, never idle a slot.

Real Resource / PriorityResource / PreemptiveResource objects are driven by scripted processes; the clock
is driven with env.step().  Before every step the head of env._queue is inspected, so the observed
execution becomes an action sequence of the model coq/Res/Resource.v:
    Rq p prio pre | Rl r | Cn r | Ex r   operations issued by the driver processes, in program order
    Pq i | Pr i                          the kernel processes a triggered Request / Release event of the resource
    Ad t                                 the clock moves
After EVERY action the implementation's state is recorded (users, queue, count, pending events in agenda
order, triggered requests, number of Interruption events created).  agree_term replays the action list in
the model (checking admissibility) and compares all of it; monitor checks the clauses of C06 directly on the
implementation trace, without the model."""
from vlib.framework import Prop
from vlib import coqfmt as cf

KINDS = ["res", "prio", "preempt"]
MAX_STEPS = 4000


def canon_exc(e):
    import re
    return [type(e).__name__, re.sub(r" object at 0x[0-9a-f]+", "", str(e))[:160]]


class Stop(Exception):
    pass


class Driver:
    """runs one case on the real classes"""

    def __init__(self, case):
        from onl.sim import Environment
        from onl.sim.resources import resource as R
        from onl.sim import events as E
        from onl.sim.exceptions import Interrupt
        self.R, self.E, self.Interrupt = R, E, Interrupt
        self.case = case
        self.kind = case["res"]
        self.env = Environment()
        cls = {"res": R.Resource, "prio": R.PriorityResource, "preempt": R.PreemptiveResource}[self.kind]
        self.res = cls(self.env, case["cap"])
        self.nid = 0                 # creation counter of the resource's events (= next_id of the model)
        self.evid = {}               # id(event object) -> creation index
        self.keep = []               # keeps the objects alive (ids stay unique)
        self.reqobj = {}             # creation index -> Request
        self.reqs = {}               # creation index -> [pid, prio, pre, creation time]   (driver's own knowledge)
        self.acts, self.snaps = [], []
        self.intr_seen, self.intrs = set(), []
        self.recv = []
        self.pokes = []              # [target pid, time] of Process.interrupt() calls made by the driver itself
        self.exit_releases = []      # number of Release events created by each with-exit
        self.with_intr_exits = []    # indices of the Ex actions made by a real `with` statement that was left by an Interrupt
        self.raised = None
        self.done = False
        self.after_raise = None
        self.pid_of = {}
        self.procs = []
        self.pstate = []

    # ---- recording ---------------------------------------------------------------------------------
    def register(self, ev):
        self.evid[id(ev)] = self.nid
        self.keep.append(ev)
        self.nid += 1
        return self.nid - 1

    def snapshot(self, now=None):
        env, res = self.env, self.res
        agenda = sorted(env._queue, key=lambda e: (e[0], e[1], e[2]))
        pend = []
        for (_t, _p, _eid, ev) in agenda:
            if id(ev) in self.evid:
                pend.append([1 if isinstance(ev, self.R.Release) else 0, self.evid[id(ev)]])
            elif isinstance(ev, self.E.Interruption) and id(ev) not in self.intr_seen:
                self.intr_seen.add(id(ev))
                self.keep.append(ev)
                c = ev._value.cause
                if isinstance(c, self.R.Preempted):      # (the driver's own plain interrupts are not the resource's)
                    self.intrs.append([self.pid_of.get(id(ev.process), -1), self.pid_of.get(id(c.by), -1), c.usage_since])
        # cross-check of the recording itself: pending = triggered and not processed
        flags = sorted(i for i, o in ((self.evid[id(o)], o) for o in self.keep if id(o) in self.evid)
                       if o.triggered and o.callbacks is not None)
        if flags != sorted(p[1] for p in pend):
            raise RuntimeError("recording: agenda %s vs flags %s" % (pend, flags))
        users = [self.evid.get(id(r), -1) for r in res.users]
        queue = [self.evid.get(id(r), -1) for r in res.queue]
        trig = sorted(i for i, r in self.reqobj.items() if r.triggered)
        return [env.now if now is None else now, users, queue, res.count, pend, trig, len(self.intrs)]

    def act(self, *a):
        if self.done:            # (generators destroyed after the run execute their with-exits: not part of the history)
            return
        self.acts.append(list(a))
        self.snaps.append(self.snapshot())

    def watch(self, ev):
        """after the resource's own callback of this event has run, record the state (the micro-step's result)"""
        slot_holder = {"slot": None}

        def cb(_ev):
            s = slot_holder["slot"]
            if s is not None and self.snaps[s] is None:
                self.snaps[s] = self.snapshot()
        ev.callbacks.append(cb)
        self.watchers[id(ev)] = slot_holder

    # ---- operations ----------------------------------------------------------------------------------
    def op_request(self, pid, prio, pre):
        if self.kind == "res":
            r = self.res.request()
        else:
            r = self.res.request(priority=prio, preempt=pre)
        i = self.register(r)
        self.reqobj[i] = r
        self.reqs[i] = [pid, prio, pre, self.env.now]
        self.watch(r)
        self.act("Rq", pid, prio, pre)
        return r

    def op_release(self, r):
        rel = self.res.release(r)
        self.register(rel)
        self.watch(rel)
        self.act("Rl", self.evid[id(r)])
        return rel

    def op_cancel(self, pid, r, generator_exit=False):
        if generator_exit:
            r.__exit__(GeneratorExit, GeneratorExit(), None)     # the with-block exit on generator cleanup: cancel only
        else:
            r.cancel()
        self.act("Cn", pid, self.evid[id(r)])

    def note_exit(self, pid, r):
        """r.__exit__ has just run: find the Release it created.  The code creates exactly one; if a changed
        __exit__ creates none (or several) the operation is still logged as the with-exit it is, and the monitor
        judges what it did to the resource."""
        new = [e[3] for e in sorted(self.env._queue, key=lambda e: e[2])
               if isinstance(e[3], self.R.Release) and id(e[3]) not in self.evid and e[3].resource is self.res]
        if self.done:
            return
        for rel in new:
            self.register(rel)
            self.watch(rel)
        self.act("Ex", pid, self.evid[id(r)])
        self.exit_releases.append(len(new))

    def op_exit(self, pid, r):
        r.__exit__(None, None, None)
        self.note_exit(pid, r)

    # ---- a driver process ----------------------------------------------------------------------------
    def proc(self, pid, script):
        env, Interrupt = self.env, self.Interrupt
        st = self.pstate[pid]

        def got(it):
            c = it.cause
            if isinstance(c, self.R.Preempted):
                self.recv.append([pid, env.now, 1, self.pid_of.get(id(c.by), -1), c.usage_since, 1 if c.resource is self.res else 0])
                st["active"] = False
            else:
                self.recv.append([pid, env.now, 0, -1, None, 0])

        def usable():      # cancel()/__exit__ on a cancelled, never granted request raises ValueError (outside the property)
            return st["cur"] is not None and not (st["cancelled"] and not st["cur"].triggered)

        try:
            for ins in script:
                op = ins[0]
                try:
                    if op == "w":
                        yield env.timeout(ins[1])
                    elif op == "req":
                        if st["active"]:
                            continue
                        st["cur"] = self.op_request(pid, ins[1], ins[2])
                        st["mine"].append(st["cur"])
                        st["active"], st["cancelled"] = True, False
                    elif op == "y":
                        if st["cur"] is not None and st["active"] and not st["cancelled"]:
                            yield st["cur"]
                    elif op in ("rel", "rely"):
                        if st["cur"] is None:
                            continue
                        rel = self.op_release(st["cur"])
                        st["active"] = (not st["cur"].triggered) and not st["cancelled"]   # still queued: still awaiting
                        if op == "rely":
                            yield rel
                    elif op in ("cancel", "gexit"):
                        if not usable():
                            continue
                        self.op_cancel(pid, st["cur"], op == "gexit")
                        if not st["cur"].triggered:
                            st["cancelled"], st["active"] = True, False
                    elif op == "exit":
                        if not usable():
                            continue
                        self.op_exit(pid, st["cur"])
                        if not st["cur"].triggered:
                            st["cancelled"] = True
                        st["active"] = False
                    elif op == "with":
                        if st["active"]:
                            continue
                        r, by_intr = None, False
                        try:
                            try:
                                if self.kind == "res":
                                    cm = self.res.request()
                                else:
                                    cm = self.res.request(priority=ins[1], preempt=ins[2])
                                with cm as r:
                                    i = self.register(r)
                                    self.reqobj[i] = r
                                    self.reqs[i] = [pid, ins[1], ins[2], env.now]
                                    self.watch(r)
                                    self.act("Rq", pid, ins[1], ins[2])
                                    st["cur"], st["active"], st["cancelled"] = r, True, False
                                    st["mine"].append(r)
                                    if ins[4]:
                                        yield r
                                    yield env.timeout(ins[3])
                            except Interrupt:
                                by_intr = True
                                raise
                        finally:
                            if r is not None:
                                self.note_exit(pid, r)
                                if by_intr:
                                    self.with_intr_exits.append(len(self.acts) - 1)
                                if not r.triggered:
                                    st["cancelled"] = True
                                st["active"] = False
                    elif op == "intr_g":
                        # interrupt the owner of a request that was granted in this instant and whose grant event the
                        # kernel has not processed yet (it is about to resume with the slot)
                        cand = [self.reqs[self.evid[id(u)]][0] for u in self.res.users
                                if id(u) in self.evid and u.callbacks is not None]
                        cand = [q for q in cand if q != pid and self.procs[q].is_alive]
                        if cand:
                            q = cand[ins[1] % len(cand)]
                            self.procs[q].interrupt("poke")
                            self.pokes.append([q, env.now])
                    elif op == "intr":
                        q = ins[1] % len(self.procs)
                        target = self.procs[q]
                        if q != pid and target.is_alive:
                            target.interrupt("poke")
                            self.pokes.append([q, env.now])
                    elif op == "rel_old":
                        old = [x for x in st["mine"] if x is not st["cur"]]
                        if old:
                            self.op_release(old[ins[1] % len(old)])
                    elif op == "rel_of":
                        other = self.pstate[ins[1] % len(self.pstate)]
                        if other["cur"] is not None and other is not st:
                            self.op_release(other["cur"])
                except Interrupt as it:
                    got(it)
            if not self.case["procs"][pid].get("leave"):
                # release / cancel what is left, then stay alive long enough to receive a pending interrupt
                if st["cur"] is not None and st["active"]:
                    if st["cur"].triggered:
                        self.op_release(st["cur"])
                    elif not st["cancelled"]:
                        self.op_cancel(pid, st["cur"])
                    st["active"] = False
                for _ in range(2):
                    try:
                        yield env.timeout(1)
                    except Interrupt as it:
                        got(it)
            # (with "leave" the generator ends here, possibly holding a slot or still queued)
            self.act("En", pid)
        except Stop:
            return
        except Exception as e:          # an operation of the resource raised: the property says it must not
            if self.raised is None:
                self.raised = canon_exc(e)
                rel_pending = sum(1 for x in self.env._queue if isinstance(x[3], self.R.Release) and x[3].resource is self.res)
                self.after_raise = [len(self.res.users), len(self.res.queue), rel_pending, pid, env.now]

    # ---- main loop -----------------------------------------------------------------------------------
    def run(self):
        env = self.env
        self.watchers = {}
        for pid, p in enumerate(self.case["procs"]):
            self.pstate.append({"cur": None, "active": False, "cancelled": False, "mine": []})
        for pid, p in enumerate(self.case["procs"]):
            pr = env.process(self.proc(pid, [["w", p["start"]]] + p["script"] if p["start"] else p["script"]))
            self.pid_of[id(pr)] = pid
            self.procs.append(pr)
        steps = 0
        try:
            while env._queue and self.raised is None and steps < MAX_STEPS:
                steps += 1
                t, _prio, _eid, ev = env._queue[0]
                if t > env.now:
                    self.acts.append(["Ad", t])
                    self.snaps.append(self.snapshot(now=t))
                slot = None
                if id(ev) in self.evid:
                    self.acts.append(["Pr" if isinstance(ev, self.R.Release) else "Pq", self.evid[id(ev)]])
                    self.snaps.append(None)
                    slot = len(self.snaps) - 1
                    if id(ev) in self.watchers:
                        self.watchers[id(ev)]["slot"] = slot
                try:
                    env.step()
                finally:
                    if slot is not None and self.snaps[slot] is None:
                        # the event had lost its callback list entry (cannot happen with the code as is)
                        self.snaps[slot] = self.snapshot()
        except Exception as e:          # escaped from env.step(): raised inside a callback of the kernel
            if self.raised is None:
                self.raised = canon_exc(e)
                rel_pending = sum(1 for x in env._queue if isinstance(x[3], self.R.Release) and x[3].resource is self.res)
                self.after_raise = [len(self.res.users), len(self.res.queue), rel_pending, -1, env.now]
        for i, s in enumerate(self.snaps):
            if s is None:
                self.snaps[i] = self.snapshot()
        self.done = True
        return {"acts": list(self.acts), "snaps": list(self.snaps), "intrs": list(self.intrs), "recv": list(self.recv),
                "reqs": {str(k): v for k, v in self.reqs.items()}, "raised": self.raised, "after_raise": self.after_raise,
                "steps": steps,
                "pokes": self.pokes, "exit_releases": self.exit_releases, "with_intr_exits": self.with_intr_exits,
                "left": len(env._queue)}


# ------------------------------------------------------------------------------------------------
# second tie (DESIGN 2.6): Resource._do_put/_do_get and PreemptiveResource._do_put translated from the tree under
# test on every run (vlib/translate.py, fail closed) into coq/Gen/Extracted_resource.v; bridged to Res/Resource.v
# by coq/Res/ResourceBridge.v; obligations in Props/C06_Bridge.v.

RES_CONS = [("FxUsersAppend", ""),              # self._users.append(event)
            ("FxUsageSince", "(t : Z)"),        # event.usage_since = t
            ("FxSucceed", ""),                  # event.succeed()
            ("FxUsersRemoveIfPresent", ""),     # try: self._users.remove(event.request) / except ValueError: pass
            ("FxPickWorst", ""),                # preempt = sorted(self.users, key=lambda e: e.key)[-1]
            ("FxEvict", ""),                    # self.users.remove(preempt)
            ("FxInterrupt", ""),                # preempt.proc.interrupt(Preempted(by=event.proc, usage_since=preempt.usage_since, resource=self))
            ("FxSuperDoPut", "")]               # return super()._do_put(event)
RES_FX = [("self._users.append(event)", "FxUsersAppend", []),
          ("event.usage_since = _1", "FxUsageSince", ["Z"]),
          ("event.succeed()", "FxSucceed", []),
          ("try:\n    self._users.remove(event.request)\nexcept ValueError:\n    pass", "FxUsersRemoveIfPresent", []),
          ("preempt = sorted(self.users, key=lambda e: e.key)[-1]", "FxPickWorst", [], ("n_users",)),
          ("self.users.remove(preempt)", "FxEvict", []),
          ("preempt.proc.interrupt(Preempted(by=event.proc, usage_since=preempt.usage_since, resource=self))", "FxInterrupt", []),
          ("return super()._do_put(event)", "FxSuperDoPut", [])]
RES_READS = [("self._users", "n_users", "len", "volatile"), ("self.capacity", "capacity", "Z"),
             ("self._env.now", "now", "Z")]                  # the C06 model's clock is integral
PRE_READS = [("self.users", "n_users", "len", "volatile"), ("self.capacity", "capacity", "Z"),
             ("event.preempt", "preempt", "bool"),
             ("preempt.key > event.key", "victim_worse", "bool", "needs:FxPickWorst"),      # tuple comparison of the keys
             ("preempt.proc.is_alive", "victim_alive", "bool", "needs:FxPickWorst")]


def extracted_resource(repo):
    import os
    from vlib import translate as tr
    path = os.path.join(repo, "onl", "sim", "resources", "resource.py")
    specs = [tr.FnSpec(path, "Resource", "_do_put", "gen_Resource_do_put", reads=RES_READS, effects=RES_FX, ret="bool"),
             tr.FnSpec(path, "Resource", "_do_get", "gen_Resource_do_get", reads=RES_READS, effects=RES_FX, ret="bool"),
             tr.FnSpec(path, "PreemptiveResource", "_do_put", "gen_PreemptiveResource_do_put", reads=PRE_READS, effects=RES_FX,
                       ret="unit")]
    return tr.gen_module("onl/sim/resources/resource.py: Resource._do_put, _do_get; PreemptiveResource._do_put", None, "", [],
                         "res_fx", RES_CONS, specs)


class C06(Prop):
    id = "C06"
    props_file = ["Props/C06.v", "Props/C06_Bridge.v", "Props/C06_BridgeLoop.v", "Props/C06_Examples.v"]
    coq_imports = ["From ONL Require Import Res.Resource."]
    n_quick = 500
    n_thorough = 8000
    shard = 50
    case_timeout = 20
    nontrivial_rule = ("random histories on real Resource/PriorityResource/PreemptiveResource objects: capacity 1-4, 2-8 scripted "
                       "driver processes, priorities from a 3-element set, preempt flags, request/yield/hold/release sessions, real "
                       "`with` blocks, cancels and with-exits of queued requests, double releases, releases of stale and of other "
                       "processes' requests, plain Process.interrupt() of other drivers (also aimed at a process whose grant is "
                       "triggered but unprocessed, e.g. right after a yielded release), processes that end while holding a slot or "
                       "queueing, delays from {0,1,2} so that operations coincide; non-trivial = at least 12 actions and at "
                       "least one request had to wait in the queue; distinct by hash of the case")
    trusted_base = ["vlib/translate.py (Python ast, fail closed; tables in props/res_tie.py) regenerates coq/Gen/Extracted_scan.v (the initialisation and ONE iteration of the scan loops BaseResource._trigger_put / _trigger_get) and Extracted_baseres.v (Put / Get .__init__, .cancel, Request.__exit__, Release.__init__, PriorityRequest.__init__, SortedQueue.append) from the tree under test before every build; the C06_gen_* theorems of Props/C06_BridgeLoop.v run the generated iteration on the queue (fuel 1 + its length, shown sufficient) and bridge it to the hand-written model",
                    "the driver (props/c06.py) turns the observed execution into the model's action list: operations are logged by the "
                    "driver processes as they issue them, ProcessEvent micro-steps by inspecting env._queue[0] before every env.step(), "
                    "the state after a micro-step by a callback appended behind the resource's own callback",
                    "CPython list.sort/sorted are stable (the model's ssort is a stable insertion sort)",
                    "vlib/translate.py (Python ast, fail closed; observation/effect tables at the top of the plugin class in props/c06.py) "
                    "regenerates coq/Gen/Extracted_resource.v from Resource._do_put/_do_get and PreemptiveResource._do_put of the tree "
                    "under test before every build; the C06_gen_* theorems (Props/C06_Bridge.v) bridge them to the hand-written model; "
                    "the tuple comparison `preempt.key > event.key` is an observation (a boolean parameter), not translated",
                    "that the kernel processes every triggered event of the resource before the clock moves is C01's statement; here "
                    "it is the admissibility of AAdvance, checked on every observed execution",
                    "the model is one resource: the `resource` field of Preempted and the delivery of the Interruption into the "
                    "victim's generator (kernel, C04) are checked by the monitor on the real code, not stated in Coq"]
    assumptions = ["each process holds or awaits at most one request of the resource (adm, checked on every observed history)",
                   "cancel()/__exit__ is called by the process that made the request, and not again on a request that was cancelled "
                   "before being granted (list.remove raises ValueError)",
                   "an ended process issues no further operations (it may end holding a slot or queueing)",
                   "capacity >= 1 (the constructor rejects anything else)"]
    partial = []

    # ---- second tie: regenerate the translated bodies before the Coq build (fail closed) --------------
    def pre_build(self):
        import os
        from vlib import framework as fw
        from vlib import translate as tr
        tr.write_if_changed(os.path.join(fw.COQ, "Gen", "Extracted_resource.v"), extracted_resource(fw.REPO))
        from props import res_tie
        res_tie.write_extracted(fw.REPO, fw.COQ)

    # ---- generation --------------------------------------------------------------------------------
    def gen_case(self, rng, tier):
        kind = rng.choice(["res", "prio", "preempt", "preempt"])
        cap = rng.choice([1, 1, 2, 2, 3, 4])
        nproc = rng.randint(2, 8)
        base = rng.choice([0, -1, 5])
        prios = [base, base + 1, base + 3]
        procs = []
        for p in range(nproc):
            script = []
            for _ in range(rng.randint(1, 3)):
                prio, pre = rng.choice(prios), rng.random() < 0.6
                style = rng.random()
                hold = rng.choice([0, 1, 1, 2, 3])
                if style < 0.35:                     # classic session
                    script += [["req", prio, pre], ["y"], ["w", hold], [rng.choice(["rel", "rely", "exit", "rel"])]]
                    if script[-1][0] == "rely" and rng.random() < 0.5:
                        # resumed by the Release event itself, i.e. right after its rescan granted the slot to the next
                        # waiter and before that grant is processed: interrupt somebody (often that very waiter)
                        script += [rng.choice([["intr", rng.randint(0, nproc - 1)], ["intr_g", rng.randint(0, 3)], ["intr_g", 0]])]
                elif style < 0.55:                   # real with-block
                    script += [["with", prio, pre, hold, rng.random() < 0.85]]
                elif style < 0.8:                    # impatient: give up (or not) after a while
                    script += [["req", prio, pre], ["w", rng.choice([0, 1, 2])], [rng.choice(["cancel", "exit", "gexit", "cancel"])]]
                    if rng.random() < 0.5:
                        script += [["w", rng.choice([0, 1])], ["rel"]]
                else:                                # no yield at all: several operations in one instant
                    script += [["req", prio, pre], [rng.choice(["rel", "cancel", "exit"])], ["req", rng.choice(prios), rng.random() < 0.6],
                               ["y"], ["w", hold], ["rel"]]
                noise = rng.random()
                if noise < 0.2:
                    script += [["rel"]]              # double release
                elif noise < 0.3:
                    script += [["rel_old", rng.randint(0, 3)]]
                elif noise < 0.4:
                    script += [["rel_of", rng.randint(0, nproc - 1)]]
                elif noise < 0.5:
                    script += [["w", 0]]
                elif noise < 0.6:
                    script += [["w", rng.choice([1, 2])]]
                elif noise < 0.68:
                    script += [["intr", rng.randint(0, nproc - 1)]]      # Process.interrupt() of some other driver process
                elif noise < 0.78:
                    script += [["intr_g", rng.randint(0, 3)]]            # ... of one whose grant is triggered but unprocessed
            leave = rng.random() < 0.12
            if leave:
                # the process ends right after having got (or merely asked for) a slot
                cut = [j for j, ins in enumerate(script) if ins[0] in ("y", "req")]
                if cut:
                    j = rng.choice(cut)
                    script = script[:j + 1] + ([["w", rng.choice([0, 1])]] if rng.random() < 0.5 else [])
            procs.append({"start": rng.choice([0, 0, 0, 1, 1, 2, 3]), "script": script, "leave": leave})
        return {"kind": "hist", "res": kind, "cap": cap, "procs": procs}

    # ---- implementation ----------------------------------------------------------------------------
    def run_impl(self, case):
        return Driver(case).run()

    # ---- model -------------------------------------------------------------------------------------
    def _term_parts(self, case, obs):
        def zl(xs):
            return cf.lst([cf.z(x) for x in xs])

        def action(a):
            if a[0] == "Rq":
                return f"Rq {cf.z(a[1])} {cf.z(a[2])} {cf.b(a[3])}"
            return a[0] + " " + " ".join(cf.z(x) for x in a[1:])

        def snap(s):
            pe = cf.lst([cf.pair(cf.b(x[0]), cf.z(x[1])) for x in s[4]])
            return f"Sn {cf.z(s[0])} {zl(s[1])} {zl(s[2])} {cf.z(s[3])} {pe} {zl(s[5])} {cf.z(s[6])}"
        steps = cf.lst([cf.pair(action(a), snap(s)) for a, s in zip(obs["acts"], obs["snaps"])], sep=";\n  ")
        intrs = cf.lst([f"In3 {cf.z(v)} {cf.z(b)} {cf.opt(u, cf.z)}" for v, b, u in obs["intrs"]])
        return cf.z(KINDS.index(case["res"])), cf.z(case["cap"]), steps, intrs

    def agree_term(self, case, obs):
        if obs["raised"]:
            return "false"
        if any(x < 0 for s in obs["snaps"] for x in s[1] + s[2]) or any(i[0] < 0 or i[1] < 0 for i in obs["intrs"]):
            return "false"
        k, cap, steps, intrs = self._term_parts(case, obs)
        return f"agreeZ {k} {cap} 0\n  {steps}\n  {intrs}"

    def model_term(self, case):
        from vlib.framework import _impl_one
        obs = _impl_one(self, case)
        if "harness_error" in obs:
            return None
        k, cap, steps, intrs = self._term_parts(case, obs)
        return f"diagZ {k} {cap} 0\n  {steps}"

    # ---- the property as an oracle over the implementation trace --------------------------------------
    def monitor(self, case, obs):
        msgs = []
        kind, cap = case["res"], case["cap"]
        if obs["raised"]:
            ar = obs.get("after_raise")
            if ar and ar[1] > 0 and ar[0] < cap and ar[2] == 0:
                msgs.append(f"op-raises-and-strands: an operation of process {ar[3]} on the resource raised {obs['raised']} at t={ar[4]}; it leaves "
                            f"{ar[1]} request(s) queued with {cap - ar[0]} of {cap} slot(s) free and no Release pending (nothing will ever grant them)")
            else:
                msgs.append(f"op-raises: an operation of the resource raised {obs['raised']}")
            return msgs          # what was recorded after an escaping exception is not judged
        R = {int(k): v for k, v in obs["reqs"].items()}

        def key(i):
            return (R[i][1], R[i][3], not R[i][2])

        def rank(i):
            return (i,) if kind == "res" else key(i) + (i,)
        prev = [0, [], [], 0, [], [], 0]
        tgrant = {}
        req_ids, nrq = sorted(R), 0
        evictions = []          # (time, victim id, evictor id)
        ended = set()           # processes whose generator has ended
        ended_at = {}           # pid -> time
        given_up = set()        # granted requests that were released / whose with-block was left: their slot must be free
        nexit = 0

        def idle(users, queue):
            """slots nobody is entitled to any more while somebody waits"""
            held = [u for u in users if u not in given_up]
            return bool(queue) and len(held) < cap
        for n, (a, s) in enumerate(zip(obs["acts"], obs["snaps"])):
            now, users, queue, count, pend, trig, nint = s
            pusers, pqueue, ptrig = prev[1], prev[2], set(prev[5])
            where = f"action {n} {a} at t={now}"
            if any(i not in R for i in users + queue):
                msgs.append(f"state-inconsistent: {where}: unknown request object in users/queue {users} {queue}")
                break
            if len(users) > cap:
                msgs.append(f"users-exceed-capacity: {where}: {len(users)} users {users} on capacity {cap}")
            if count != len(users):
                msgs.append(f"count-mismatch: {where}: count={count} users={users}")
            if any(rank(queue[j]) >= rank(queue[j + 1]) for j in range(len(queue) - 1)):
                msgs.append(f"queue-not-sorted: {where}: queue {queue} ranks {[rank(i) for i in queue]}")
            if set(users) & set(queue) or len(set(users)) != len(users) or any(i not in trig for i in users) or any(i in trig for i in queue):
                msgs.append(f"state-inconsistent: {where}: users {users} queue {queue} triggered {trig}")
            new = sorted((i for i in trig if i not in ptrig), key=rank)
            for g in new:
                tgrant[g] = now
                late = [w for w in queue if rank(w) < rank(g)]
                if late:
                    msgs.append(f"grant-overtakes: {where}: request {g} {rank(g)} granted while {late[0]} {rank(late[0])} still waits")
                if g not in users:
                    msgs.append(f"granted-not-user: {where}: request {g} triggered but not among users {users}")
            newusers = [i for i in users if i not in pusers]
            if newusers != new:
                msgs.append(f"grant-order: {where}: new users {newusers} but newly triggered requests by rank are {new}")
            released = a[2] if a[0] == "Ex" else (a[1] if a[0] == "Rl" else None)
            cancelled = a[2] if a[0] in ("Cn", "Ex") else None
            gone = [i for i in pusers if i not in users and i != released]
            lost = [i for i in pqueue if i not in queue and i not in new and i != cancelled]
            if lost:
                msgs.append(f"queue-lost-request: {where}: {lost} left the queue without being granted or cancelled")
            if a[0] == "Rl":
                # releasing frees the slot of a user, and changes nothing else (twice / non-user: nothing at all)
                if [i for i in pusers if i != released] != users or queue != pqueue or new:
                    msgs.append(f"release-changed-state: {where}: users {pusers}->{users} queue {pqueue}->{queue} newly granted {new}")
            elif a[0] == "Pq" or (a[0] == "Cn" and cancelled not in pqueue):
                if users != pusers or queue != pqueue or new:
                    msgs.append(f"noop-changed-state: {where}: users {pusers}->{users} queue {pqueue}->{queue} newly granted {new}")
            elif a[0] == "Ad":
                if prev[4]:
                    msgs.append(f"advance-with-pending: {where}: events {prev[4]} of the resource are triggered and unprocessed")
                if idle(pusers, pqueue):
                    leaked = [u for u in pusers if u in given_up]
                    msgs.append(f"idle-slot-at-advance: {where}: requests {pqueue} wait while {cap - len(pusers) + len(leaked)} slot(s) are free "
                                f"(users {pusers}" + (f", of which {leaked} were released / left their with-block" if leaked else "") + ")")
                if users != pusers or queue != pqueue or new:
                    msgs.append(f"advance-changed-state: {where}")
            if cancelled is not None and cancelled in queue:
                msgs.append(f"cancel-ineffective: {where}: request {cancelled} is still queued")
            if a[0] == "Ex":
                if released in users:
                    msgs.append(f"with-exit-keeps-slot: {where}: request {released} is still a user after its with-block was left"
                                + ("" if obs["exit_releases"][nexit] else " (no Release was created)"))
                nexit += 1
            if released is not None and released in ptrig:
                given_up.add(released)
            stale = [u for u in users if u in given_up and a[0] not in ("Rl", "Ex")]
            if stale and not any(m.startswith("released-request-is-user") for m in msgs):
                msgs.append(f"released-request-is-user: {where}: request(s) {stale} occupy a slot although they were released / their with-block was left")
            if gone:
                # users that vanish without a release: evictions
                if kind != "preempt":
                    msgs.append(f"unexpected-eviction: {where}: users {gone} vanished from a {kind} resource")
                else:
                    free = cap - len(pusers)
                    evictors = new[free:] if free > 0 else new
                    victims = sorted(gone, key=rank, reverse=True)
                    if len(evictors) != len(victims):
                        msgs.append(f"eviction-slot-not-passed: {where}: evicted {victims} with {free} slot(s) free before, newly granted {new}")
                    stay = [i for i in pusers if i in users]
                    for v in victims:
                        worse = [u for u in stay if rank(u) > rank(v)]
                        if worse:
                            msgs.append(f"evicted-not-worst: {where}: {v} {rank(v)} evicted although user {worse[0]} {rank(worse[0])} ranks worse")
                    for v, e in zip(victims, evictors):
                        if not R[e][2] or not key(v) > key(e):
                            msgs.append(f"evicted-not-strictly-worse: {where}: victim {v} key {key(v)} evicted by {e} key {key(e)} preempt={R[e][2]}")
                        evictions.append((now, v, e, R[v][0] in ended))
            if a[0] == "En":
                ended.add(a[1])
                ended_at[a[1]] = now
                if users != pusers or queue != pqueue or new:
                    msgs.append(f"noop-changed-state: {where}: users {pusers}->{users} queue {pqueue}->{queue} newly granted {new}")
            if a[0] == "Rq":
                e = req_ids[nrq] if nrq < len(req_ids) else None
                nrq += 1
                if e is None or R[e][0] != a[1]:
                    msgs.append(f"recording: {where}: request numbering lost")
                elif kind == "preempt" and len(pusers) >= cap and pusers and all(rank(e) < rank(w) for w in pqueue):
                    # preemption exactly when strictly worse: a request that is first in line on a full resource
                    # takes the slot of the worst-ranked user iff it has preempt=True and that user's key is strictly larger
                    w = max(pusers, key=rank)
                    should = R[e][2] and key(w) > key(e)
                    did = (w not in users) and (e in users)
                    if should and not did:
                        msgs.append(f"preempt-missing: {where}: request {e} key {key(e)} preempt=True is first in line, worst user {w} "
                                    f"key {key(w)} is strictly worse, but users {pusers}->{users}")
                    if not should and e in users:
                        msgs.append(f"preempt-unjustified: {where}: request {e} key {key(e)} preempt={R[e][2]} got a slot of the full resource "
                                    f"although the worst user {w} has key {key(w)}")
            prev = s
            if len(msgs) > 6:
                break
        # end of the run: nothing scheduled any more = the clock would advance
        if obs["snaps"] and not obs["raised"] and obs["left"] == 0:
            now, users, queue = obs["snaps"][-1][0:3]
            if obs["snaps"][-1][4]:
                msgs.append(f"advance-with-pending: end of run: events {obs['snaps'][-1][4]} unprocessed")
            if idle(users, queue):
                msgs.append(f"idle-slot-at-advance: end of run t={now}: requests {queue} wait while a slot is free (users {users}, "
                            f"released / left with-block: {[u for u in users if u in given_up]})")
        # the victims really receive Interrupt(Preempted(by, usage_since, resource))
        # (a victim whose process had already ended is evicted all the same, but there is nobody to notify)
        exp = sorted([R[v][0], t, 1, R[e][0], tgrant.get(v), 1] for (t, v, e, dead) in evictions if not dead)
        got = sorted((x for x in obs["recv"] if x[2] == 1), key=lambda x: (x[0], x[1]))
        poked = sorted([x[0], x[1]] for x in obs["recv"] if x[2] != 1)
        if not obs["raised"] and obs["left"] == 0:
            issued = sorted(obs["pokes"])
            for x in poked:          # (one issued to a process that ended in the meantime is dropped by the kernel)
                if x in issued:
                    issued.remove(x)
                else:
                    msgs.append(f"spurious-interrupt: process {x[0]} received an interrupt without Preempted cause at t={x[1]} that the driver did not issue")
            for x in exp:
                if x not in got and ended_at.get(x[0]) == x[1]:
                    continue     # the victim's generator ended in that very instant (an earlier interrupt finished it): the kernel drops the rest
                if x not in got:
                    near = [g for g in got if g[0] == x[0] and g[1] == x[1]]
                    if near:
                        msgs.append(f"preempted-wrong-fields: process {x[0]} at t={x[1]}: expected Preempted(by={x[3]}, usage_since={x[4]}, resource=self), received {near[0]}")
                    else:
                        msgs.append(f"preempted-not-notified: process {x[0]} evicted at t={x[1]} received no Interrupt at that instant (received: {got})")
            for g in got:
                if g not in exp:
                    msgs.append(f"spurious-interrupt: process {g[0]} received {g} at t={g[1]} without having been evicted")
            npre = len(obs["intrs"])
            if npre != len(exp) and not any(ended_at.get(x[0]) == x[1] for x in exp):
                msgs.append(f"interrupt-count: {npre} Interruption events with a Preempted cause for {len(exp)} evictions of live processes")
        return msgs[:6]

    # ---- evidence helpers ----------------------------------------------------------------------------
    def nontrivial(self, case, obs):
        return len(obs["acts"]) >= 12 and any(s[2] for s in obs["snaps"])

    def shrink(self, case):
        procs = case["procs"]
        for i in range(len(procs)):
            if len(procs) > 1:
                yield {**case, "procs": procs[:i] + procs[i + 1:]}
        for i, p in enumerate(procs):
            sc = p["script"]
            for j in range(len(sc)):
                yield {**case, "procs": procs[:i] + [{**p, "script": sc[:j] + sc[j + 1:]}] + procs[i + 1:]}
            if p["start"] > 0:
                yield {**case, "procs": procs[:i] + [{**p, "start": p["start"] - 1}] + procs[i + 1:]}
            if p.get("leave"):
                yield {**case, "procs": procs[:i] + [{**p, "leave": False}] + procs[i + 1:]}
        for i, p in enumerate(procs):
            sc = p["script"]
            for j, ins in enumerate(sc):
                if ins[0] == "w" and ins[1] > 0:
                    yield {**case, "procs": procs[:i] + [{**p, "script": sc[:j] + [["w", ins[1] - 1]] + sc[j + 1:]}] + procs[i + 1:]}
                if ins[0] == "with" and ins[3] > 0:
                    yield {**case, "procs": procs[:i] + [{**p, "script": sc[:j] + [ins[:3] + [ins[3] - 1] + ins[4:]] + sc[j + 1:]}] + procs[i + 1:]}
        if case["cap"] > 1:
            yield {**case, "cap": case["cap"] - 1}

    def describe(self, case, obs):
        keys = ["kind:" + case["res"], "cap:%d" % case["cap"], "procs:%d" % len(case["procs"])]
        acts = obs["acts"]
        keys.append("actions:%d-%d" % (len(acts) // 20 * 20, len(acts) // 20 * 20 + 19))
        if obs["intrs"]:
            keys.append("has-eviction")
        if len(obs["intrs"]) > 1:
            keys.append("has-several-evictions")
        prev = [0, [], [], 0, [], [], 0]
        flags = set()
        if obs.get("pokes"):
            flags.add("has-plain-interrupt")
        via = {}
        wi = set(obs.get("with_intr_exits", []))
        for n, (a, s) in enumerate(zip(acts, obs["snaps"])):
            for g in s[5]:
                if g not in via:
                    via[g] = a[0]
            if a[0] == "En":
                mine = [i for i, v in obs["reqs"].items() if v[0] == a[1]]
                if any(int(i) in s[1] for i in mine):
                    flags.add("process-ends-holding-a-slot")
                if any(int(i) in s[2] for i in mine):
                    flags.add("process-ends-while-queued")
            if a[0] == "Ex" and a[2] in prev[1] and [0, a[2]] in prev[4]:
                # the with-block is left (by an Interrupt) while the grant is triggered but not yet processed
                how = {"Rq": "at-request", "Pr": "by-release-rescan"}.get(via.get(a[2]), "otherwise")
                flags.add("with-exit-before-grant-processed:granted-" + how)
                if n in wi:
                    flags.add("interrupted-inside-with-at-grant-instant:granted-" + how)
            if a[0] == "Cn" and a[2] in prev[2]:
                flags.add("cancel-of-queued")
                if len(s[5]) > len(prev[5]):
                    flags.add("grant-at-cancel-rescan")
                if prev[2][0] == a[2] and len(prev[2]) > 1:
                    flags.add("cancel-of-queue-head-with-waiter-behind")
            if a[0] == "Ex" and a[2] in prev[2]:
                flags.add("with-exit-of-queued")
            if a[0] == "Ex" and a[2] in prev[1]:
                flags.add("with-exit-of-user")
            if a[0] == "Rl" and a[1] not in prev[1]:
                flags.add("release-of-non-user")
            if a[0] == "Pr" and len(s[5]) > len(prev[5]):
                flags.add("grant-at-release-processing")
            if a[0] == "Pr" and len(s[5]) > len(prev[5]) + 1:
                flags.add("several-grants-in-one-scan")
            if a[0] == "Pr" and s[6] > prev[6]:
                flags.add("delayed-preemption-at-rescan")
            if a[0] != "Ad" and a[0] not in ("Pq", "Pr") and prev[4]:
                flags.add("operation-while-events-pending")
            if s[2]:
                flags.add("had-waiter")
            prev = s
        return keys + sorted(flags)


PROP = C06()
