"""C10 -- a wire delays each packet by its drawn delay, keeps order, loses only by rate; a cable is two
independent wires.  One part: props/part_wire.py (kinds 'wire', 'cable'; models coq/Elem/Wire.v, coq/Elem/Cable.v;
theorems coq/Props/C10.v)."""
from vlib.composite import Composite

PROP = Composite("C10", ["wire"], n_quick=400, n_thorough=12000)
