"""C10 -- a wire delays each packet by its drawn delay, keeps order, loses only by rate.
Model: coq/Elem/Wire.v (timed automaton with store micro-steps); kinds: 'wire', 'cable'."""
from fractions import Fraction

from vlib.framework import Prop
from vlib import coqfmt as cf
from props import elem_common as ec


class Script:
    """scripted random source: delay_dist() and random.uniform(0,1) pop from the case's lists"""

    def __init__(self, vals):
        self.vals = [ec.T(v) for v in vals]
        self.n = 0

    def __call__(self, *a):
        v = self.vals[self.n]          # IndexError = the case did not provide enough draws (harness error)
        self.n += 1
        return v

    def uniform(self, a, b):
        return self()


class C10(Prop):
    id = "C10"
    props_file = "Props/C10.v"
    coq_imports = ["From ONL Require Import Base.Cmp Elem.Packet Elem.StoreQ Elem.Wire."]
    n_quick = 400
    n_thorough = 12000
    nontrivial_rule = ("random bursty workloads from 1-3 driver processes on a dyadic time lattice (so arrivals coincide with "
                       "deliveries), delay scripts constant / decreasing / zero / random, loss rate None/0/0.25/0.5/1 with scripted "
                       "uniform draws; non-trivial = at least 3 packets and at least one packet arriving while an earlier one is "
                       "still propagating or queued (dequeue instant > arrival instant); distinct by hash of the case")
    trusted_base = ["random.uniform and delay_dist are replaced by scripted sequences (the wire's own code is untouched)",
                    "float rounding is outside the theorems: generated times/delays are dyadic so every float the wire computes is exact"]
    assumptions = ["'with probability p' is read as: lost iff the uniform draw is < loss_rate (definition of a uniform draw)"]

    # ---- generation -----------------------------------------------------------------------------
    def gen_case(self, rng, tier):
        w = ec.gen_workload(rng, flows=(0, 1, 2), n_max=10)
        n = len(w["packets"])
        style = rng.choice(["const", "decr", "zero", "rand", "rand"])
        lat = [Fraction(0), Fraction(1, 4), Fraction(1, 2), Fraction(1), Fraction(3, 2), Fraction(2), Fraction(4)]
        if style == "const":
            d0 = rng.choice(lat[1:])
            delays = [d0] * n
        elif style == "decr":
            delays = sorted((rng.choice(lat) for _ in range(n)), reverse=True)
        elif style == "zero":
            delays = [Fraction(0)] * n
        else:
            delays = [rng.choice(lat) for _ in range(n)]
        loss = rng.choice([None, None, 0, Fraction(1, 4), Fraction(1, 2), 1])
        uniforms = [rng.choice([Fraction(0), Fraction(1, 8), Fraction(1, 4), Fraction(3, 8), Fraction(1, 2), Fraction(3, 4), Fraction(1)])
                    for _ in range(n)]
        return {"kind": "wire", "workload": w, "delays": [cf.qjson(d) for d in delays],
                "loss": None if loss is None else cf.qjson(loss), "uniforms": [cf.qjson(u) for u in uniforms],
                "pre": rng.random() < 0.3}

    # ---- implementation -------------------------------------------------------------------------
    def run_impl(self, case):
        from onl.sim import Environment
        import onl.netdev.wire as wmod
        env = Environment()
        h = ec.Harness(env)
        w = case["workload"]
        h.add_packets(w["packets"])
        delays = Script(case["delays"])
        unis = Script(case["uniforms"])
        loss = None if case["loss"] is None else ec.T(case["loss"])
        if isinstance(loss, float) and loss == int(loss):
            loss = int(loss)

        class FakeRandom:
            uniform = staticmethod(unis.uniform)
        saved = wmod.random
        wmod.random = FakeRandom
        try:
            if case.get("pre"):
                for d in w["drivers"]:
                    h.add_driver(d["bursts"], late=d["late"])
            wire = wmod.Wire(env, delay_dist=delays, loss_rate=loss)
            wire.out = h.tap("out")
            h.attach(wire)
            h.watch_store("store", wire.store)
            h.after_action(lambda: [wire.packets_rec, len(wire.store.items), unis.n, delays.n])
            if not case.get("pre"):
                for d in w["drivers"]:
                    h.add_driver(d["bursts"], late=d["late"])
            log = h.run()
        finally:
            wmod.random = saved
        return {"log": log, "raised": h.raised, "exhausted": h.exhausted}

    # ---- log -> model actions -------------------------------------------------------------------
    def _actions(self, case, obs):
        specs = case["workload"]["packets"]
        acts = []
        nu = nd = 0
        for e in obs["log"]:
            kind = e[0]
            sample = e[-1]
            if kind == "adv":
                a = f"WAdvance {cf.q(e[1])}"
                outs = []
            elif kind == "put":
                a = f"WPut {ec.pkt_coq(specs[str(e[1])], e[1])}"
                outs = e[2]
            elif kind == "step":
                (tn, tgt), outs = e[1], e[2]
                if (tn, tgt) == ("Initialize", "run"):
                    a = "WInit"
                elif (tn, tgt) == ("StorePut", "store"):
                    a = "WStoreCb"
                elif (tn, tgt) == ("StoreGet", "store"):
                    u = case["uniforms"][nu] if sample[2] > nu else None
                    d = case["delays"][nd] if sample[3] > nd else None
                    a = f"WGet {cf.opt(u, cf.q)} {cf.opt(d, cf.q)}"
                elif (tn, tgt) == ("Timeout", "run"):
                    a = "WTimer"
                else:
                    return None, f"unexpected kernel step {e[1]}"
            else:
                return None, f"unexpected log entry {e[:2]}"
            nu, nd = sample[2], sample[3]
            o = cf.lst([f"ODeliver {ec.pkt_coq(specs[str(x[2])], x[2])}" for x in outs])
            acts.append(f"({a}, {o}, ({cf.z(sample[0])}, {cf.nat(sample[1])}))")
        return acts, None

    def agree_term(self, case, obs):
        if obs["raised"]:
            return "false"
        acts, err = self._actions(case, obs)
        if acts is None:
            return f"false (* {err} *)"
        return f"wire_agree {cf.opt(case['loss'], cf.q)} (wire0 0) {cf.lst(acts, sep=';\n    ')}"

    def model_term(self, case):
        return None

    # ---- the property as an oracle over the implementation's behaviour -------------------------------
    def monitor(self, case, obs):
        if obs["raised"]:
            return [f"wire-raises: {obs['raised']}"]
        msgs = []
        now = Fraction(0)
        arrivals, delivered = [], []
        for e in obs["log"]:
            if e[0] == "adv":
                t = Fraction(e[1])
                if t < now:
                    msgs.append("wire-time-decreases: clock went back")
                now = t
            outs = e[2] if e[0] in ("put", "step") else []
            if e[0] == "put":
                arrivals.append((e[1], now))
            for o in outs:
                delivered.append((o[2], now, o[3], o[4]))
        # expected by the property's recurrence; draws are consumed in arrival (= service) order
        loss = None if case["loss"] is None else Fraction(case["loss"])
        us, ds = [Fraction(x) for x in case["uniforms"]], [Fraction(x) for x in case["delays"]]
        F = Fraction(0)
        exp = []
        iu = idd = 0
        for uid, a in arrivals:
            s = max(a, F)
            if loss:
                u = us[iu]
                iu += 1
                if u < loss:
                    F = s
                    continue
            d = ds[idd]
            idd += 1
            tdel = a + d if s - a < d else s
            exp.append((uid, tdel))
            F = tdel
        got = [(u, t) for (u, t, _, _) in delivered]
        if obs["exhausted"]:
            if got != exp:
                msgs.append(f"wire-delivery: delivered (uid,time) {[(u, str(t)) for u, t in got][:8]} expected "
                            f"{[(u, str(t)) for u, t in exp][:8]} (max(a+d, previous delivery), FIFO, lost iff u < loss_rate)")
        elif got != exp[:len(got)]:
            msgs.append("wire-delivery: delivered prefix differs from the expected deliveries")
        specs = case["workload"]["packets"]
        for (uid, t, fields, same) in delivered:
            sp = specs[str(uid)]
            if not same or fields[:2] != [sp["id"], sp["flow"]] or fields[3] != sp["size"] or Fraction(fields[4]) != Fraction(sp["time"]):
                msgs.append(f"wire-packet-altered: packet {uid} delivered as {fields} same-object={same}")
        return msgs[:3]

    def nontrivial(self, case, obs):
        if len(case["workload"]["packets"]) < 3:
            return False
        now = Fraction(0)
        arr = {}
        for e in obs["log"]:
            if e[0] == "adv":
                now = Fraction(e[1])
            elif e[0] == "put":
                arr[len(arr)] = now
            elif e[0] == "step" and e[1][0] == "StoreGet":
                k = e[-1][3] + 0  # not exact; fall through
        # a packet waited in the store: some StoreGet step happened at an instant later than a pending arrival
        waits = 0
        now = Fraction(0)
        pending = []
        for e in obs["log"]:
            if e[0] == "adv":
                now = Fraction(e[1])
            elif e[0] == "put":
                pending.append(now)
            elif e[0] == "step" and e[1][0] == "StoreGet" and pending:
                if pending.pop(0) < now:
                    waits += 1
        return waits > 0

    def shrink(self, case):
        for w in ec.shrink_workload(case["workload"]):
            yield {**case, "workload": w}
        if case["loss"] is not None:
            yield {**case, "loss": None}

    def describe(self, case, obs):
        keys = ["wire", "wire:loss=" + str(case["loss"]), "wire:packets=%d" % min(len(case["workload"]["packets"]), 12),
                "wire:drivers=%d" % len(case["workload"]["drivers"])]
        if case.get("pre"):
            keys.append("wire:driver-created-before-element")
        return keys


PROP = C10()
