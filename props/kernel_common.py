"""Reusable harness for the kernel properties (C01..C05, C20): script generator, driver of the REAL
onl.sim kernel, Coq printers, shrinker.  Counterpart of coq/Kernel/Script.v (same conventions).

API (import from a plugin props/cNN.py)
  gen_case(rng, knobs=None) -> case        seeded generator; `knobs` overrides DEFAULT_KNOBS (weights, sizes, plans)
  run_case(case, env_factory=None) -> obs  runs the script family as real generators on the real Environment
                                           (env_factory(initial_time) -> Environment subclass instance, for C20)
  agree_term(case, obs) -> str             Coq bool: `agree t0 scripts plan trace results` (Kernel/Script.v)
  model_term(case, obs=None) -> str        Coq term showing the model's trace (and the first difference if obs given)
  shrink(case) -> iterable of cases        drop plan items / spawns / instructions, shorten delays
  describe(case, obs) -> [str]             histogram keys (input distribution)
  nontrivial(case, obs) -> bool            at least one same-instant coincidence of >= 3 processed events
  long_case(rng, kind=None, n=None) -> case  LONG families (kind in LONG_KINDS = streak | chain | longrun): one process yielding 1200/3000
                                           already processed events in ONE resumption; a ~1500-deep chain of zero-delay hand-overs;
                                           a run of > 5000 steps.  Compact: a code may contain ["repeat", n, [instr...]] (the block
                                           written out n times; flatten_code); case keys "long" (family), "fuel" (model fuel),
                                           "max_steps" (harness abort).  agree_term then emits `agree_long` (trace run-length encoded,
                                           exact) or, above LITERAL_LIMIT bytes, `agree_digest` (length + rolling hash of the WHOLE
                                           trace, trace_digest = Kernel/Script.v trace_digest, + the last DIGEST_TAIL entries literally)
  COQ_IMPORTS                              lines for Prop.coq_imports
  (Coq side, Kernel/Script.v: `agree` / `model_run` / `run_plan` use the repaired kernel; `agree_sel false`, `model_run_sel false`,
   `run_plan_sel false` run the kernel as found before the C03 fix: commit -- replace "agree " by "agree_sel false " in agree_term's
   result to compare a trace recorded on the unrepaired code)
  basic_monitor(case, obs) -> [str]        harness sanity (unknown exception classes, aborted runs)
  steps_of(obs), klog_of(obs)              helpers for monitors (see below)

Case (JSON):  {"t0": "n/d", "codes": [[instr...]...], "plan": [item...], "num": "float"|"fraction"}
  reg    ["L", i] local to a process instance (L0 = its argument) | ["G", i] shared (closure variable)
  vexp   ["none"] | ["int", z] | ["reg", reg] | ["user", tag, z]          (user = exception UserExc<tag>(z); tags 100.. are BUILTIN
         types from user code, BUILTIN_EXC[tag-100](z): AttributeError IndexError KeyError LookupError TypeError ValueError RuntimeError
         AssertionError ZeroDivisionError OSError ArithmeticError NotImplementedError RecursionError StopAsyncIteration StopIteration;
         rand_exc(rng, p_builtin) draws one; StopIteration only through fail() with catching waiters -- PEP 479)
  instr  ["timeout", dst, "n/d", vexp] ["event", dst] ["succeed", e, vexp] ["fail", e, vexp]
         ["spawn", dst, code, vexp] ["interrupt", p, vexp] ["cond", dst, all?, [reg...]]   (2 operands: written & / |)
         ["probe", e, n] ["query", dst, q, e] (q in triggered processed ok value alive defused) ["now", dst] ["peek", dst]
         ["set", dst, vexp] ["log", vexp] ["yield", lbl, vexp, dst, mode]  (mode "prop" | "catch" | ["retry", k])
         ["return", vexp] ["raise", vexp] ["ifexn", reg, instr] ["ifok", reg, instr]
  item   ["exec", [instr...]] module-level code | ["run"] | ["run_num", "n/d"] | ["run_ev", g] | ["step", n]

Observation (JSON), all numbers exact 'n/d' strings, events named by the MODEL's creation index (evid), processes by
spawn index (pid):
  obs["trace"]    chronological list of
                    ["step", evid, now]                   the event popped by this step(), clock after the pop
                    ["probe", n, evid, now, outcome]      probe n (appended by ["probe", e, n]) called; outcome ["ok", val] | ["fail", [cls, args]]
                    ["log", pid|None, now, val]           val = ["list", [["int", tag], ...]]; tags (Script.v): 0 body starts,
                                                          1 [lbl, [0|1, value|exn]] received at yield lbl, 2 [exn] API call raised,
                                                          3 [v] ILog, 4 operand was not an event (call skipped)
  obs["results"]  per plan item [result, now, peek|None]; result ["ok"] | ["empty"] | ["stop", val] | ["raise", [cls, args]]
  val             ["none"] ["int", z] ["num", "n/d"] ["ev", evid] ["cond", [[evid, val]...]] ["list", [val...]] ["exn", cls, [val...]]
  cls             "Interrupt" "Runtime" "Value" "Attribute" "Type" "Assert" ["User", tag] ["Other", name]; kernel messages are
                  replaced by the codes M_* of Kernel/Model.v (args [["int", code]])
  obs["klog"]     independent record for monitors, from wrappers around env.schedule / env.step (NOT used by the model comparison):
                    ["S", sid, now, delay, prio, kind]    env.schedule called; sid = first-sight index of the event object;
                                                          kind = class name of the event
                    ["P", sid, now_before, now_after]     a step() processed the event sid (found from the queue difference)
                    ["T", sid, now, delay]                env.timeout(delay) succeeded for the script (right after the "S" of the same sid)
                    ["TX", now, delay, [cls, args]]       env.timeout(delay) raised
                    ["R", what, now]                      a plan item starts (what = item as JSON string)
  obs["evid_of_sid"]  {sid: evid}
"""
import json
import re
from collections import Counter
from fractions import Fraction

COQ_IMPORTS = ["From ONL Require Import Kernel.Model Kernel.Script."]

MAX_STEPS = 1500          # harness abort (model fuel is 2000 steps)

# ------------------------------------------------------------------------------------------------
# numbers


def fr(x):
    if isinstance(x, str):
        return Fraction(x)
    if isinstance(x, bool):
        raise TypeError(x)
    return Fraction(x)


def qs(x):
    f = fr(x)
    return f"{f.numerator}/{f.denominator}"


def pynum(s, mode):
    f = Fraction(s)
    if mode == "fraction":
        return f
    return int(f) if f.denominator == 1 else float(f)


# ------------------------------------------------------------------------------------------------
# canonical values

MSG = [
    ("Runtime", r"has already been triggered", 1),
    ("Runtime", r"has terminated and cannot be interrupted", 2),
    ("Runtime", r"not allowed to interrupt itself", 3),
    ("Runtime", r"Invalid yield value", 4),
    ("Runtime", r'No scheduled events left but "until" event was not', 5),
    ("Value", r"Negative delay", 6),
    ("Value", r"is not an exception", 7),
    ("Value", r"must be > the current simulation time", 8),
    ("Attribute", r"is not yet available", 9),
    ("Attribute", r"has no attribute '_ok'", 9),
    ("Value", r"is not a generator", 11),
    ("Attribute", r"'NoneType' object has no attribute '(remove|append)'", 12),
    ("Value", r"x not in list", 13),
    ("Type", r"'NoneType' object is not iterable", 14),
    ("Type", r"exceptions must derive from BaseException", 16),
]
PYCLS = {"Runtime": RuntimeError, "Value": ValueError, "Attribute": AttributeError, "Type": TypeError,
         "Assert": AssertionError}


class Coded(Exception):
    """raised by the harness itself where Python would raise an incidental AttributeError (operand is not an event)"""

    def __init__(self, cls, code):
        super().__init__(cls, code)
        self.cls, self.code = cls, code


_USER = {}

# BUILTIN exception types raised / failed / thrown in by USER code: reserved tags 100.. of ["user", tag, arg] (the model treats
# exception classes as opaque tags: EUser tag).  A user-made instance carries ONE int argument, which is how the canonicaliser tells
# it from an exception of the same type raised by the kernel itself (those carry a message).  StopIteration is not in
# BUILTIN_TAGS_BODY: raised or re-raised inside a generator it becomes RuntimeError (PEP 479); use it with fail() and catching waiters.
BUILTIN_EXC = [AttributeError, IndexError, KeyError, LookupError, TypeError, ValueError, RuntimeError, AssertionError,
               ZeroDivisionError, OSError, ArithmeticError, NotImplementedError, RecursionError, StopAsyncIteration, StopIteration]
BUILTIN_TAG = {c: 100 + i for i, c in enumerate(BUILTIN_EXC)}
BUILTIN_TAGS_BODY = [100 + i for i, c in enumerate(BUILTIN_EXC) if c is not StopIteration]
TAG_STOPITERATION = BUILTIN_TAG[StopIteration]


def user_exc(tag):
    if 100 <= tag < 100 + len(BUILTIN_EXC):
        return BUILTIN_EXC[tag - 100]
    if tag not in _USER:
        _USER[tag] = type(f"UserExc{tag}", (Exception,), {"tag": tag})
    return _USER[tag]


def rand_exc(rng, p_builtin=0.4):
    """["user", tag, arg]: a user-defined class (tags 0..3) or, with probability p_builtin, a builtin type (AttributeError first:
    the types named by `except` clauses inside onl/sim are drawn more often)"""
    if rng.random() < p_builtin:
        hot = [BUILTIN_TAG[c] for c in (AttributeError, IndexError, ValueError, RuntimeError, TypeError)]
        tag = rng.choice(hot) if rng.random() < 0.6 else rng.choice(BUILTIN_TAGS_BODY)
        return ["user", tag, rng.randint(0, 9)]
    return ["user", rng.randint(0, 3), rng.randint(0, 9)]


class HarnessAbort(BaseException):
    pass


# ------------------------------------------------------------------------------------------------
# the driver


class Harness:
    def __init__(self, case, env_factory=None):
        from onl.sim import Environment
        self.case = case
        self.mode = case.get("num", "float")
        t0 = pynum(case["t0"], self.mode)
        self.env = env_factory(t0) if env_factory else Environment(initial_time=t0)
        self.codes = [flatten_code(c) for c in case["codes"]]
        self.max_steps = int(case.get("max_steps", MAX_STEPS))
        self.trace = []
        self.klog = []
        self.results = []
        self.glob = {}
        self.keep = []               # keeps every event object alive (id() stays unique)
        self.evid = {}               # id(obj) -> model event index
        self.next_evid = 0
        self.sid = {}                # id(obj) -> first-sight index
        self.pid = {}                # id(process) -> spawn index
        self.call_sched = []         # events scheduled during the current API call
        self.step_sched = None       # ids scheduled during the current step
        self.nsteps = 0
        self._real_schedule = self.env.schedule
        self._real_step = self.env.step
        self.env.schedule = self._schedule
        self.env.step = self._step

    # ---- naming ------------------------------------------------------------------------------
    def now(self):
        return qs(self.env.now)

    def name(self, obj):
        if id(obj) not in self.evid:
            self.keep.append(obj)
            self.evid[id(obj)] = self.next_evid
            self.next_evid += 1
        return self.evid[id(obj)]

    def sid_of(self, obj):
        if id(obj) not in self.sid:
            self.keep.append(obj)
            self.sid[id(obj)] = len(self.sid)
        return self.sid[id(obj)]

    # ---- wrappers around the real kernel (instance attributes; nothing in /repo is touched) ---
    def _schedule(self, event, priority=None, delay=0):
        from onl.sim.events import NORMAL
        if priority is None:
            priority = NORMAL
        s = self.sid_of(event)
        self.klog.append(["S", s, self.now(), qs(delay), int(priority), type(event).__name__])
        self.call_sched.append(event)
        if self.step_sched is not None:
            self.step_sched[id(event)] += 1
        return self._real_schedule(event, priority, delay)

    def _queue_ids(self):
        c = Counter()
        for entry in self.env._queue:
            ev = entry[-1]
            self.sid_of(ev)
            c[id(ev)] += 1
        return c

    def _step(self):
        self.nsteps += 1
        if self.nsteps > self.max_steps:
            raise HarnessAbort("too many steps")
        before = self._queue_ids()
        now_before = self.now()
        outer = self.step_sched
        self.step_sched = Counter()
        mark = len(self.trace)
        self.trace.append(None)
        kmark = len(self.klog)
        self.klog.append(None)               # the pop happens before everything the callbacks schedule
        try:
            return self._real_step()
        finally:
            during = self.step_sched
            self.step_sched = outer
            after = self._queue_ids()
            popped = (before + during) - after
            ids = list(popped.elements())
            if len(ids) == 1:
                obj_id = ids[0]
                self.klog[kmark] = ["P", self.sid[obj_id], now_before, self.now()]
                ev = self.evid.get(obj_id, -1)
                self.trace[mark] = ["step", ev, self.now()]
            elif not ids:
                del self.trace[mark]                     # EmptySchedule
                del self.klog[kmark]
            else:
                self.klog[kmark] = ["P?", [self.sid[i] for i in ids], now_before, self.now()]
                self.trace[mark] = ["step", -1, self.now()]

    # ---- canonicalisation ---------------------------------------------------------------------
    def conv_exn(self, e):
        from onl.sim.exceptions import Interrupt
        if isinstance(e, Coded):
            return [e.cls, [["int", e.code]]]
        if isinstance(e, Interrupt):
            return ["Interrupt", [self.conv(a) for a in e.args]]
        if hasattr(type(e), "tag") and type(e).__name__.startswith("UserExc"):
            return [["User", type(e).tag], [self.conv(a) for a in e.args]]
        if type(e) in BUILTIN_TAG and len(e.args) == 1 and isinstance(e.args[0], int) and not isinstance(e.args[0], bool):
            return [["User", BUILTIN_TAG[type(e)]], [["int", e.args[0]]]]     # a builtin type raised by user code
        for cls, pyc in PYCLS.items():
            if type(e) is pyc:
                msg = str(e)
                for c2, pat, code in MSG:
                    if c2 == cls and re.search(pat, msg):
                        return [cls, [["int", code]]]
                if cls == "Assert":
                    return [cls, [["int", 15]]]
                return [["Other", type(e).__name__ + ":" + msg[:80]], []]
        return [["Other", type(e).__name__ + ":" + str(e)[:80]], []]

    def conv(self, v):
        from onl.sim.events import Event, ConditionValue
        if v is None:
            return ["none"]
        if isinstance(v, bool):
            return ["int", int(v)]
        if isinstance(v, int):
            return ["int", v]
        if isinstance(v, (float, Fraction)):
            return ["num", qs(v)]
        if isinstance(v, Event):
            return ["ev", self.evid.get(id(v), -1)]
        if isinstance(v, ConditionValue):
            return ["cond", [[self.evid.get(id(e), -1), self.conv(e._value)] for e in v.events]]
        if isinstance(v, BaseException):
            c = self.conv_exn(v)
            return ["exn", c[0], c[1]]
        if isinstance(v, (list, tuple)):
            return ["list", [self.conv(x) for x in v]]
        return ["exn", ["Other", "value:" + type(v).__name__], []]

    def log(self, *items):
        p = self.env.active_process
        self.trace.append(["log", None if p is None else self.pid.get(id(p), -1), self.now(), ["list", list(items)]])

    def probe(self, n, event):
        o = ["ok", self.conv(event._value)] if event._ok else ["fail", self.conv_exn(event._value)]
        self.trace.append(["probe", n, self.evid.get(id(event), -1), self.now(), o])

    # ---- script interpreter (real generators) -------------------------------------------------
    def read(self, r, regs):
        return regs.get(r[1]) if r[0] == "L" else self.glob.get(r[1])

    def write(self, r, v, regs):
        if r[0] == "L":
            regs[r[1]] = v
        else:
            self.glob[r[1]] = v

    def ev(self, x, regs):
        k = x[0]
        if k == "none":
            return None
        if k == "int":
            return x[1]
        if k == "reg":
            return self.read(x[1], regs)
        if k == "user":
            return user_exc(x[1])(x[2])
        raise ValueError(x)

    def api(self, fn, dst, regs):
        self.call_sched = []
        try:
            r = fn()
        except HarnessAbort:
            raise
        except Exception as e:
            self.log(["int", 2], self.conv(e))
            return
        if dst is not None:
            self.write(dst, r, regs)

    def event_operand(self, r, regs):
        from onl.sim.events import Event
        v = self.read(r, regs)
        if isinstance(v, Event):
            return v
        self.log(["int", 4])
        return None

    # the API calls, named as the model names events
    def mk_timeout(self, d, v):
        t0 = self.now()
        try:
            ev = self.env.timeout(pynum(d, self.mode), v)
        except Exception as e:
            self.klog.append(["TX", t0, qs(d), self.conv_exn(e)])
            raise
        self.name(ev)
        self.klog.append(["T", self.sid_of(ev), t0, qs(d)])
        return ev

    def mk_event(self):
        ev = self.env.event()
        self.name(ev)
        return ev

    def mk_process(self, code, arg):
        gen = self.body(self.codes[code], arg) if 0 <= code < len(self.codes) else None
        p = self.env.process(gen)
        self.name(p)
        for ev in self.call_sched:           # the Initialize event
            self.name(ev)
        self.pid[id(p)] = len(self.pid)
        return p

    def mk_interrupt(self, p, cause):
        from onl.sim.events import Process
        if not isinstance(p, Process):
            raise Coded("Attribute", 10)
        p.interrupt(cause)
        for ev in self.call_sched:           # the Interruption event
            self.name(ev)
        return None

    def mk_cond(self, all_, evs):
        if len(evs) == 2:
            c = (evs[0] & evs[1]) if all_ else (evs[0] | evs[1])
        else:
            c = self.env.all_of(evs) if all_ else self.env.any_of(evs)
        self.name(c)
        return c

    def mk_query(self, q, e):
        from onl.sim.events import Process
        if q == "triggered":
            return e.triggered
        if q == "processed":
            return e.processed
        if q == "ok":
            return e.ok
        if q == "value":
            return e.value
        if q == "defused":
            return e.defused
        if q == "alive":
            if not isinstance(e, Process):
                raise Coded("Attribute", 10)
            return e.is_alive
        raise ValueError(q)

    def mk_probe(self, e, n):
        e.callbacks.append(lambda event, n=n: self.probe(n, event))

    def exec_i(self, ins, regs):
        """generator: executes one instruction; returns ("ret", v) for a return, else None"""
        from onl.sim.exceptions import Interrupt
        op = ins[0]
        if op == "timeout":
            v = self.ev(ins[3], regs)
            self.api(lambda: self.mk_timeout(ins[2], v), ins[1], regs)
        elif op == "event":
            self.api(self.mk_event, ins[1], regs)
        elif op == "succeed":
            e = self.event_operand(ins[1], regs)
            if e is not None:
                v = self.ev(ins[2], regs)
                self.api(lambda: e.succeed(v), None, regs)
        elif op == "fail":
            e = self.event_operand(ins[1], regs)
            if e is not None:
                x = self.ev(ins[2], regs)
                self.api(lambda: e.fail(x), None, regs)
        elif op == "spawn":
            a = self.ev(ins[3], regs)
            self.api(lambda: self.mk_process(ins[2], a), ins[1], regs)
        elif op == "interrupt":
            p = self.event_operand(ins[1], regs)
            if p is not None:
                c = self.ev(ins[2], regs)
                self.api(lambda: self.mk_interrupt(p, c), None, regs)
        elif op == "cond":
            from onl.sim.events import Event
            vs = [self.read(r, regs) for r in ins[3]]
            if all(isinstance(v, Event) for v in vs):
                self.api(lambda: self.mk_cond(ins[2], vs), ins[1], regs)
            else:
                self.log(["int", 4])
        elif op == "probe":
            e = self.event_operand(ins[1], regs)
            if e is not None:
                self.api(lambda: self.mk_probe(e, ins[2]), None, regs)
        elif op == "query":
            e = self.event_operand(ins[3], regs)
            if e is not None:
                self.api(lambda: self.mk_query(ins[2], e), ins[1], regs)
        elif op == "now":
            self.write(ins[1], Fraction(self.env.now), regs)
        elif op == "peek":
            p = self.env.peek()
            self.write(ins[1], None if p == float("inf") else Fraction(p), regs)
        elif op == "set":
            self.write(ins[1], self.ev(ins[2], regs), regs)
        elif op == "log":
            self.log(["int", 3], self.conv(self.ev(ins[1], regs)))
        elif op == "yield":
            _, lbl, vx, dst, mode = ins
            target = self.ev(vx, regs)
            k = mode[1] if isinstance(mode, list) else 0
            while True:
                try:
                    got = yield target
                except Exception as e:
                    self.log(["int", 1], ["int", lbl], ["list", [["int", 1], self.conv(e)]])
                    if mode == "prop":
                        raise
                    if isinstance(mode, list) and isinstance(e, Interrupt) and k > 0:
                        k -= 1
                        continue
                    self.write(dst, e, regs)
                    break
                else:
                    self.log(["int", 1], ["int", lbl], ["list", [["int", 0], self.conv(got)]])
                    self.write(dst, got, regs)
                    break
        elif op == "return":
            return ("ret", self.ev(ins[1], regs))
        elif op == "raise":
            raise self.ev(ins[1], regs)
        elif op in ("ifexn", "ifok"):
            is_exn = isinstance(self.read(ins[1], regs), BaseException)
            if is_exn == (op == "ifexn"):
                return (yield from self.exec_i(ins[2], regs))
        else:
            raise ValueError(ins)
        return None

    def interp(self, code, regs):
        for ins in code:
            r = yield from self.exec_i(ins, regs)
            if r is not None:
                return r[1]
        return None

    def body(self, code, arg):
        """the generator function every process of the family runs"""
        self.log(["int", 0])
        return (yield from self.interp(code, {0: arg}))

    # ---- run plan ------------------------------------------------------------------------------
    def result_of_exc(self, e):
        from onl.sim.core import EmptySchedule, StopSimulation
        if isinstance(e, EmptySchedule):
            return ["empty"]
        if isinstance(e, StopSimulation):
            return ["stop", self.conv(e.args[0])]
        return ["raise", self.conv_exn(e)]

    def run_item(self, it):
        from onl.sim.events import Event
        kind = it[0]
        self.klog.append(["R", json.dumps(it)[:60], self.now()])
        self.call_sched = []
        try:
            if kind == "exec":
                g = self.interp(it[1], {})
                try:
                    next(g)
                    g.close()
                except StopIteration:
                    pass
                res = ["ok"]
            elif kind == "run":
                res = ["stop", self.conv(self.env.run())]
            elif kind == "run_num":
                v = self._run_until(pynum(it[1], self.mode))
                res = ["stop", self.conv(v)]
            elif kind == "run_ev":
                u = self.glob.get(it[1])
                if not isinstance(u, Event):
                    raise Coded("Attribute", 10)
                res = ["stop", self.conv(self.env.run(until=u))]
            elif kind == "step":
                for _ in range(it[1]):
                    self.env.step()
                res = ["ok"]
            else:
                raise ValueError(it)
        except HarnessAbort:
            raise
        except Exception as e:
            res = self.result_of_exc(e)
        p = self.env.peek()
        self.results.append([res, self.now(), None if p == float("inf") else qs(p)])

    def _run_until(self, at):
        # the sentinel is the first event scheduled inside run(); name it before the first step of this run
        real_step = self.env.step
        state = {"named": False}

        def first_step():
            if not state["named"]:
                state["named"] = True
                for ev in self.call_sched[:1]:
                    self.name(ev)
            return real_step()
        self.env.step = first_step
        self.call_sched = []
        try:
            return self.env.run(until=at)
        finally:
            self.env.step = real_step
            if not state["named"]:
                for ev in self.call_sched[:1]:
                    self.name(ev)

    def run(self):
        try:
            for it in self.case["plan"]:
                self.run_item(it)
            aborted = None
        except HarnessAbort as e:
            aborted = str(e)
        return {"trace": self.trace, "results": self.results, "klog": self.klog,
                "evid_of_sid": {str(s): self.evid[i] for i, s in self.sid.items() if i in self.evid},
                "aborted": aborted}


def run_case(case, env_factory=None):
    return Harness(case, env_factory).run()


# ------------------------------------------------------------------------------------------------
# Coq printers (the only place where kernel cases / traces are serialised to Coq)

def c_z(n):
    return f"({int(n)})%Z"


def c_nat(n):
    n = int(n)
    if n < 0:
        raise ValueError("negative index (object unknown to the harness)")
    return f"{n}%nat"


def c_q(s):
    f = Fraction(s)
    return f"(Qmake ({f.numerator})%Z {f.denominator}%positive)"


def c_list(items):
    return "[" + "; ".join(items) + "]"


def c_reg(r):
    return f"({r[0]} {c_nat(r[1])})"


def c_vexp(x):
    k = x[0]
    if k == "none":
        return "XNone"
    if k == "int":
        return f"(XInt {c_z(x[1])})"
    if k == "reg":
        return f"(XReg {c_reg(x[1])})"
    if k == "user":
        return f"(XUser {c_z(x[1])} {c_z(x[2])})"
    raise ValueError(x)


QNAMES = {"triggered": "QTriggered", "processed": "QProcessed", "ok": "QOk", "value": "QValue", "alive": "QAlive",
          "defused": "QDefused"}


def c_mode(m):
    if m == "prop":
        return "YPropagate"
    if m == "catch":
        return "YCatch"
    return f"(YRetry {c_nat(m[1])})"


def c_instr(i):
    op = i[0]
    if op == "timeout":
        return f"(ITimeout {c_reg(i[1])} {c_q(i[2])} {c_vexp(i[3])})"
    if op == "event":
        return f"(IEvent {c_reg(i[1])})"
    if op == "succeed":
        return f"(ISucceed {c_reg(i[1])} {c_vexp(i[2])})"
    if op == "fail":
        return f"(IFail {c_reg(i[1])} {c_vexp(i[2])})"
    if op == "spawn":
        return f"(ISpawn {c_reg(i[1])} {c_nat(i[2]) if i[2] >= 0 else '4999%nat'} {c_vexp(i[3])})"
    if op == "interrupt":
        return f"(IInterrupt {c_reg(i[1])} {c_vexp(i[2])})"
    if op == "cond":
        return f"(ICond {c_reg(i[1])} {'true' if i[2] else 'false'} {c_list([c_reg(r) for r in i[3]])})"
    if op == "probe":
        return f"(IProbe {c_reg(i[1])} {c_nat(i[2])})"
    if op == "query":
        return f"(IQuery {c_reg(i[1])} {QNAMES[i[2]]} {c_reg(i[3])})"
    if op == "now":
        return f"(INow {c_reg(i[1])})"
    if op == "peek":
        return f"(IPeek {c_reg(i[1])})"
    if op == "set":
        return f"(ISet {c_reg(i[1])} {c_vexp(i[2])})"
    if op == "log":
        return f"(ILog {c_vexp(i[1])})"
    if op == "yield":
        return f"(IYield {c_z(i[1])} {c_vexp(i[2])} {c_reg(i[3])} {c_mode(i[4])})"
    if op == "return":
        return f"(IReturn {c_vexp(i[1])})"
    if op == "raise":
        return f"(IRaise {c_vexp(i[1])})"
    if op == "ifexn":
        return f"(IIfExn {c_reg(i[1])} {c_instr(i[2])})"
    if op == "ifok":
        return f"(IIfOk {c_reg(i[1])} {c_instr(i[2])})"
    raise ValueError(i)


def c_code(code):
    return c_list([c_instr(i) for i in code])


def c_item(it):
    k = it[0]
    if k == "exec":
        return f"(PExec {c_code(it[1])})"
    if k == "run":
        return "PRun"
    if k == "run_num":
        return f"(PRunNum {c_q(it[1])})"
    if k == "run_ev":
        return f"(PRunEv {c_nat(it[1])})"
    if k == "step":
        return f"(PStep {c_bignat(it[1])})"
    raise ValueError(it)


class Unprintable(Exception):
    """the observation contains something the model has no term for (an exception class the kernel model never raises)"""


CLS = {"Interrupt": "EInterrupt", "Runtime": "ERuntime", "Value": "EValue", "Attribute": "EAttribute", "Type": "EType",
       "Assert": "EAssert"}


def c_cls(c):
    if isinstance(c, str):
        return CLS[c]
    if c[0] == "User":
        return f"(EUser {c_z(c[1])})"
    raise Unprintable(str(c))


def c_val(v):
    k = v[0]
    if k == "none":
        return "VNone"
    if k == "int":
        return f"(VInt {c_z(v[1])})"
    if k == "num":
        return f"(VNum {c_q(v[1])})"
    if k == "ev":
        return f"(VEv {c_nat(v[1])})"
    if k == "cond":
        return "(VCond " + c_list([f"({c_nat(e)}, {c_val(x)})" for e, x in v[1]]) + ")"
    if k == "list":
        return "(VList " + c_list([c_val(x) for x in v[1]]) + ")"
    if k == "exn":
        return f"(VExn {c_cls(v[1])} {c_list([c_val(x) for x in v[2]])})"
    raise ValueError(v)


def c_exn(x):
    return f"({c_cls(x[0])}, {c_list([c_val(a) for a in x[1]])})"


def c_outcome(o):
    if o is None:
        return "None"
    if o[0] == "ok":
        return f"(Some (Ok {c_val(o[1])}))"
    return f"(Some (Fail {c_exn(o[1])}))"


def c_obs(t):
    k = t[0]
    if k == "step":
        return f"OStep {c_nat(t[1])} {c_q(t[2])}"
    if k == "probe":
        return f"OProbe {c_nat(t[1])} {c_nat(t[2])} {c_q(t[3])} {c_outcome(t[4])}"
    if k == "log":
        p = "None" if t[1] is None else f"(Some {c_nat(t[1])})"
        return f"OLog {p} {c_q(t[2])} {c_val(t[3])}"
    raise ValueError(t)


def c_result(r):
    k = r[0]
    if k == "ok":
        return "ROk"
    if k == "empty":
        return "REmpty"
    if k == "stop":
        return f"(RStop {c_val(r[1])})"
    if k == "raise":
        return f"(RRaise {c_exn(r[1])})"
    raise ValueError(r)


def c_pres(p):
    r, now, peek = p
    pk = "None" if peek is None else f"(Some {c_q(peek)})"
    return f"({c_result(r)}, {c_q(now)}, {pk})"


def flatten_code(code):
    """["repeat", n, [instr...]] blocks written out n times (the semantics of a repeated block)"""
    out = []
    for i in code:
        if i[0] == "repeat":
            out.extend(list(i[2]) * int(i[1]))
        else:
            out.append(i)
    return out


def is_long(case):
    return bool(case.get("long")) or any(i[0] == "repeat" for c in case["codes"] for i in c)


def c_bignat(n):
    n = int(n)
    return c_nat(n) if n < 1000 else f"(Z.to_nat ({n})%Z)"


def c_rcode(code):
    items = []
    for i in code:
        if i[0] == "repeat":
            items.append(f"RRep {c_bignat(i[1])} {c_code(i[2])}")
        else:
            items.append(f"RI {c_instr(i)}")
    return c_list(items)


def c_trace_rle(terms, max_period=12, min_reps=3):
    """run-length encoding of exactly repeated blocks of printed observations -> list titem"""
    out, i, n = [], 0, len(terms)
    while i < n:
        best = None
        for p in range(1, max_period + 1):
            if i + 2 * p > n or terms[i:i + p] != terms[i + p:i + 2 * p]:
                continue
            r = 2
            while i + (r + 1) * p <= n and terms[i + r * p:i + (r + 1) * p] == terms[i:i + p]:
                r += 1
            if r >= min_reps and (best is None or r * p > best[0] * best[1]):
                best = (r, p)
        if best:
            r, p = best
            out.append(f"TRep {c_bignat(r)} {c_list(terms[i:i + p])}")
            i += r * p
        else:
            out.append(f"TO ({terms[i]})")
            i += 1
    return c_list(out)


HP = (1 << 61) - 1
HB = 1000003


def _hmix(h, x):
    return (h * HB + x + 1) % HP


def _enc_q(sq, h):
    f = Fraction(sq)
    return _hmix(_hmix(h, f.numerator), f.denominator)


def _enc_cls(c, h):
    if isinstance(c, str):
        return _hmix(h, {"Interrupt": 1, "Runtime": 2, "Value": 3, "Attribute": 4, "Type": 5, "Assert": 6}[c])
    if c[0] == "User":
        return _hmix(_hmix(h, 7), int(c[1]))
    raise Unprintable(str(c))


def _enc_val(v, h):
    k = v[0]
    if k == "none":
        return _hmix(h, 1)
    if k == "int":
        return _hmix(_hmix(h, 2), int(v[1]))
    if k == "num":
        return _enc_q(v[1], _hmix(h, 3))
    if k == "ev":
        if v[1] < 0:
            raise Unprintable("unknown event")
        return _hmix(_hmix(h, 4), v[1])
    if k == "cond":
        h = _hmix(h, 5)
        for e, x in v[1]:
            h = _enc_val(x, _hmix(h, e))
        return _hmix(h, 0)
    if k == "list":
        h = _hmix(h, 6)
        for x in v[1]:
            h = _enc_val(x, h)
        return _hmix(h, 0)
    if k == "exn":
        h = _enc_cls(v[1], _hmix(h, 7))
        for x in v[2]:
            h = _enc_val(x, h)
        return _hmix(h, 0)
    raise ValueError(v)


def _enc_obs(t, h):
    k = t[0]
    if k == "step":
        if t[1] < 0:
            raise Unprintable("unknown event")
        return _enc_q(t[2], _hmix(_hmix(h, 1), t[1]))
    if k == "probe":
        h = _enc_q(t[3], _hmix(_hmix(_hmix(h, 2), t[1]), t[2]))
        o = t[4]
        if o is None:
            return _hmix(h, 0)
        if o[0] == "ok":
            return _enc_val(o[1], _hmix(h, 1))
        return _enc_val(["exn", o[1][0], o[1][1]], _hmix(h, 2))
    if k == "log":
        h = _enc_q(t[2], _hmix(_hmix(h, 3), 0 if t[1] is None else t[1] + 1))
        return _enc_val(t[3], h)
    raise ValueError(t)


def trace_digest(trace):
    """mirror of Kernel/Script.v trace_digest"""
    h = 7
    for t in trace:
        h = _enc_obs(t, h)
    return h


DIGEST_TAIL = 40
LITERAL_LIMIT = 40000       # bytes of (run-length encoded) literal trace above which the digest form is used


def long_args(case):
    fuel = int(case.get("fuel", 2000))
    return (f"{c_bignat(fuel)} {c_q(case['t0'])} {c_list([c_rcode(c) for c in case['codes']])} "
            f"{c_list([c_item(i) for i in case['plan']])}")


def case_args(case):
    return (f"{c_q(case['t0'])} {c_list([c_code(c) for c in case['codes']])} "
            f"{c_list([c_item(i) for i in case['plan']])}")


def agree_term(case, obs):
    """Coq bool: the model run on the case produces exactly the recorded trace and plan results"""
    if obs.get("aborted"):
        return "false (* harness aborted: %s *)" % obs["aborted"]
    try:
        terms = [c_obs(t) for t in obs["trace"]]
        rs = c_list([c_pres(p) for p in obs["results"]])
    except (Unprintable, ValueError) as e:
        return "false (* observation outside the model: %s *)" % str(e).replace("*)", "* )").replace("(*", "( *")[:200]
    if is_long(case):
        rle = c_trace_rle(terms)
        if len(rle) <= LITERAL_LIMIT:
            return f"agree_long {long_args(case)}\n  {rle}\n  {rs}"
        try:
            dg = trace_digest(obs["trace"])
        except (Unprintable, ValueError) as e:
            return "false (* observation outside the model: %s *)" % str(e)[:200]
        tail = c_list(terms[-DIGEST_TAIL:])
        return f"agree_digest {long_args(case)} {c_bignat(len(terms))} {c_z(dg)}\n  {tail}\n  {rs}"
    return f"agree {case_args(case)}\n  {c_list(terms)}\n  {rs}"


def model_term(case, obs=None):
    if is_long(case):
        if obs is not None and not obs.get("aborted"):
            try:
                terms = [c_obs(t) for t in obs["trace"]]
                rs = c_list([c_pres(p) for p in obs["results"]])
                rle = c_trace_rle(terms)
                if len(rle) <= LITERAL_LIMIT:
                    return f"diagnose_long {long_args(case)} {rle} {rs}"
            except (Unprintable, ValueError):
                pass
            return f"diagnose_digest {long_args(case)} {DIGEST_TAIL}%nat"
        return f"(let '(tr, rs) := model_run_long {long_args(case)} in (List.length tr, firstn 40 tr, rs))"
    if obs is not None and not obs.get("aborted"):
        try:
            tr = c_list([c_obs(t) for t in obs["trace"]])
            rs = c_list([c_pres(p) for p in obs["results"]])
            return f"(diagnose {case_args(case)} {tr} {rs}, model_run {case_args(case)})"
        except (Unprintable, ValueError):
            pass
    return f"model_run {case_args(case)}"


# ------------------------------------------------------------------------------------------------
# monitors' helpers

def basic_monitor(case, obs):
    msgs = []
    if obs.get("aborted"):
        msgs.append("harness-abort: " + str(obs["aborted"]))

    def walk(v):
        if isinstance(v, list):
            if len(v) == 2 and v[0] == "Other":
                msgs.append("unexpected-exception: the kernel raised " + str(v[1]))
            for x in v:
                walk(x)
    walk(obs["trace"])
    walk(obs["results"])
    for k in obs["klog"]:
        if k[0] == "P?":
            msgs.append("step-ambiguous: one step() removed %d entries from the queue" % len(k[1]))
    return msgs[:3]


def steps_of(obs):
    return [t for t in obs["trace"] if t[0] == "step"]


def klog_of(obs):
    return obs["klog"]


def coincidences(obs):
    """largest number of events processed at one instant"""
    c = Counter(t[2] for t in obs["trace"] if t[0] == "step")
    return max(c.values()) if c else 0


def nontrivial(case, obs):
    return coincidences(obs) >= 3 and len(steps_of(obs)) >= 6


def walk_instrs(case):
    def rec(i):
        if i[0] == "repeat":
            for j in i[2]:
                yield from rec(j)
            return
        yield i
        if i[0] in ("ifexn", "ifok"):
            yield from rec(i[2])
    for code in case["codes"]:
        for i in code:
            yield from rec(i)
    for it in case["plan"]:
        if it[0] == "exec":
            for i in it[1]:
                yield from rec(i)


def describe(case, obs):
    ops = Counter(i[0] for i in walk_instrs(case))
    keys = ["procs=%d" % min(len(obs.get("evid_of_sid", {})) and sum(1 for k in obs["klog"] if k[0] == "S" and k[5] == "Initialize"), 12)]
    for op in ("interrupt", "cond", "fail", "spawn", "succeed", "raise"):
        if ops[op]:
            keys.append("has-" + op)
    for it in case["plan"]:
        if it[0] != "exec":
            keys.append("plan-" + it[0])
    keys = sorted(set(keys))
    c = coincidences(obs)
    keys.append("max-coincidence=%s" % (c if c < 8 else "8+"))
    n = len(steps_of(obs))
    keys.append("steps=%s" % ("<10" if n < 10 else "<30" if n < 30 else "<100" if n < 100 else "100+"))
    kinds = set()
    for r in obs["results"]:
        kinds.add("result-" + r[0][0] + (":" + str(r[0][1][0]) if r[0][0] == "raise" else ""))
    keys.extend(sorted(kinds))
    apierr = sum(1 for t in obs["trace"] if t[0] == "log" and t[3][1][0] == ["int", 2])
    if apierr:
        keys.append("api-errors")
    if any(t[0] == "log" and t[3][1][0] == ["int", 1] and t[3][1][2][1][0] == ["int", 1] and
           t[3][1][2][1][1][:2] == ["exn", "Interrupt"] for t in obs["trace"]):
        keys.append("interrupt-delivered")
    if case.get("num") == "fraction":
        keys.append("num-fraction")
    if any((i[0] == "timeout" and Fraction(i[2]).denominator > 64) for i in walk_instrs(case)) or \
            any(it[0] == "run_num" and Fraction(it[1]).denominator > 64 for it in case["plan"]):
        keys.append("fine-dyadic-times")
    return keys


# ------------------------------------------------------------------------------------------------
# generator

DEFAULT_KNOBS = {
    "procs": (1, 8),                 # number of initial processes
    "body": (1, 7),                  # actions per process body
    "delays": ["0", "0", "1", "1", "1", "2", "1/2", "1/2", "1/4", "3/2", "1/8", "3"],
    # dyadic values that are exact in binary64 but need more than 9 decimals (a rounding of due times shows at once)
    "fine_delays": ["1/1024", "3/4096", "1/65536", "1025/1024", "4099/4096", "65537/65536", "5/65536", "2049/2048"],
    "p_fine": 0.12,                  # probability that a delay / stop point is drawn from (or shifted by) fine_delays
    "t0": ["0", "0", "0", "1", "1/2", "-1", "5/4"],
    "n_shared": (0, 4),              # shared plain events
    "n_shared_timeouts": (0, 2),     # timeouts created at module level, several waiters
    "child_codes": (0, 3),           # extra code entries spawned by processes
    # relative weights of the actions of a process body
    "w_timeout": 6, "w_wait_shared": 3, "w_trigger": 3, "w_fail": 1.5, "w_spawn": 2, "w_join": 2,
    "w_interrupt": 2.5, "w_cond": 2.5, "w_query": 0.7, "w_log": 0.5, "w_double_trigger": 0.5,
    "w_neg_delay": 0.4, "w_bad_yield": 0.05, "w_interrupt_self": 0.3, "w_zero_burst": 1.0,
    "w_fine_pair": 0.8,              # two timeouts due a tiny amount apart, created in the opposite order of their due times
    "w_intr_then_spawn": 0.8,        # interrupt a process, then start a new one in the same instant (order inside the urgent class)
    "p_catch": 0.6,                  # a yield catches (vs propagates) a received exception
    "p_retry": 0.25,                 # ... or re-waits after an Interrupt
    "p_end_raise": 0.15, "p_end_return": 0.4,
    "p_probe": 0.9,
    "cond_depth": 3,
    # run plans (relative weights)
    "plan_run": 4, "plan_num": 3, "plan_ev": 2, "plan_steps": 2, "plan_mixed": 2,
    "p_top_exec": 0.3,               # module-level triggers / interrupts between plan items
    "p_fraction": 0.1,               # drive the kernel with fractions.Fraction instead of int/float
    "p_builtin_exc": 0.35,           # raise / fail with a BUILTIN exception type (AttributeError, IndexError, ...) instead of UserExc<k>
}


def wchoice(rng, pairs):
    tot = sum(w for _, w in pairs)
    x = rng.random() * tot
    for v, w in pairs:
        x -= w
        if x <= 0:
            return v
    return pairs[-1][0]


class _Gen:
    def __init__(self, rng, knobs):
        self.rng = rng
        self.k = dict(DEFAULT_KNOBS)
        if knobs:
            self.k.update(knobs)
        self.lbl = 0
        self.probe = 0
        self.codes = []
        self.shared = []      # G indices holding plain events
        self.shared_to = []   # G indices holding module-level timeouts
        self.proc_slots = []  # G indices holding initial processes
        self.next_g = 0

    def newg(self):
        self.next_g += 1
        return self.next_g - 1

    def newlbl(self):
        self.lbl += 1
        return self.lbl

    def newprobe(self):
        self.probe += 1
        return self.probe

    def delay(self):
        if self.rng.random() < self.k["p_fine"]:
            return self.rng.choice(self.k["fine_delays"])
        return self.rng.choice(self.k["delays"])

    def value(self, locals_=()):
        r = self.rng.random()
        if r < 0.45:
            return ["none"]
        if r < 0.9 or not locals_:
            return ["int", self.rng.randint(0, 9)]
        return ["reg", ["L", self.rng.choice(list(locals_))]]

    def userexc(self):
        return rand_exc(self.rng, self.k.get("p_builtin_exc", 0.35))

    def mode(self):
        r = self.rng.random()
        if r < self.k["p_retry"]:
            return ["retry", self.rng.randint(1, 2)]
        if r < self.k["p_retry"] + self.k["p_catch"]:
            return "catch"
        return "prop"

    def maybe_probe(self, out, reg):
        if self.rng.random() < self.k["p_probe"]:
            out.append(["probe", reg, self.newprobe()])

    # ---- a process body --------------------------------------------------------------------------
    def body(self, code_index, depth=0):
        rng, k = self.rng, self.k
        out = []
        evs = []                 # local registers known to hold events
        procs = []               # local registers holding child processes
        nl = [1]

        def newl():
            nl[0] += 1
            return nl[0] - 1

        def any_event_reg():
            c = [["L", i] for i in evs] + [["G", g] for g in self.shared + self.shared_to + self.proc_slots]
            return rng.choice(c) if c else None

        def after_yield(dst, m):
            """reactions to what the yield returned (interrupt handlers: end, raise, wait elsewhere)"""
            if m == "prop":
                return
            r = rng.random()
            if r < 0.12:
                out.append(["ifexn", ["L", dst], ["return", ["reg", ["L", dst]]]])
            elif r < 0.22:
                out.append(["ifexn", ["L", dst], ["raise", self.userexc() if rng.random() < 0.5 else ["reg", ["L", dst]]]])
            elif r < 0.34:
                t = any_event_reg()
                if t:
                    out.append(["ifexn", ["L", dst], ["yield", self.newlbl(), ["reg", t], ["L", newl()], self.mode()]])
            elif r < 0.40:
                out.append(["ifok", ["L", dst], ["log", ["reg", ["L", dst]]]])

        def do_yield(target_reg):
            dst = newl()
            m = self.mode()
            out.append(["yield", self.newlbl(), ["reg", target_reg], ["L", dst], m])
            after_yield(dst, m)

        def cond_tree(d):
            """emits instructions building a condition; returns the register holding it"""
            n = rng.choice([0, 1, 2, 2, 2, 3, 3, 4]) if d < k["cond_depth"] else 2
            ops = []
            for _ in range(n):
                r = rng.random()
                if r < 0.25 and d + 1 < k["cond_depth"]:
                    ops.append(cond_tree(d + 1))
                elif r < 0.65:
                    l = newl()
                    out.append(["timeout", ["L", l], self.delay(), self.value()])
                    self.maybe_probe(out, ["L", l])
                    evs.append(l)
                    ops.append(["L", l])
                else:
                    t = any_event_reg()
                    if t is None:
                        l = newl()
                        out.append(["timeout", ["L", l], self.delay(), self.value()])
                        evs.append(l)
                        t = ["L", l]
                    ops.append(t)
            if ops and rng.random() < 0.1:
                ops.append(rng.choice(ops))           # the same operand twice
            l = newl()
            out.append(["cond", ["L", l], rng.random() < 0.5, ops])
            self.maybe_probe(out, ["L", l])
            evs.append(l)
            return ["L", l]

        actions = [("timeout", k["w_timeout"]), ("wait_shared", k["w_wait_shared"]), ("trigger", k["w_trigger"]),
                   ("fail", k["w_fail"]), ("spawn", k["w_spawn"]), ("join", k["w_join"]), ("interrupt", k["w_interrupt"]),
                   ("cond", k["w_cond"]), ("query", k["w_query"]), ("log", k["w_log"]),
                   ("double", k["w_double_trigger"]), ("neg", k["w_neg_delay"]), ("bad_yield", k["w_bad_yield"]),
                   ("intr_self", k["w_interrupt_self"]), ("burst", k["w_zero_burst"]),
                   ("fine_pair", k["w_fine_pair"]), ("intr_spawn", k["w_intr_then_spawn"])]
        for _ in range(rng.randint(*k["body"])):
            a = wchoice(rng, actions)
            if a == "timeout":
                l = newl()
                out.append(["timeout", ["L", l], self.delay(), self.value()])
                self.maybe_probe(out, ["L", l])
                evs.append(l)
                do_yield(["L", l])
            elif a == "burst":
                # several timeouts / triggers without yielding, then wait for one of them
                ls = []
                for _ in range(rng.randint(2, 3)):
                    l = newl()
                    out.append(["timeout", ["L", l], rng.choice(["0", "0", "1", "1/2"]), self.value()])
                    self.maybe_probe(out, ["L", l])
                    evs.append(l)
                    ls.append(l)
                do_yield(["L", rng.choice(ls)])
            elif a == "fine_pair":
                base = Fraction(rng.choice(["0", "1", "1/2", "1/8", "3/2"]))
                eps = Fraction(rng.choice(k["fine_delays"][:3] + ["5/65536"]))
                la, lb = newl(), newl()
                out.append(["timeout", ["L", la], qs(base + eps), self.value()])     # due later, created first
                self.maybe_probe(out, ["L", la])
                out.append(["timeout", ["L", lb], qs(base), self.value()])
                self.maybe_probe(out, ["L", lb])
                evs.extend([la, lb])
                if rng.random() < 0.5:
                    do_yield(["L", la])
                else:
                    lc = newl()
                    out.append(["cond", ["L", lc], rng.random() < 0.5, [["L", la], ["L", lb]]])
                    self.maybe_probe(out, ["L", lc])
                    evs.append(lc)
                    do_yield(["L", lc])
            elif a == "intr_spawn":
                c = [["L", p] for p in procs] + [["G", g] for g in self.proc_slots]
                if c and self.child_range(code_index):
                    out.append(["interrupt", rng.choice(c), self.value()])
                    l = newl()
                    out.append(["spawn", ["L", l], rng.choice(self.child_range(code_index)), self.value()])
                    self.maybe_probe(out, ["L", l])
                    evs.append(l)
                    procs.append(l)
                    if rng.random() < 0.5:
                        out.append(["interrupt", rng.choice(c + [["L", l]]), self.value()])
            elif a == "wait_shared":
                c = self.shared + self.shared_to + [g for g in self.proc_slots]
                if c:
                    do_yield(["G", rng.choice(c)])
            elif a == "trigger":
                if self.shared:
                    out.append(["succeed", ["G", rng.choice(self.shared)], self.value(evs)])
            elif a == "fail":
                if self.shared:
                    out.append(["fail", ["G", rng.choice(self.shared)],
                                self.userexc() if rng.random() < 0.9 else ["int", 3]])
            elif a == "double":
                t = any_event_reg()
                if t and t[0] == "G" and t[1] in self.proc_slots and rng.random() < 0.85:
                    t = ["G", rng.choice(self.shared)] if self.shared else None
                if t:
                    out.append(["succeed", t, self.value()])
                    if rng.random() < 0.5:
                        out.append(["fail", t, self.userexc()])
            elif a == "spawn":
                if self.child_range(code_index):
                    c = rng.choice(self.child_range(code_index))
                    l = newl()
                    out.append(["spawn", ["L", l], c, self.value()])
                    self.maybe_probe(out, ["L", l])
                    evs.append(l)
                    procs.append(l)
                    if rng.random() < 0.3:
                        g = self.newg()
                        self.late_slots.append(g)
                        out.append(["set", ["G", g], ["reg", ["L", l]]])
            elif a == "join":
                if procs:
                    do_yield(["L", rng.choice(procs)])
                elif self.proc_slots:
                    do_yield(["G", rng.choice(self.proc_slots)])
            elif a == "interrupt":
                c = [["L", p] for p in procs] + [["G", g] for g in self.proc_slots + self.late_slots]
                if c:
                    out.append(["interrupt", rng.choice(c), self.value()])
                    if rng.random() < 0.3:
                        out.append(["interrupt", rng.choice(c), self.value()])
            elif a == "intr_self":
                if self.proc_slots:
                    out.append(["interrupt", ["G", rng.choice(self.proc_slots)], ["int", 99]])
            elif a == "cond":
                do_yield(cond_tree(1))
            elif a == "query":
                t = any_event_reg()
                if t:
                    l = newl()
                    out.append(["query", ["L", l], rng.choice(list(QNAMES)), t])
                    out.append(["log", ["reg", ["L", l]]])
            elif a == "log":
                l = newl()
                out.append([rng.choice(["now", "peek"]), ["L", l]])
                out.append(["log", ["reg", ["L", l]]])
            elif a == "neg":
                l = newl()
                out.append(["timeout", ["L", l], rng.choice(["-1", "-1/2", "-1/8"]), ["none"]])
            elif a == "bad_yield":
                out.append(["yield", self.newlbl(), rng.choice([["none"], ["int", 1]]), ["L", newl()], "catch"])
        r = rng.random()
        if r < k["p_end_raise"]:
            out.append(["raise", self.userexc()])
        elif r < k["p_end_raise"] + k["p_end_return"]:
            out.append(["return", self.value(evs)])
        return out

    def child_range(self, code_index):
        return list(range(max(code_index + 1, self.n_main), len(self.codes)))

    # ---- the case ----------------------------------------------------------------------------------
    def case(self):
        rng, k = self.rng, self.k
        n_main = rng.randint(*k["procs"])
        n_child = rng.randint(*k["child_codes"])
        self.n_main = n_main
        self.codes = [None] * (n_main + n_child)
        self.late_slots = []
        self.shared = [self.newg() for _ in range(rng.randint(*k["n_shared"]))]
        self.shared_to = [self.newg() for _ in range(rng.randint(*k["n_shared_timeouts"]))]
        self.proc_slots = [self.newg() for _ in range(n_main)]
        setup = []
        for g in self.shared:
            setup.append(["event", ["G", g]])
            self.maybe_probe(setup, ["G", g])
        for g in self.shared_to:
            setup.append(["timeout", ["G", g], self.delay(), self.value()])
            self.maybe_probe(setup, ["G", g])
        # children first (they may only spawn later entries), then the main bodies
        for c in range(len(self.codes) - 1, -1, -1):
            self.codes[c] = self.body(c)
        order = list(range(n_main))
        for i in order:
            code = i if rng.random() < 0.85 else rng.randrange(n_main)       # sometimes one code runs twice
            setup.append(["spawn", ["G", self.proc_slots[i]], code, self.value()])
            self.maybe_probe(setup, ["G", self.proc_slots[i]])
        if rng.random() < 0.15 and self.proc_slots:
            setup.append(["interrupt", ["G", rng.choice(self.proc_slots)], ["int", 77]])   # before its first statement
        plan = [["exec", setup]]
        plan += self.plan()
        case = {"t0": rng.choice(k["t0"]), "codes": self.codes, "plan": plan}
        if rng.random() < k["p_fraction"]:
            case["num"] = "fraction"
        return case

    def top_exec(self):
        rng = self.rng
        ins = []
        for _ in range(rng.randint(1, 2)):
            r = rng.random()
            if r < 0.4 and self.shared:
                ins.append(["succeed", ["G", rng.choice(self.shared)], self.value()])
            elif r < 0.55 and self.shared:
                ins.append(["fail", ["G", rng.choice(self.shared)], self.userexc()])
            elif r < 0.85 and self.proc_slots:
                ins.append(["interrupt", ["G", rng.choice(self.proc_slots + self.late_slots)], self.value()])
            else:
                g = self.newg()
                ins.append(["timeout", ["G", g], self.delay(), self.value()])
                self.maybe_probe(ins, ["G", g])
        return ["exec", ins]

    def instant(self):
        """an absolute instant on the lattice (stop points coincide with due occurrences)"""
        t = Fraction(0)
        for _ in range(self.rng.randint(1, 3)):
            t += Fraction(self.rng.choice([d for d in self.k["delays"] if not d.startswith("-")]))
        if self.rng.random() < self.k["p_fine"]:
            t += Fraction(self.rng.choice(self.k["fine_delays"]))
        return t

    def plan(self):
        rng, k = self.rng, self.k
        kind = wchoice(rng, [("run", k["plan_run"]), ("num", k["plan_num"]), ("ev", k["plan_ev"]),
                             ("steps", k["plan_steps"]), ("mixed", k["plan_mixed"])])
        items = []
        t0 = Fraction(0)

        def num_item():
            return ["run_num", qs(self.instant() + (Fraction(0) if rng.random() < 0.8 else Fraction(-2)))]

        def ev_item():
            c = self.shared + self.shared_to + self.proc_slots
            if rng.random() < 0.1 or not c:
                return ["run_ev", self.next_g + 3]              # not an event
            return ["run_ev", rng.choice(c)]
        if kind == "run":
            pass
        elif kind == "num":
            ts = sorted(self.instant() for _ in range(rng.randint(1, 3)))
            if rng.random() < 0.2:
                rng.shuffle(ts)                                  # a stop point in the past: ValueError
            items += [["run_num", qs(t)] for t in ts]
        elif kind == "ev":
            items += [ev_item() for _ in range(rng.randint(1, 2))]
        elif kind == "steps":
            for _ in range(rng.randint(1, 4)):
                items.append(["step", rng.choice([1, 1, 2, 3, 5, 8])])
        else:
            for _ in range(rng.randint(2, 5)):
                r = rng.random()
                items.append(num_item() if r < 0.35 else ev_item() if r < 0.55 else
                             ["step", rng.choice([1, 2, 3, 5])] if r < 0.85 else ["run"])
        if rng.random() < k["p_top_exec"] and items:
            items.insert(rng.randrange(len(items) + 1), self.top_exec())
        for _ in range(rng.choice([1, 2, 2, 3])):
            items.append(["run"])
        return items


# ------------------------------------------------------------------------------------------------
# long families (compact cases: ["repeat", n, [instr...]] blocks in codes; compared with agree_long)

LONG_KINDS = ("streak", "chain", "longrun")


def long_case(rng, kind=None, n=None):
    """LONG-STREAK families.
      streak   one collector process yields, in ONE resumption, n already processed events back to back (a cycle over a processed
               timeout with a value, a succeeded event, a failed event that an earlier waiter defused, a finished child that
               returned, a finished child that raised), catching the failures, then goes on normally; n in {1200, 3000}
      chain    zero-delay hand-overs: a process woken by its event creates the next event, starts the next process and succeeds
               that event, and so on at one instant; the chain is cut by a step budget (depth about 1500)
      longrun  two processes ticking with small delays for more than 5000 steps
    """
    kind = kind or rng.choice(LONG_KINDS)
    t0 = rng.choice(["0", "0", "1", "1/2"])
    if kind == "streak":
        n = n or rng.choice([1200, 3000])
        cycle_all = [
            ["yield", 11, ["reg", ["G", 2]], ["L", 5], "catch"],     # processed timeout carrying a value
            ["yield", 12, ["reg", ["G", 0]], ["L", 5], "catch"],     # succeeded shared event
            ["yield", 13, ["reg", ["G", 1]], ["L", 6], "catch"],     # failed shared event (defused by the catcher)
            ["yield", 14, ["reg", ["G", 3]], ["L", 5], "catch"],     # finished child (returned)
            ["yield", 15, ["reg", ["G", 4]], ["L", 6], "catch"],     # finished child (raised; joined by the catcher)
        ]
        cycle = list(cycle_all)
        rng.shuffle(cycle)
        if rng.random() < 0.3:
            cycle = cycle[:rng.randint(2, 4)]
        reps = max(1, n // len(cycle))
        v = rng.choice([0, 5, 7])
        collector = [["timeout", ["L", 1], "2", ["none"]], ["yield", 1, ["reg", ["L", 1]], ["L", 2], "catch"],
                     ["repeat", reps, cycle],
                     ["log", ["reg", ["L", 5]]], ["log", ["reg", ["L", 6]]],
                     ["timeout", ["L", 3], rng.choice(["0", "1", "1/2"]), ["int", 3]],
                     ["yield", 2, ["reg", ["L", 3]], ["L", 4], "catch"], ["return", ["int", rng.randint(0, 9)]]]
        child_ret = [["timeout", ["L", 1], "1", ["none"]], ["yield", 3, ["reg", ["L", 1]], ["L", 2], "catch"], ["return", ["int", v]]]
        child_raise = [["timeout", ["L", 1], "1", ["none"]], ["yield", 4, ["reg", ["L", 1]], ["L", 2], "catch"], ["raise", ["user", 1, 4]]]
        # G4 (child raising at t=1) is processed before G1 (failed by the producer at t=1): wait in that order
        catcher = [["yield", 6, ["reg", ["G", 4]], ["L", 2], "catch"], ["yield", 5, ["reg", ["G", 1]], ["L", 1], "catch"]]
        producer = [["timeout", ["L", 1], "1", ["none"]], ["yield", 7, ["reg", ["L", 1]], ["L", 2], "catch"],
                    ["succeed", ["G", 0], ["int", v]], ["fail", ["G", 1], ["user", 2, 8]]]
        setup = [["event", ["G", 0]], ["event", ["G", 1]], ["timeout", ["G", 2], "1", ["int", 7]],
                 ["spawn", ["G", 3], 1, ["none"]], ["spawn", ["G", 4], 2, ["none"]],
                 ["spawn", ["G", 5], 3, ["none"]], ["spawn", ["G", 6], 4, ["none"]], ["spawn", ["G", 7], 0, ["none"]],
                 ["probe", ["G", 7], 1]]
        plan = [["exec", setup]] + rng.choice([[["run"]], [["run_ev", 7], ["run"]], [["run_num", "2"], ["run"]]])
        total = reps * len(cycle)
        return {"t0": t0, "codes": [collector, child_ret, child_raise, catcher, producer], "plan": plan,
                "long": "streak", "fuel": total + 200, "max_steps": 400}
    if kind == "chain":
        depth = n or rng.choice([1500, 1600])
        wait_first = rng.random() < 0.5          # the next process waits BEFORE its event is triggered
        link = [["yield", 1, ["reg", ["L", 0]], ["L", 1], "catch"], ["event", ["L", 2]], ["spawn", ["L", 3], 0, ["reg", ["L", 2]]]]
        if wait_first:
            link += [["timeout", ["L", 4], "0", ["none"]], ["yield", 2, ["reg", ["L", 4]], ["L", 5], "catch"]]
        link += [["succeed", ["L", 2], ["reg", ["L", 1]]]]
        per = 3 if wait_first else 2
        steps = per * depth + 2
        plan = [["exec", [["event", ["G", 0]], ["spawn", ["G", 1], 0, ["reg", ["G", 0]]], ["succeed", ["G", 0], ["int", 1]]]],
                ["step", steps]]
        return {"t0": t0, "codes": [link], "plan": plan, "long": "chain", "fuel": steps + 100, "max_steps": steps + 100}
    if kind == "longrun":
        k = n or 2600
        d1, d2 = rng.choice([("1", "1"), ("1", "1/2"), ("1/2", "1/4")])
        tick = lambda d, lbl: [["repeat", k, [["timeout", ["L", 1], d, ["none"]], ["yield", lbl, ["reg", ["L", 1]], ["L", 2], "catch"]]],
                               ["return", ["int", lbl]]]
        plan = [["exec", [["spawn", ["G", 0], 0, ["none"]], ["spawn", ["G", 1], 1, ["none"]], ["probe", ["G", 1], 1]]], ["run"]]
        return {"t0": t0, "codes": [tick(d1, 1), tick(d2, 2)], "plan": plan, "long": "longrun",
                "fuel": 2 * k + 200, "max_steps": 2 * k + 200}
    raise ValueError(kind)


def gen_case(rng, knobs=None):
    return _Gen(rng, knobs).case()


# ------------------------------------------------------------------------------------------------
# shrinking

def shrink(case):
    plan, codes = case["plan"], case["codes"]
    # long cases first: halve repeat counts and step budgets
    for ci, code in enumerate(codes):
        for j, ins in enumerate(code):
            if ins[0] == "repeat" and ins[1] > 1:
                for n in sorted({ins[1] // 2, ins[1] - 1, 1}):
                    if 0 < n < ins[1]:
                        yield {**case, "codes": codes[:ci] + [code[:j] + [["repeat", n, ins[2]]] + code[j + 1:]] + codes[ci + 1:]}
    for pi, it in enumerate(plan):
        if it[0] == "step" and it[1] > 16:
            yield {**case, "plan": plan[:pi] + [["step", it[1] // 2]] + plan[pi + 1:]}
    # drop a plan item
    for i in range(len(plan) - 1, -1, -1):
        if len(plan) > 1:
            yield {**case, "plan": plan[:i] + plan[i + 1:]}
    # drop an instruction of a module-level block
    for pi, it in enumerate(plan):
        if it[0] == "exec":
            for j in range(len(it[1]) - 1, -1, -1):
                yield {**case, "plan": plan[:pi] + [["exec", it[1][:j] + it[1][j + 1:]]] + plan[pi + 1:]}
        if it[0] == "step" and it[1] > 1:
            yield {**case, "plan": plan[:pi] + [["step", it[1] - 1]] + plan[pi + 1:]}
    # empty a code, drop an instruction, unwrap a guard
    for ci, code in enumerate(codes):
        if code:
            yield {**case, "codes": codes[:ci] + [[]] + codes[ci + 1:]}
        for j in range(len(code) - 1, -1, -1):
            yield {**case, "codes": codes[:ci] + [code[:j] + code[j + 1:]] + codes[ci + 1:]}
    for ci, code in enumerate(codes):
        for j, ins in enumerate(code):
            if ins[0] == "timeout" and Fraction(ins[2]) not in (0, 1):
                for d in ("0", "1"):
                    yield {**case, "codes": codes[:ci] + [code[:j] + [[ins[0], ins[1], d, ins[3]]] + code[j + 1:]] + codes[ci + 1:]}
            if ins[0] == "yield" and ins[4] != "catch":
                yield {**case, "codes": codes[:ci] + [code[:j] + [ins[:4] + ["catch"]] + code[j + 1:]] + codes[ci + 1:]}
            if ins[0] == "probe":
                pass
    if case.get("num") == "fraction":
        yield {k: v for k, v in case.items() if k != "num"}
    if case["t0"] != "0/1" and case["t0"] != "0":
        yield {**case, "t0": "0"}
