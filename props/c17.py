"""C17 -- TCP sends only inside its window and adapts it by the Reno/CUBIC rules.

A REAL TCPPacketGenerator (TCPReno from random initial cwnd/ssthresh, TCPCubic from its defaults) is
driven in a real Environment with scripted histories of ACKs (new ACKs advancing by 1-5 segments,
runs of 1-8 duplicates, arbitrary dyadic RTT samples) and clock advances that let its Timers expire.
Every event (ack / timer expiry / StorePut callback / resumption of the sender process) is recorded
with the complete sender state after it.  coq/Tcp/Sender.v is stepped over the same events
(agree_term); the monitor evaluates the clauses of the property on the recorded before/after states.
"""
from fractions import Fraction as F

from vlib.framework import Prop
from vlib import coqfmt as cf
from props import tcp_common as T

# the repairs present in /repo (coq/Tcp/Sender.v: current)
import os
FX = os.environ.get("VERIF_TCP_FX", "current")
TOL = F(1, 10 ** 12)


def close(a, b):
    return abs(a - b) <= TOL * abs(b)


def cubic_expected(cub, cw, ss, rtt, now):
    """TCPCubic.ack_received in congestion avoidance (cw > ss) over exact fractions: (cnt, new epoch state);
    cnt None = the cube-root branch would be taken.  cub = [W_last_max, epoch_start, origin_point, d_min, W_tcp, K, ack_cnt]"""
    wlast, epoch, origin, dmin, wtcp, k = (T.fr(x) for x in cub[:6])
    ack = cub[6]
    dmin = (rtt if rtt < dmin else dmin) if dmin > 0 else rtt
    ack += 1
    if epoch <= 0:
        epoch = now
        if cw < wlast:
            return None, None
        k, origin = F(0), cw
        ack = 1
        wtcp = cw
    t = now + dmin - epoch
    target = origin + F(2, 5) * (t - k) ** 3
    cnt = cw / (target - cw) if target > cw else 100 * cw
    wtcp += 3 * F(1, 5) / (2 - F(1, 5)) * (F(ack) / cw)
    if wtcp > cw:
        mx = cw / (wtcp - cw)
        if cnt > mx:
            cnt = mx
    return cnt, [wlast, epoch, origin, dmin, wtcp, k, 0]


class C17(Prop):
    id = "C17"
    props_file = ["Props/C17.v", "Props/C17_Examples.v", "Props/C17_Bridge.v", "Props/C17_BridgeResend.v", "Props/C17_BridgeRun.v"]
    coq_imports = ["From ONL Require Import Base.Cmp Tcp.Sender Tcp.Cubic Tcp.AppSender."]
    n_quick = 700
    n_thorough = 12000
    shard = 60
    case_timeout = 30
    nontrivial_rule = ("scripted histories against a real TCPPacketGenerator: new ACKs advancing 1-5 segments, duplicate runs of "
                       "1-8, dyadic RTT samples, clock advances by multiples of the RTO in force (timer expiries), raw/odd ACK "
                       "numbers; Reno from random cwnd/ssthresh/MSS, CUBIC from defaults (and, marked cubic_preset, with "
                       "cwnd/ssthresh attributes preset). non-trivial = at least 8 recorded events including a new ACK and at "
                       "least one of: third duplicate, timer expiry, congestion-avoidance ACK. kind 'app' (a quarter of the cases): the same sender "
                       "with the Flow's application process -- scripted arrival_dist (dyadic inter-write times incl. 0) and size_dist (writes of "
                       "k*MSS, non-multiples, less than one MSS, zero), flow sizes with a trailing partial segment or below one MSS, start_time, "
                       "finish_time -- under ACK / duplicate / wait scripts, Reno or (30%) CUBIC (MSS 512, defaults or preset; cnt fed from the observation, recomputed exactly by the monitor); non-trivial = run() is resumed by an application write at least once "
                       "and something is transmitted. distinct by hash of the case")
    trusted_base = [
        "vlib/translate.py (Python ast, fail closed; tables in props/tcp_tie.py) regenerates coq/Gen/Extracted_tcpsender.v from "
        "TCPPacketGenerator.put / timeout_callback of the tree under test before every build; C17_gen_sender_put / _timeout "
        "(Props/C17_Bridge.v) bridge them to on_ack / on_timer of the hand-written model",
        "the sender is observed through a subclass defined in props/tcp_common.py (generator proxy around run(), instance-level "
        "wrappers of timeout_callback and of the private Store's _trigger_get, recorder as `out`); the full public state is read after every event",
        "correspondence is per transition: the model is stepped from the OBSERVED pre-state and must reproduce the observed "
        "post-state exactly on all integral/boolean fields, on the transmitted segments and on the timer table keys, and within a relative "
        "1e-12 on cwnd, ssthresh, rtt_estimate, est_deviation, rto and armed timeouts (binary64 rounding is outside the Q theorems)",
        "TCPCubic is modelled exactly over Q (coq/Tcp/Cubic.v: C = 2/5, beta = 1/5, (t-K)**3 an integer power; the cube-root branch is an explicit "
        "error proved unreachable); its epoch state (W_last_max, epoch_start, origin_point, d_min, W_tcp, K, ack_cnt) is read from the real object after "
        "every event and compared: exactly where the code copies values, W_tcp within 1e-9, cnt within 1e-5 relative "
        "(max_cnt = cwnd/(W_tcp - cwnd) is ill-conditioned in binary64: relative error about 3*cwnd^2*2^-52)",
        "props/tcp_common.py:translate_cc / translate_cubic (Python ast, fail-closed) regenerate coq/Gen/Extracted_cc.v from the CongestionControl / TCPReno / TCPCubic method bodies "
        "of the tree under test before every build; the C17_gen_* theorems bridge them to the hand-written model",
        "kind 'app': arrival_dist / size_dist are harness callables replaying the case's lists (then a default); the resumptions of run() are "
        "classified by the event it had yielded (Timeout = application write or start_time, StoreGet = window token); last_arrival, the pending "
        "Timeout's instant and the numbers of draws taken are part of the compared state (coq/Tcp/AppSender.v)",
        "the Timer is taken as specified by C19 (fires its callback once at creation+timeout unless stopped; restart from its own callback re-arms); "
        "the monitor checks expiry instants against the armed deadlines",
    ]
    assumptions = ["mss > 0; kind 'sender': flow.size a multiple of the MSS (or None), no arrival_dist/size_dist, no start_time, finish_time infinite; "
                   "kind 'app' (coq/Tcp/AppSender.v): any flow.size, scripted arrival_dist / size_dist (non-negative writes), start_time, finish_time",
                   "RTT samples are non-negative (ack.time <= now); initial rtt_estimate > 0"]
    partial = ["the translated-definition tie covers the CongestionControl / TCPReno / TCPCubic method bodies and TCPPacketGenerator.put / "
               "timeout_callback (Props/C17_Bridge.v); resend_packet and the loop that stops acknowledged timers are tied by Props/C17_BridgeResend.v (the loop as one generated iteration run with fuel); run() is a generator: vlib/translate_gen.py (tables props/tcprun_tie.py) cuts it at its yields and at the heads of its two loops into coq/Gen/Extracted_tcprun.v, and the C17_gen_tcp_run_* theorems (Props/C17_BridgeRun.v, proofs Tcp/RunBridge.v) prove every mode step of arun (Tcp/AppSender.v) equal to the generated loop head, effects and requests given their meaning by tcp_apply; that the kernel resumes run() at these points stays with the correspondence",
               "binary64 rounding: theorems are over Q; CUBIC's cnt is compared within 1e-5 (ill-conditioned max_cnt), W_tcp within 1e-9",
               "behaviour outside C17's text (stated, not judged): C17 speaks of whole segments only. What the code does with buffered data short of "
               "one MSS -- a short application write, or the trailing partial segment of a flow whose size is not a multiple of the MSS -- is: "
               "with next_seq < send_buffer < next_seq + MSS the remainder is never sent (the guard needs a whole MSS), run() keeps waiting on "
               "its store and never reaches `finished` (next_seq < flow.size forever), and it stops fetching from the application as well "
               "(the fetch loop runs only while next_seq >= send_buffer), so later writes are never taken: the state is permanent under every "
               "event (C17_app_partial_tail_waits, C17_app_partial_buffer_is_permanent; witness C17_ex_app_partial_tail; cases app:size=partial-tail "
               "and short size_dist writes reproduce it). With no application configured run() of the extended model is Sender.v's on_wake "
               "(C17_app_plain_is_on_wake), so the kind 'sender' theorems and C16's loop model are about the same run()"]

    # ---- generation -------------------------------------------------------------------------
    def gen_case(self, rng, tier):
        # a quarter of the cases: the sender with the Flow's application process (kind 'app')
        if rng.random() < 0.25:
            return self.gen_app(rng, tier)
        return self.gen_sender(rng, tier)

    def gen_app(self, rng, tier):
        """application-limited senders: scripted arrival_dist / size_dist, any flow size, start_time, finish_time"""
        alg = "reno" if rng.random() < 0.7 else "cubic"    # the fetch loop does not depend on the algorithm
        mss = rng.choice([512, 512, 100]) if alg == "reno" else 512
        case = {"kind": "app", "alg": alg, "mss": mss, "nseg": 0}
        if alg == "reno":
            case["cwnd"] = T.qj(F(mss * rng.choice([1, 2, 4, 4, 8])))
            case["ssth"] = T.qj(F(65535) if rng.random() < 0.5 else F(mss * rng.randint(1, 8)))
        else:
            # TCPCubic ignores its arguments (cwnd 512, ssthresh 65535); preset as in gen_sender to reach congestion avoidance.
            # The model is fed the `cnt` the real code computed (EAck's oracle); the monitor recomputes it exactly.
            case.update(cwnd="512/1", ssth="65535/1")
            if rng.random() < 0.5:
                case["cubic_preset"] = True
                case.update(cwnd=T.qj(F(512 * rng.choice([1, 2, 4, 8]))), ssth=T.qj(F(512 * rng.randint(0, 8))))
        case["rtt0"] = T.qj(rng.choice([F(3, 8), F(3, 8), F(1, 2), F(1, 4), F(1)]))
        r = rng.random()
        if r < 0.3:
            case["size"] = 0                                   # flow.size None
        elif r < 0.6:
            case["size"] = mss * rng.randint(1, 12)
        elif r < 0.85:
            case["size"] = mss * rng.randint(1, 8) + rng.choice([1, mss // 2, mss - 1])    # a trailing partial segment
        else:
            case["size"] = rng.randint(1, mss - 1)             # less than one segment
        case["start"] = T.qj(rng.choice([F(0), F(0), F(0), F(1, 4), F(1)]))
        case["finish"] = None if rng.random() < 0.75 else T.qj(rng.choice([F(1, 2), F(3), F(10)]))
        if rng.random() < 0.7:
            case["arr"] = [T.qj(rng.choice([F(0), F(0), F(1, 64), F(1, 4), F(1, 2), F(1), F(1), F(2)])) for _ in range(rng.randint(2, 12))]
            case["arr_default"] = T.qj(rng.choice([F(4096), F(4096), F(1)]))
        else:
            case["arr"], case["arr_default"] = None, None
        if case["arr"] is not None and case["finish"] is not None and rng.random() < 0.6:
            # boundary: a write lands exactly on finish_time
            k = rng.randint(1, len(case["arr"]))
            tot = T.fr(case["start"]) + sum(T.fr(x) for x in case["arr"][:k])
            if tot > 0:
                case["finish"] = T.qj(tot)
        if rng.random() < 0.6:
            sizes = [mss, mss, 2 * mss, 3 * mss, 4 * mss, mss // 2, mss + mss // 2, 1, 2 * mss + 1]
            if case["arr"] is not None:
                sizes.append(0)                                # a zero-byte write only where time passes between writes
            case["siz"] = [rng.choice(sizes) for _ in range(rng.randint(1, 10))]
            case["siz_default"] = rng.choice([mss, mss, 2 * mss, mss // 2])
        else:
            case["siz"], case["siz_default"] = None, None
        script = [["wait", "1/64"]]

        def sample():
            return T.qj(F(rng.randint(0, 96), 64))

        def dt():
            return T.qj(rng.choice([F(0), F(1, 64), F(1, 16), F(1, 4), F(1, 2), F(1)]))
        for _ in range(rng.randint(3, 12)):
            r = rng.random()
            if r < 0.35:
                script.append(["wait", T.qj(rng.choice([F(1, 4), F(1, 2), F(1), F(1), F(2), F(3)]))])
            elif r < 0.65:
                for _ in range(rng.randint(1, 3)):
                    k = rng.choice([1, 1, 1, 2, 3])
                    script.append(["new", dt(), k, rng.randint(0, k - 1), sample(), True])
            elif r < 0.85:
                for _ in range(rng.randint(1, 5)):
                    script.append(["dup", dt(), rng.randint(1, 4), sample()])
            else:
                script.append(["wait_rto", T.qj(rng.choice([F(1), F(3, 2), F(2)]))])
        script.append(["wait", "1/64"])
        case["script"] = script
        return case

    def gen_sender(self, rng, tier):
        alg = "reno" if rng.random() < 0.7 else "cubic"
        case = {"kind": "sender", "alg": alg}
        if alg == "reno":
            mss = rng.choice([512, 512, 512, 1, 2, 100, 1000, 1460])
            k = rng.choice([1, 1, 2, 2, 3, 4, 6, 8, 12, 20])
            cw = F(k * mss)
            if rng.random() < 0.3:
                cw += F(rng.randint(1, 7) * mss, 8)
            r = rng.random()
            if r < 0.35 and mss >= 512:
                ss = F(65535)
            elif r < 0.85:
                ss = F(rng.randint(0, 24) * mss, 2)
            else:
                ss = F(rng.randint(0, 4 * mss))
            case.update(mss=mss, cwnd=T.qj(cw), ssth=T.qj(ss))
        else:
            case.update(mss=512, cwnd="512/1", ssth="65535/1")
            if rng.random() < 0.4:
                case["cubic_preset"] = True
                case.update(cwnd=T.qj(F(512 * rng.choice([1, 2, 3, 5, 8]))), ssth=T.qj(F(512 * rng.randint(0, 12))))
        case["rtt0"] = T.qj(rng.choice([F(1), F(1), F(1, 2), F(1, 4), F(2), F(3, 8), F(5, 4), F(1, 16)]))
        case["nseg"] = rng.choice([0, 1, 2, 3, 5, 8, 13, 20, 40, 60, 60, 200])
        script = [["wait", "1/64"]]
        n = rng.randint(3, 14)

        def sample():
            r = rng.random()
            if r < 0.1:
                return "0/1"
            if r < 0.8:
                return T.qj(F(rng.randint(1, 96), 64))
            return T.qj(F(rng.randint(1, 640), 64))

        def dt():
            return T.qj(rng.choice([F(0), F(0), F(1, 64), F(1, 64), F(1, 16), F(1, 4), F(1, 2), F(1)]))

        for _ in range(n):
            r = rng.random()
            if r < 0.45:
                for _ in range(rng.randint(1, 4)):
                    k = rng.choice([1, 1, 1, 1, 2, 2, 3, 4, 5])
                    script.append(["new", dt(), k, rng.randint(0, k - 1) if rng.random() < 0.8 else rng.randint(0, 6),
                                   sample(), rng.random() < 0.9])
            elif r < 0.75:
                for _ in range(rng.randint(1, 8)):
                    script.append(["dup", dt(), rng.randint(1, 6), sample()])
            elif r < 0.93:
                script.append(["wait_rto", T.qj(rng.choice([F(1, 2), F(1), F(1), F(3, 2), F(2), F(3)]))])
            elif r < 0.97:
                m = case["mss"]
                script.append(["raw", dt(), rng.randint(0, 12 * m), rng.randint(0, 12) * m, sample()])
            else:
                script.append(["wait", T.qj(F(rng.randint(1, 256), 64))])
        script.append(["wait", "1/64"])
        case["script"] = script
        return case

    # ---- second tie: translated CongestionControl bodies (fail closed) ----------------------------
    def pre_build(self):
        from vlib import framework as fw
        T.write_extracted_cc(fw.REPO, fw.VERIF)
        from props import tcp_tie
        tcp_tie.write_extracted_tcpsender(fw.REPO, fw.COQ)
        from props import tcprun_tie
        tcprun_tie.write_extracted_tcprun(fw.REPO, fw.COQ)

    # ---- implementation ---------------------------------------------------------------------
    def run_impl(self, case):
        return T.run_sender_case(case)

    # ---- model ------------------------------------------------------------------------------
    def agree_term(self, case, obs):
        if case["kind"] == "app":
            init = f"(init {cf.q(case['cwnd'])} {cf.q(case['ssth'])} {cf.q(case['rtt0'])})"
            st0 = T.coq_state(obs["init"])
            ents = cf.lst([T.coq_aentry(e) for e in obs["entries"]], sep=";\n  ")
            return (f"state_exact {init} {st0} && app_eqb app0 {T.coq_app(obs['init'])} && "
                    f"check_atrace {FX} (Z.to_nat 5000) {T.coq_acfg(case)} {st0} {T.coq_app(obs['init'])}\n [{ents[1:-1]}]")
        cfg = T.coq_cfg(case)
        init = f"(init {cf.q(case['cwnd'])} {cf.q(case['ssth'])} {cf.q(case['rtt0'])})"
        st0 = T.coq_state(obs["init"])
        if case["alg"] == "cubic":
            # the exact CUBIC model: cnt is computed, not fed
            ents = cf.lst([T.coq_xentry(e) for e in obs["entries"]], sep=";\n  ")
            return (f"state_exact {init} {st0} && cubic_close cubic0 {T.coq_cubic(obs['init'])} && "
                    f"check_tracex {FX} {cfg} {st0} {T.coq_cubic(obs['init'])}\n [{ents[1:-1]}]")
        ents = cf.lst([T.coq_entry(e) for e in obs["entries"]], sep=";\n  ")
        # the same history also through the extended model (Tcp/AppSender.v) with no application process configured:
        # it must reproduce what the plain sender model reproduces
        plain = {**case, "size": case["nseg"] * case["mss"], "start": "0/1", "finish": None, "arr": None, "arr_default": None,
                 "siz": None, "siz_default": None}
        aents = cf.lst([T.coq_aentry(e) for e in obs["entries"]], sep=";\n  ")
        return (f"state_exact {init} {st0} && check_trace {FX} {cfg} {st0}\n [{ents[1:-1]}] && "
                f"check_atrace {FX} (Z.to_nat 5000) {T.coq_acfg(plain)} {st0} {T.coq_app(obs['init'])}\n [{aents[1:-1]}]")

    def model_term(self, case):
        return None

    # ---- the property as an oracle over the implementation's behaviour ------------------------
    def monitor(self, case, obs):
        msgs = []
        mss = case["mss"]
        is_app = case["kind"] == "app"
        fsize = case["nseg"] * mss
        pre = obs["init"]
        next_new = 0

        def q(p, k):
            return T.fr(p[k])

        def same(pre, post, keys, what, i):
            for k in keys:
                if pre[k] != post[k]:
                    msgs.append(f"{what}: event {i} changed {k}: {pre[k]} -> {post[k]}")
                    return

        def tkeys(p):
            return [[t[0], t[1]] for t in p["timers"]]

        for i, e in enumerate(obs["entries"]):
            post, ev = e["post"], e["ev"]
            if e["raised"] is not None:
                break                                  # an exception ends the run; "never raises" is C16's clause
            cw, ss = q(pre, "cwnd"), q(pre, "ssth")
            cw2, ss2 = q(post, "cwnd"), q(post, "ssth")
            tx = [(t[0], t[1]) for t in e["tx"]]
            if ev[0] == "ack":
                ackno = ev[1]
                sample = T.fr(ev[3])
                if ackno == pre["la"]:
                    d = pre["dup"] + 1
                    if post["dup"] != d:
                        msgs.append(f"dupack-count: event {i}: dupack {pre['dup']} -> {post['dup']} on a duplicate ACK")
                    same(pre, post, ["ns", "la", "srtt", "rttvar", "rto", "sent"], "dup-changes-state", i)
                    if tkeys(pre) != tkeys(post):
                        msgs.append(f"dup-changes-state: event {i} changed the timers")
                    if d < 3:
                        same(pre, post, ["cwnd", "ssth"], "early-dup-changes-window", i)
                        if tx:
                            msgs.append(f"early-dup-retransmits: event {i}: {tx} transmitted on duplicate number {d}")
                    elif d == 3:
                        want_ss = max(F(2 * mss), cw / 2)
                        if ss2 != want_ss or not close(cw2, want_ss + 3 * mss):
                            msgs.append(f"fast-retransmit-window: event {i}: third duplicate with cwnd {cw}: ssthresh {ss2} cwnd {cw2}, "
                                        f"expected {want_ss} and {want_ss + 3 * mss}")
                        if pre["la"] in pre["sent"] and tx != [(pre["la"], mss)]:
                            msgs.append(f"fast-retransmit-segment: event {i}: transmitted {tx}, the missing segment is {pre['la']}")
                        if pre["la"] not in pre["sent"] and tx:
                            msgs.append(f"fast-retransmit-segment: event {i}: transmitted {tx}, nothing is in flight at {pre['la']}")
                    else:
                        if ss2 != ss or not close(cw2, cw + mss):
                            msgs.append(f"more-dupacks-window: event {i}: duplicate number {d}: cwnd {cw} -> {cw2}, ssthresh {ss} -> {ss2}")
                        if any(t != (pre["la"], mss) for t in tx) or len(tx) > 1:
                            msgs.append(f"more-dupacks-segment: event {i}: transmitted {tx}")
                else:
                    # a new ACK.  After fast retransmit (>= 3 duplicates) it first deflates cwnd to ssthresh.
                    base = ss if pre["dup"] >= 3 else cw
                    if post["dup"] != 0 or post["la"] != ackno:
                        msgs.append(f"new-ack-marks: event {i}: dupack {post['dup']}, last_ack {post['la']} after new ACK {ackno}")
                    if ss2 != ss:
                        msgs.append(f"new-ack-ssthresh: event {i}: ssthresh {ss} -> {ss2} on a new ACK")
                    if base <= ss:
                        ok = close(cw2, base + mss)
                        want = f"{base + mss} (slow start)"
                    elif case["alg"] == "reno":
                        ok = close(cw2, base + F(mss * mss) / base)
                        want = f"{base + F(mss * mss) / base} (congestion avoidance)"
                    else:
                        # CUBIC: the cubic / TCP-friendly growth recomputed with exact fractions (C = 2/5, beta = 1/5),
                        # then the counting rule on it
                        exp_cnt, exp_cub = cubic_expected(pre["cub"], base, ss, sample, T.fr(e["t"]))
                        got_cub = post["cub"]
                        if exp_cnt is None:
                            msgs.append(f"cubic-growth: event {i}: cwnd {base} < W_last_max {pre['cub'][0]}: the cube-root branch was taken")
                        elif not (abs(q(post, "cnt") - exp_cnt) <= F(1, 10 ** 5) * abs(exp_cnt)
                                  and T.fr(got_cub[1]) == exp_cub[1] and close(T.fr(got_cub[2]), exp_cub[2])
                                  and T.fr(got_cub[3]) == exp_cub[3]
                                  and abs(T.fr(got_cub[4]) - exp_cub[4]) <= F(1, 10 ** 9) * abs(exp_cub[4])
                                  and T.fr(got_cub[5]) == 0 and got_cub[6] == exp_cub[6] and T.fr(got_cub[0]) == 0):
                            msgs.append(f"cubic-growth: event {i}: cwnd {base} t={e['t']} rtt {sample} state {pre['cub']}: cnt {float(q(post, 'cnt')):.9g} "
                                        f"state {got_cub}, expected cnt {float(exp_cnt):.9g} state {[str(x) for x in exp_cub]}")
                        if pre["ccnt"] > q(post, "cnt"):
                            ok = close(cw2, base + mss) and post["ccnt"] == 0
                        else:
                            ok = cw2 == base and post["ccnt"] == pre["ccnt"] + 1
                        want = f"counting rule with cwnd_cnt {pre['ccnt']} cnt {post['cnt']}"
                    if not ok:
                        tag = "deflate-rule" if pre["dup"] > 0 else "new-ack-window"
                        msgs.append(f"{tag}: event {i}: new ACK after {pre['dup']} duplicate(s), cwnd {cw} ssthresh {ss}: cwnd became {cw2}, "
                                    f"expected {want}")
                    err = sample - q(pre, "srtt")
                    srtt = q(pre, "srtt") + err / 8
                    rttvar = q(pre, "rttvar") + (abs(err) - q(pre, "rttvar")) / 4
                    if not (close(q(post, "srtt"), srtt) and close(q(post, "rttvar"), rttvar) and
                            close(q(post, "rto"), q(post, "srtt") + 4 * q(post, "rttvar")) and close(q(post, "rto"), srtt + 4 * rttvar)):
                        msgs.append(f"rto-formula: event {i}: sample {sample} srtt {pre['srtt']} rttvar {pre['rttvar']}: got srtt {post['srtt']} "
                                    f"rttvar {post['rttvar']} rto {post['rto']}, expected {srtt}, {rttvar}, {srtt + 4 * rttvar}")
                    same(pre, post, ["ns"], "new-ack-sends", i)
                    if tx:
                        msgs.append(f"new-ack-sends: event {i}: {tx} transmitted inside put()")
                    kept = [t for t in tkeys(pre) if t in tkeys(post)]
                    if kept != tkeys(post):
                        msgs.append(f"new-ack-timers: event {i}: timers {tkeys(pre)} -> {tkeys(post)}")
            elif ev[0] == "exp":
                pid = ev[1]
                armed = [t for t in pre["timers"] if t[0] == pid]
                if not armed:
                    msgs.append(f"expiry-unarmed: event {i}: timer {pid} fired but is not in the timer table")
                else:
                    if abs(T.fr(e["t"]) - T.fr(armed[0][2])) > F(1, 10 ** 9):
                        msgs.append(f"expiry-instant: event {i}: timer {pid} armed for {armed[0][2]} fired at {e['t']}")
                if cw2 != mss:
                    msgs.append(f"timeout-window: event {i}: cwnd {cw2} after a retransmission timeout, expected {mss}")
                if q(post, "rto") != 2 * q(pre, "rto"):
                    msgs.append(f"timeout-rto: event {i}: rto {pre['rto']} -> {post['rto']}, expected doubling")
                if pid in pre["sent"] and tx != [(pid, mss)]:
                    msgs.append(f"timeout-retransmit: event {i}: transmitted {tx}, expected segment {pid}")
                now = [t for t in post["timers"] if t[0] == pid]
                if not now or T.fr(now[0][1]) != q(post, "rto") or not close(T.fr(now[0][2]), T.fr(e["t"]) + q(post, "rto")):
                    msgs.append(f"timeout-rearm: event {i}: timer {pid} after expiry: {now}, expected timeout {post['rto']} from {e['t']}")
                same(pre, post, ["ssth", "dup", "la", "ns", "srtt", "rttvar", "sent", "ccnt"], "timeout-changes-state", i)
                if [t for t in tkeys(pre) if t[0] != pid] != [t for t in tkeys(post) if t[0] != pid]:
                    msgs.append(f"timeout-changes-state: event {i} changed other timers")
            elif ev[0] in ("wake", "appwake"):
                # one resumption of run(): by its Initialize / granted StoreGet, or (appwake) by the Timeout of start_time /
                # of the next application write.  The window is the one in force NOW (pre-state: nothing else runs in between).
                same(pre, post, ["cwnd", "ssth", "la", "dup", "srtt", "rttvar", "rto", "ccnt", "cnt"], "send-changes-state", i)
                ns = pre["ns"]
                for (pid, size) in tx:
                    if pid != ns or size != mss or pid != next_new:
                        msgs.append(f"send-numbering: event {i}: segment ({pid},{size}) emitted, expected ({ns},{mss})")
                        break
                    if is_app and pid + mss > post["sb"]:
                        msgs.append(f"send-guard: event {i}: segment {pid} sent with only {post['sb']} bytes buffered from the application: "
                                    f"next_seq + MSS = {pid + mss} exceeds min(buffered, last_ack + cwnd)")
                        break
                    if pid + mss > pre["la"] + cw or (fsize and pid + mss > fsize):
                        msgs.append(f"send-guard: event {i}: segment {pid} sent with last_ack {pre['la']} cwnd {cw} flow size {fsize}: "
                                    f"next_seq + MSS = {pid + mss} exceeds min(buffered, last_ack + cwnd)")
                        break
                    ns += mss
                    next_new += mss
                if post["ns"] != ns:
                    msgs.append(f"send-numbering: event {i}: next_seq {pre['ns']} -> {post['ns']} with {len(tx)} segments emitted")
                if tx and post["ns"] - post["la"] > cw2:
                    msgs.append(f"send-guard: event {i}: next_seq - last_ack = {post['ns'] - post['la']} exceeds cwnd {cw2} after sending")
                if is_app and case["siz"] is not None:
                    # buffered data = what the application has written: send_buffer grows by exactly the writes taken in this resumption
                    drawn = [(case["siz"][j] if j < len(case["siz"]) else case["siz_default"]) for j in range(pre["si"], post["si"])]
                    if post["sb"] - pre["sb"] != sum(drawn):
                        msgs.append(f"app-buffer: event {i}: send_buffer {pre['sb']} -> {post['sb']} although the application wrote {drawn}")
                if is_app and case["arr"] is not None and post["sleep"] is not None and post["skind"] == 2 and post["ai"] > 0:
                    # run() sleeps exactly until the next application write: last_arrival + the inter-write time just drawn
                    j = post["ai"] - 1
                    gap = T.fr(case["arr"][j] if j < len(case["arr"]) else case["arr_default"])
                    if T.fr(post["sleep"]) != T.fr(post["last_arr"]) + gap:
                        msgs.append(f"app-arrival-instant: event {i}: run() sleeps until {post['sleep']}, the next write is due at "
                                    f"{T.fr(post['last_arr']) + gap} (last write {post['last_arr']}, inter-write time {gap})")
                if is_app and ev[0] == "appwake" and pre["skind"] == 2 and T.fr(post["last_arr"]) != T.fr(e["t"]) and post["ai"] == pre["ai"]:
                    msgs.append(f"app-arrival-instant: event {i}: write taken at {e['t']} but last_arrival is {post['last_arr']}")
                if is_app:
                    stalls = (not post["fin"] and post["sleep"] is None and ns + mss <= pre["la"] + cw and ns + mss <= post["sb"])
                else:
                    stalls = not post["fin"] and not (fsize and ns >= fsize) and ns + mss <= pre["la"] + cw and (not fsize or ns + mss <= fsize)
                if stalls:
                    msgs.append(f"send-guard-stalls: event {i}: stopped sending at next_seq {ns} although next_seq + MSS <= "
                                f"min(buffered, last_ack + cwnd) (last_ack {pre['la']}, cwnd {cw})")
                newt = tkeys(post)[len(tkeys(pre)):]
                if tkeys(post)[:len(tkeys(pre))] != tkeys(pre) or newt != [[p, pre["rto"]] for (p, _) in tx]:
                    msgs.append(f"send-timers: event {i}: timers {tkeys(pre)} -> {tkeys(post)} for segments {tx} (rto {pre['rto']})")
            elif ev[0] == "cb":
                same(pre, post, ["cwnd", "ssth", "la", "dup", "srtt", "rttvar", "rto", "ns", "sent", "timers"], "storecb-changes-state", i)
                if tx:
                    msgs.append(f"storecb-sends: event {i}: {tx}")
            else:
                msgs.append(f"stray-transmission: event {i}: {e['tx']} outside any sender event")
            if cw2 < mss:
                msgs.append(f"cwnd-below-mss: event {i} ({ev[0]}): cwnd {cw2} < MSS {mss}")
            pre = post
            if len(msgs) >= 4:
                break
        return msgs[:4]

    def nontrivial(self, case, obs):
        ents = obs["entries"]
        if case["kind"] == "app":
            return any(e["ev"][0] == "appwake" for e in ents) and any(e["tx"] for e in ents) and len(ents) >= 5
        if len(ents) < 8:
            return False
        pre = obs["init"]
        newack = other = False
        for e in ents:
            if e["ev"][0] == "ack":
                if e["ev"][1] != pre["la"]:
                    newack = True
                    if T.fr(pre["cwnd"]) > T.fr(pre["ssth"]):
                        other = True
                elif pre["dup"] == 2:
                    other = True
            elif e["ev"][0] == "exp":
                other = True
            pre = e["post"]
        return newack and other

    def shrink(self, case):
        s = case["script"]
        for i in range(len(s)):
            yield {**case, "script": s[:i] + s[i + 1:]}
        if len(s) > 4:
            yield {**case, "script": s[:len(s) // 2]}
        for i, st in enumerate(s):
            if st[0] == "new" and st[2] > 1:
                t = [list(x) for x in s]
                t[i][2] = 1
                t[i][3] = 0
                yield {**case, "script": t}
        if case["nseg"] > 8:
            yield {**case, "nseg": 8}
        if case["kind"] == "app":
            for k in ("arr", "siz"):
                if case[k]:
                    for i in range(len(case[k])):
                        yield {**case, k: case[k][:i] + case[k][i + 1:]}
            if case["finish"] is not None:
                yield {**case, "finish": None}
            if T.fr(case["start"]) != 0:
                yield {**case, "start": "0/1"}

    def describe(self, case, obs):
        keys = [f"sender:{case['alg']}" + (":preset" if case.get("cubic_preset") else "")]
        if case["kind"] == "app":
            keys = ["app", f"app:{case['alg']}" + (":preset" if case.get("cubic_preset") else ""),
                    "app:arrival_dist" if case["arr"] is not None else "app:no-arrival_dist",
                    "app:size_dist" if case["siz"] is not None else "app:no-size_dist",
                    "app:size=" + ("none" if not case["size"] else "multiple" if case["size"] % case["mss"] == 0 else "partial-tail")]
            if case["finish"] is not None:
                keys.append("app:finish_time")
            if T.fr(case["start"]) != 0:
                keys.append("app:start_time")
            if any(e["ev"][0] == "appwake" and e["tx"] for e in obs["entries"]):
                keys.append("app:sends-on-application-write")
        pre = obs["init"]
        seen = set()
        for e in obs["entries"]:
            k = e["ev"][0]
            if k == "ack":
                if e["ev"][1] != pre["la"]:
                    ca = T.fr(pre["cwnd"]) > T.fr(pre["ssth"])
                    if pre["dup"] >= 3:
                        seen.add("ev:new-ack-after-fast-retransmit")
                    elif pre["dup"] > 0:
                        seen.add("ev:new-ack-after-1-2-dups")
                    else:
                        seen.add("ev:new-ack-congestion-avoidance" if ca else "ev:new-ack-slow-start")
                else:
                    d = pre["dup"] + 1
                    seen.add("ev:dup-1-2" if d < 3 else "ev:dup-3" if d == 3 else "ev:dup-4+")
            elif k == "exp":
                seen.add("ev:timer-expiry")
            elif k == "wake" and e["tx"]:
                seen.add("ev:send")
            if e["raised"]:
                seen.add("ev:raised-" + e["raised"][0])
            pre = e["post"]
        keys += sorted(seen)
        keys.append("events=%d" % (10 * (len(obs["entries"]) // 10)))
        return keys


PROP = C17()
