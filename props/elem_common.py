"""Reusable harness for network-element properties (layer E of DESIGN.md, sections 2.4/2.5).

It drives ONE real element object (or a small composition) inside a real onl.sim.Environment,
injects a scripted arrival workload through driver processes, steps the kernel itself with
env.step(), and records the execution as the flat action log the Coq element models replay:

    ["adv", t]                      the clock moved to t (exact rational, "n/d")
    ["put", uid, [outs...]]         a driver called element.put(packet uid); outs emitted during the call
    ["step", label, [outs...]]      the kernel processed one event that belongs to the element;
                                    label = [event type name, target]  (see classify)
    outs: ["out", tag, uid]  with tag the name of the downstream tap that received the packet

API
    T(x)                    exact time: accepts int / "n/d" / Fraction, returns a float that is exactly that dyadic value
    new_packet(spec, uid)   real onl Packet from {"id","flow","size","time","src"} with .uid
    pkt_coq(spec, uid)      the Coq term (mkp uid id flow size time)
    Harness(env)            .tap(tag) -> downstream recorder; .watch_store(name, store); .attach(element)
                            .add_driver(bursts, late=0)   bursts = [[time, [uid, ...]], ...]
                            .run(max_steps)  -> log ; .packets[uid] real packets; .after_action(cb) sampling hook
    gen_workload(rng, ...)  random bursty arrival workloads on a dyadic time lattice

Exactness: choose all times/rates so that every float the element computes is exact (dyadic); the
log converts floats with fractions.Fraction (exact).  A non-finite or non-exact value is a harness error.
"""
from fractions import Fraction

from vlib import coqfmt as cf


def T(x):
    f = cf.frac(x)
    v = float(f)
    assert Fraction(v) == f, f"time {x} is not exactly representable"
    return v


def qs(x):
    """exact 'n/d' string of a Python number produced by the implementation"""
    return cf.qjson(x)


def new_packet(spec, uid):
    from onl.packet import Packet
    p = Packet(time=T(spec.get("time", 0)), size=spec["size"], packet_id=spec["id"], src=spec.get("src", "s"),
               flow_id=spec["flow"], payload=spec.get("payload"))
    p.uid = uid
    return p


def pkt_coq(spec, uid):
    return f"(mkp {cf.nat(uid)} {cf.z(spec['id'])} {cf.z(spec['flow'])} {cf.z(spec['size'])} {cf.q(spec.get('time', 0))})"


def pkt_fields(p):
    """identifying header fields, for the 'forwarded unchanged' clause of C08"""
    return [p.packet_id, p.flow_id, str(p.src), p.size, qs(p.time), p.payload]


class Tap:
    def __init__(self, h, tag):
        self.h, self.tag = h, tag
        self.got = []

    def put(self, p):
        uid = getattr(p, "uid", None)
        self.got.append(p)
        self.h._emit(["out", self.tag, uid, pkt_fields(p), id(p) == id(self.h.packets.get(uid))])


class Harness:
    def __init__(self, env):
        from onl.sim.events import Process
        self.env = env
        self.Process = Process
        self.log = []
        self.cur_outs = None
        self.packets = {}
        self.specs = {}
        self.stores = {}
        self.drivers = []
        self.driver_procs = set()
        self.samples = []
        self._after = None
        self.element = None
        self.raised = None

    # ---- wiring ---------------------------------------------------------------------------------
    def tap(self, tag="out"):
        return Tap(self, tag)

    def watch_store(self, name, store):
        self.stores[id(store)] = name

    def attach(self, element):
        self.element = element

    def after_action(self, cb):
        """cb() -> JSON value sampled after every logged action (appended to the action entry)"""
        self._after = cb

    def add_packets(self, specs):
        for uid, spec in specs.items():
            uid = int(uid)
            self.specs[uid] = spec
            self.packets[uid] = new_packet(spec, uid)

    def add_driver(self, bursts, late=0, target=None):
        """bursts: [[time, [uid...]], ...] increasing times; `late` zero-delay yields before each burst
        push the puts behind the element's own events of that instant"""
        env = self.env

        def drv():
            for (t, uids) in bursts:
                d = T(t) - env.now
                if d > 0:
                    yield env.timeout(d)
                for _ in range(late):
                    yield env.timeout(0)
                for uid in uids:
                    self._do_put(target or self.element, uid)
        p = env.process(drv())
        self.driver_procs.add(p)
        return p

    def _do_put(self, element, uid):
        pkt = self.packets[uid]
        outer = self.cur_outs
        self.cur_outs = []
        try:
            element.put(pkt)
        finally:
            outs = self.cur_outs
            self.cur_outs = outer
        self._action(["put", uid, outs])

    def _emit(self, out):
        if self.cur_outs is not None:
            self.cur_outs.append(out)
        else:
            self.log.append(["stray-out", out])

    def _action(self, entry):
        if self._after is not None:
            entry = entry + [self._after()]
        self.log.append(entry)

    @staticmethod
    def pname(p):
        return getattr(p._generator, "__name__", "proc")

    # ---- classification of the event the kernel is about to process ----------------------------------
    def classify(self, ev):
        """-> None for events that belong only to the drivers, else [type name, target]
        target: store name for StorePut/StoreGet of a watched store; otherwise the sorted names
        (generator function names) of the element processes the event will resume/start."""
        tn = type(ev).__name__
        res = getattr(ev, "resource", None)
        if res is not None and id(res) in self.stores:
            return [tn, self.stores[id(res)]]
        procs = []
        for cb in (ev.callbacks or []):
            owner = getattr(cb, "__self__", None)
            if isinstance(owner, self.Process) and getattr(cb, "__name__", "") == "_resume":
                procs.append(owner)
        if tn == "Process" and ev in self.driver_procs:
            return None
        elem_procs = [p for p in procs if p not in self.driver_procs]
        if not elem_procs:
            if tn == "Process" and ev not in self.driver_procs:
                return [tn, "end:" + self.pname(ev)]          # an element process ended with nobody waiting
            return None
        names = sorted(self.pname(p) for p in elem_procs)
        if tn == "Process":
            return [tn, "end:" + self.pname(ev) + ">" + ",".join(names)]
        return [tn, ",".join(names)]

    # ---- the stepping loop ----------------------------------------------------------------------------
    def run(self, max_steps=20000, until=None):
        env = self.env
        n = 0
        while env._queue and n < max_steps:
            t = env._queue[0][0]
            if until is not None and t > until:
                break
            ev = env._queue[0][3]
            label = self.classify(ev)
            if t != env.now:
                self._action(["adv", qs(t)])
            n += 1
            self.steps_started = n               # read by hang_guard: progress = this number changes between two alarms
            self.cur_outs = []
            try:
                env.step()
            except Exception as e:  # the element (or the kernel) raised: the properties say it never does
                self.raised = [type(e).__name__, str(e)[:300]]
                outs = self.cur_outs
                self.cur_outs = None
                self._action(["raise", label, outs, self.raised])
                break
            outs = self.cur_outs
            self.cur_outs = None
            if label is not None:
                self._action(["step", label, outs])
            elif outs:
                self._action(["step", ["driver-out", ""], outs])
        self.exhausted = not env._queue
        return self.log


# ---- workloads ---------------------------------------------------------------------------------------

LATTICE = [Fraction(0), Fraction(1, 4), Fraction(1, 2), Fraction(1), Fraction(3, 2), Fraction(2), Fraction(3), Fraction(5)]


def gen_workload(rng, flows=(0,), n_max=12, sizes=(64, 128, 256, 512, 1000, 1500), horizon=16, burst_p=0.35,
                 ndrivers=None, gaps=None):
    """-> {"packets": {uid: spec}, "drivers": [{"late": k, "bursts": [[t,[uid..]],..]}]}
    times on a dyadic lattice so that coincidences with element deadlines are frequent"""
    gaps = gaps or LATTICE
    n = rng.randint(1, n_max)
    nd = ndrivers or rng.choice([1, 1, 2, 3])
    packets = {}
    drivers = []
    uid = 0
    per = [[] for _ in range(nd)]
    for d in range(nd):
        t = Fraction(0) if rng.random() < 0.5 else rng.choice(gaps)
        k = max(1, n // nd + rng.randint(-1, 1))
        bursts = []
        while k > 0 and t <= horizon:
            b = 1
            while b < k and rng.random() < burst_p:
                b += 1
            uids = []
            for _ in range(b):
                fl = rng.choice(list(flows))
                # creation time: usually the put instant, sometimes earlier (the packet travelled or waited before)
                created = t if rng.random() < 0.6 else max(Fraction(0), t - rng.choice(gaps))
                packets[str(uid)] = {"id": uid + 1, "flow": fl, "size": rng.choice(list(sizes)), "time": cf.qjson(created),
                                     "src": "src%d" % d}
                uids.append(uid)
                uid += 1
            bursts.append([cf.qjson(t), uids])
            k -= b
            t = t + rng.choice(gaps[1:])
        drivers.append({"late": rng.choice([0, 0, 0, 1, 2, 3]), "bursts": bursts})
    return {"packets": packets, "drivers": drivers}


def shrink_workload(w):
    """smaller workloads: drop a driver, a burst, a packet; lower lateness"""
    ds = w["drivers"]
    for i in range(len(ds)):
        if len(ds) > 1:
            yield _clean({**w, "drivers": ds[:i] + ds[i + 1:]})
    for i, d in enumerate(ds):
        for j in range(len(d["bursts"])):
            nb = d["bursts"][:j] + d["bursts"][j + 1:]
            yield _clean({**w, "drivers": ds[:i] + [{**d, "bursts": nb}] + ds[i + 1:]})
        for j, (t, uids) in enumerate(d["bursts"]):
            for k in range(len(uids)):
                if len(uids) > 1:
                    nb = d["bursts"][:j] + [[t, uids[:k] + uids[k + 1:]]] + d["bursts"][j + 1:]
                    yield _clean({**w, "drivers": ds[:i] + [{**d, "bursts": nb}] + ds[i + 1:]})
        if d["late"] > 0:
            yield {**w, "drivers": ds[:i] + [{**d, "late": d["late"] - 1}] + ds[i + 1:]}


def _clean(w):
    used = {str(u) for d in w["drivers"] for (_, uids) in d["bursts"] for u in uids}
    return {**w, "packets": {k: v for k, v in w["packets"].items() if k in used}}


class hang_guard:
    """Bounds a Harness.run() against element processes that loop without yielding (env.step() never returns).
    A SIGALRM-driven guard that fires only when the SAME kernel step is still running at `grace` consecutive alarms
    (first alarm after `first` seconds, then every `every`): a run that is merely slow -- a loaded machine, a long garbage
    collection in a process with a big heap -- keeps making steps and is never interrupted (a guard on the total run time
    misfired in the thorough tier of C03).  The alarm repeats, so every spinning process of a multi-instance case gets its
    own exception; the previous handler and timer are restored on exit."""

    def __init__(self, h, make_exc, first=2.0, every=1.0, grace=2):
        self.h, self.make_exc, self.first, self.every, self.grace = h, make_exc, first, every, grace

    def __enter__(self):
        import signal
        import time
        self.signal, self.time = signal, time
        self.seen, self.stuck = None, 0

        def handler(signum, frame):
            cur = getattr(self.h, "steps_started", 0)
            if cur == self.seen:
                self.stuck += 1
            else:
                self.seen, self.stuck = cur, 1
            if self.stuck >= self.grace:
                self.stuck = self.grace - 1          # the next spinning process is interrupted one alarm later
                raise self.make_exc()
        self.old_h = signal.signal(signal.SIGALRM, handler)
        self.t0 = time.time()
        self.old_t = signal.setitimer(signal.ITIMER_REAL, self.first, self.every)
        return self

    def __exit__(self, *a):
        left = max(self.old_t[0] - (self.time.time() - self.t0), 0.05) if self.old_t[0] else 0
        self.signal.signal(self.signal.SIGALRM, self.old_h)
        self.signal.setitimer(self.signal.ITIMER_REAL, left, 1.0 if left else 0)
        return False
