"""C19 -- a Timer fires exactly at its expiry, and stop/restart always take effect.
Model: coq/Elem/Timer.v (timed automaton over the family of timer processes; actions = API calls by
foreign processes + the kernel steps that belong to the timer).  Theorems: coq/Props/C19.v.

The harness drives a REAL onl.utils.Timer in a real Environment: 1-3 foreign driver processes issue
stop()/restart(tau) at scripted instants (before / exactly at / after expiries; created before or after
the Timer and with `late` zero-delay yields so that the same-instant order varies), a scripted callback
records (env.now, args, kwargs) and itself calls restart/stop as the case says.  The kernel is stepped
with env.step(); the event about to be processed is classified (Initialize / Timeout / Interruption /
Process event of timer process i, or a driver event) and the action sequence is logged for the model.

The monitor does not use the model: it recomputes from the history of calls when the callback must fire."""
from fractions import Fraction

from vlib.framework import Prop
from vlib import coqfmt as cf
from props import elem_common as ec

F = Fraction
TAUS = [F(1, 4), F(1, 2), F(1), F(3, 2), F(2), F(3), F(5)]
FTAUS = [F(1, 10), F(2, 10), F(3, 10), F(7, 10), F(11, 10), F(23, 10), F(1, 3)]     # not binary fractions


def _exact_or_float(case):
    """how case numbers become Python floats: exactly (dyadic cases) or by rounding (float-mode cases)"""
    if case.get("float"):
        return lambda x: float(cf.frac(x))
    return ec.T
MAX_STEPS = 600


# ---- argument values ------------------------------------------------------------------------------
# The rule Timer.__init__ implements (and coq/Elem/TimerArgs.v states): args is None -> no positional argument;
# an instance of list or tuple (subclasses included) -> its elements; ANYTHING else -> exactly one positional
# argument, the object itself (a str, bytes, a dict, a set, a range, a generator, 0, '', False ...).
# A case describes the object by a JSON "spec":  ["int", n] ["bool", b] ["float", repr] ["frac", "n/d"] ["complex", re, im]
# ["str", s] ["bytes", hex] ["bytearray", hex] ["none"] ["list", [specs]] ["tuple", [specs]] ["namedtuple", [specs]]
# ["listsub", [specs]] ["deque", [specs]] ["set", [specs]] ["frozenset", [specs]] ["dict", [[kspec, vspec]..]]
# ["range", n] ["gen", n] ["object"].   Old case format: kind scalar/list/tuple with plain ints in "v".
LISTLIKE = ("list", "tuple", "namedtuple", "listsub")       # instances of list or tuple


class _LSub(list):
    """a list subclass"""


class _Plain:
    """an object with nothing special"""


_NT = {}


def _namedtuple(n):
    import collections
    if n not in _NT:
        _NT[n] = collections.namedtuple("NT%d" % n, ["f%d" % i for i in range(n)])
    return _NT[n]


def _build(spec):
    import collections
    k = spec[0]
    if k == "int":
        return int(spec[1])
    if k == "bool":
        return bool(spec[1])
    if k == "float":
        return float(spec[1])
    if k == "frac":
        return Fraction(spec[1])
    if k == "complex":
        return complex(float(spec[1]), float(spec[2]))
    if k == "str":
        return spec[1]
    if k == "bytes":
        return bytes.fromhex(spec[1])
    if k == "bytearray":
        return bytearray.fromhex(spec[1])
    if k == "none":
        return None
    if k == "list":
        return [_build(x) for x in spec[1]]
    if k == "tuple":
        return tuple(_build(x) for x in spec[1])
    if k == "namedtuple":
        return _namedtuple(len(spec[1]))(*[_build(x) for x in spec[1]])
    if k == "listsub":
        return _LSub(_build(x) for x in spec[1])
    if k == "deque":
        return collections.deque(_build(x) for x in spec[1])
    if k == "set":
        return {_build(x) for x in spec[1]}
    if k == "frozenset":
        return frozenset(_build(x) for x in spec[1])
    if k == "dict":
        return {_build(a): _build(b) for a, b in spec[1]}
    if k == "range":
        return range(int(spec[1]))
    if k == "gen":
        return (i for i in range(int(spec[1])))
    if k == "object":
        return _Plain()
    raise ValueError(spec)


def _canon(x):
    """type-tagged JSON image of a Python object (1, True and 1.0 differ; a list and a tuple differ)"""
    import json
    import collections
    tn = type(x).__name__
    if x is None or isinstance(x, (bool, str)):
        return [tn, x]
    if isinstance(x, int):
        return [tn, int(x)]
    if isinstance(x, float):
        return [tn, x.hex()]
    if isinstance(x, complex):
        return [tn, [x.real.hex(), x.imag.hex()]]
    if isinstance(x, Fraction):
        return [tn, f"{x.numerator}/{x.denominator}"]
    if isinstance(x, (bytes, bytearray)):
        return [tn, x.hex()]
    if isinstance(x, (list, tuple, collections.deque)):
        return [tn, [_canon(e) for e in x]]
    if isinstance(x, (set, frozenset)):
        return [tn, sorted((_canon(e) for e in x), key=json.dumps)]
    if isinstance(x, dict):
        return [tn, sorted(([_canon(a), _canon(b)] for a, b in x.items()), key=json.dumps)]
    if isinstance(x, range):
        return [tn, [x.start, x.stop, x.step]]
    return [tn, None]


def _args_spec(a):
    """the spec of the object given as `args` (None: args not given)"""
    k = a["kind"]
    if k == "none":
        return None
    if k == "obj":
        return a["spec"]
    if k == "scalar":
        return ["int", a["v"]]
    return [k, [["int", x] for x in a["v"]]]


def _kwargs_spec(case):
    kw = case.get("kwargs")
    if kw is None:
        return None
    return {k: (v if isinstance(v, list) else ["int", v]) for k, v in kw.items()}


def _expected_specs(spec):
    """THE RULE, on specs: the positional arguments the callback must receive"""
    if spec is None:
        return []
    if spec[0] in LISTLIKE:
        return list(spec[1])
    return [spec]


def _args_class(a):
    """histogram key"""
    spec = _args_spec(a)
    if spec is None:
        return "none"
    if spec[0] in LISTLIKE:
        return spec[0] + ("(nested)" if any(x[0] in ("list", "tuple") for x in spec[1]) else "") + ":%d" % min(len(spec[1]), 3)
    if spec[0] in ("str", "bytes", "bytearray"):
        n = len(spec[1]) if spec[0] == "str" else len(spec[1]) // 2
        return "scalar-%s:len%s" % (spec[0], n if n < 2 else "2+")
    falsy = spec in (["int", 0], ["bool", False], ["float", "0.0"], ["frac", "0/1"]) or (spec[0] in ("dict", "set", "frozenset", "deque") and not spec[1]) or spec[1:] == [0]
    return "scalar-" + spec[0] + ("(falsy)" if falsy else "")


def _pure_int(spec):
    return spec[0] == "int"


def _coq_codes(bs):
    return cf.lst([cf.z(b) for b in bs])


def _canon_coq(c):
    """canonical image -> term of type pyval (coq/Elem/TimerArgs.v)"""
    tn, v = c
    if tn == "NoneType":
        return "VNone"
    if tn == "bool":
        return f"(VBool {cf.b(v)})"
    if tn == "int":
        return f"(VInt {cf.z(v)})"
    if tn == "float":
        return f"(VFloat {cf.q(float.fromhex(v))})"
    if tn == "Fraction":
        return f"(VFrac {cf.q(v)})"
    if tn == "str":
        return f"(VStr {_coq_codes([ord(ch) for ch in v])})"
    if tn == "bytes":
        return f"(VBytes {_coq_codes(bytes.fromhex(v))})"
    if tn == "bytearray":
        return f"(VByteArray {_coq_codes(bytes.fromhex(v))})"
    seqs = {"list": "VList", "tuple": "VTuple", "_LSub": "VListSub", "deque": "VDeque", "set": "VSet", "frozenset": "VFrozenSet"}
    if tn in seqs or tn.startswith("NT"):
        con = seqs.get(tn, "VNamedTuple")
        return f"({con} {cf.lst([_canon_coq(e) for e in v])})"
    if tn == "dict":
        return f"(VDict {cf.lst([cf.pair(_canon_coq(a), _canon_coq(b)) for a, b in v])})"
    if tn == "range":
        return f"(VRange {cf.z(v[0])} {cf.z(v[1])} {cf.z(v[2])})"
    if tn == "generator":
        return "VGen"
    return "(VOther 0)"


def _args_coq(case):
    """the argument of timer0: the automaton treats arguments as opaque tokens; a token is the integer itself when every
    argument is an int, otherwise the position of the argument in the normalised list (the normalisation itself is
    compared separately, against py_norm_args)"""
    spec = _args_spec(case["args"])
    if spec is None:
        return "ANone"
    exp = _expected_specs(spec)
    if all(_pure_int(x) for x in exp):
        vals = [x[1] for x in exp]
    else:
        vals = list(range(len(exp)))
    if spec[0] in LISTLIKE:
        return f"(AList {cf.lst([cf.z(x) for x in vals])})"
    return f"(AScalar {cf.z(vals[0])})"


def _fire_tokens(case, f):
    """the arguments one callback invocation received, as the model's tokens (-1: not the expected argument)"""
    exp = [_canon(_build(x)) for x in _expected_specs(_args_spec(case["args"]))] if case["args"]["kind"] != "none" else []
    ints = all(c[0] == "int" for c in exp)
    out = []
    for i, c in enumerate(f["args"]):
        if i < len(exp) and c == exp[i]:
            out.append(c[1] if ints else i)
        else:
            out.append(c[1] if (ints and c[0] == "int") else -1)
    return out


def _op_coq_call(op):
    return "CStop" if op[0] == "stop" else f"(CRestart {cf.q(op[1])})"


# ------------------------------------------------------------------------------------------------
# second tie (DESIGN 2.6): Timer.stop / Timer.restart translated from the tree under test on every run
# (vlib/translate.py, fail closed) into coq/Gen/Extracted_timer.v; bridged to do_stop / do_restart of
# Elem/Timer.v by coq/Elem/TimerBridge.v; obligations in Props/C19_Bridge.v.

TIMER_STATE = [("start_time", "Q"), ("timeout", "Q"), ("expire_time", "Q"), ("stopped", "bool")]
TIMER_CONS = [("FxInterrupt", ""),             # self.proc.interrupt("restart timer")
              ("FxNewProc", "")]               # self.proc = self.env.process(self.run(self.env))
TIMER_READS = [("self.env.now", "now", "Q"),
               ("timeout", "tau", "Q"),                                            # the argument of restart()
               ("math.nextafter(self.env.now, math.inf)", "next_instant", "Q"),    # _arm(): used only when now + tau rounds to now
               ("self.env.active_process is self.proc", "own_callback", "bool", "volatile"),
               ("self.proc.is_alive", "proc_alive", "bool", "volatile")]
TIMER_FX = [('self.proc.interrupt("restart timer")', "FxInterrupt", []),
            ("self.proc = self.env.process(self.run(self.env))", "FxNewProc", [])]


def extracted_timer(repo):
    import os
    from vlib import translate as tr
    path = os.path.join(repo, "onl", "utils", "timer.py")
    specs = [tr.FnSpec(path, "Timer", "stop", "gen_Timer_stop", reads=TIMER_READS, effects=TIMER_FX),
             tr.FnSpec(path, "Timer", "restart", "gen_Timer_restart", reads=TIMER_READS, effects=TIMER_FX, inline=["_arm"])]
    return tr.gen_module("onl/utils/timer.py: Timer.stop, Timer.restart", "timer_st", "t_", TIMER_STATE, "timer_fx",
                         TIMER_CONS, specs)


# Timer.run, the timer process, cut at its program points (vlib/translate_gen.py): the yield, and the CALL-OUT to the
# user's callback (which may call restart()/stop() on this very timer: the fields are re-read after it);
# Gen/Extracted_timer_run.v; bridged to TProcInit / TProcTimeout / TProcInterrupt of Elem/Timer.v by
# coq/Elem/TimerRunBridge.v; obligations in Props/C19_BridgeRun.v
TIMER_RUN_READS = [("self.env.now", "now", "Q"), ("env.now", "now", "Q"),
                   ("self.auto_restart", "auto_restart", "bool"),
                   ("math.nextafter(self.env.now, math.inf)", "next_instant", "Q")]   # _arm(), see TIMER_READS
TIMER_RUN_REQUESTS = [("self.env.timeout(_1)", "RqTimeout", ["Q"], None), ("env.timeout(_1)", "RqTimeout", ["Q"], None)]
TIMER_RUN_CALLOUTS = [("self.timeout_callback(*self.args, **self.kwargs)", "CoCallback", [])]


def extracted_timer_run(repo):
    import os
    from vlib import translate_gen as tg
    spec = tg.GenSpec(os.path.join(repo, "onl", "utils", "timer.py"), "Timer", "run", "gen_Timer_run",
                      reads=TIMER_RUN_READS, requests=TIMER_RUN_REQUESTS, callouts=TIMER_RUN_CALLOUTS, inline=["_arm"],
                      interrupt="Interrupt")
    return tg.gen_run_module("onl/utils/timer.py: Timer.run", spec, TIMER_STATE, "timer_run_st", "tr_", "timer_run_fx", [],
                             [("RqTimeout", "(d : Q)")], call_cons=[("CoCallback", "")], types="timer_run")


# Timer.__init__: the check of the timeout, the first arming, and the NORMALISATION OF `args` (is None / isinstance(args,
# (list, tuple)) are observations; the rebinding of the local `args` and the store into self.args are effects, in program
# order); Gen/Extracted_timer_init.v; bridged to timer0 of Elem/Timer.v and py_stored_args of Elem/TimerArgs.v by
# coq/Elem/TimerInitBridge.v; obligations in Props/C19_BridgeInit.v.  Any other test on `args` (isinstance(args, Sequence),
# `args or []`, hasattr(args, "__iter__") ...) does not match the observation table: the translation fails closed.
TIMER_INIT_CONS = [("IxRaiseValueError", ""), ("IxArgsEmpty", ""), ("IxArgsWrap", ""), ("IxStoreArgs", ""), ("IxStoreKwargs", ""),
                   ("IxNewProc", "")]
TIMER_INIT_READS = [("self.env.now", "now", "Q"), ("timeout", "tau", "Q"),
                    ("math.nextafter(self.env.now, math.inf)", "next_instant", "Q"),
                    ("args is None", "args_is_none", "bool"),
                    ("isinstance(args, (list, tuple))", "args_is_list_or_tuple", "bool")]
TIMER_INIT_FX = [('raise ValueError("timeout should be positive value")', "IxRaiseValueError", []),
                 ("args = []", "IxArgsEmpty", []), ("args = [args]", "IxArgsWrap", []), ("self.args = args", "IxStoreArgs", []),
                 ("self.kwargs = kwargs if kwargs is not None else {}", "IxStoreKwargs", []),
                 ("self.proc = env.process(self.run(env))", "IxNewProc", [])]
TIMER_INIT_IGNORE = ["self.env = env", "self.timeout_callback = timeout_callback", "self.auto_restart = auto_restart"]


def extracted_timer_init(repo):
    import os
    from vlib import translate as tr
    path = os.path.join(repo, "onl", "utils", "timer.py")
    spec = tr.FnSpec(path, "Timer", "__init__", "gen_Timer_init", reads=TIMER_INIT_READS, effects=TIMER_INIT_FX, inline=["_arm"],
                     ignore_stmts=TIMER_INIT_IGNORE)
    return tr.gen_module("onl/utils/timer.py: Timer.__init__", "timer_init_st", "ti_", TIMER_STATE, "timer_init_fx", TIMER_INIT_CONS,
                         [spec])


class C19(Prop):
    id = "C19"
    props_file = ["Props/C19.v", "Props/C19_Bridge.v", "Props/C19_BridgeRun.v", "Props/C19_Examples.v", "Props/C19_Args.v", "Props/C19_BridgeInit.v"]
    coq_imports = ["From ONL Require Import Base.Cmp Elem.Timer Elem.TimerArgs."]
    n_quick = 600
    n_thorough = 12000
    shard = 150
    case_timeout = 20
    nontrivial_rule = ("one Timer (one-shot or auto-restart, timeout and creation instant on a dyadic lattice, args of every shape: None, scalars "
                       "(ints incl. 0 and 2**70, bools, floats, Fractions, complex, str and bytes of length 0 / 1 / several, bytearray, "
                       "a plain object), containers that are not list/tuple (dict, set, frozenset, range, deque, a generator object; "
                       "empty and non-empty), lists / tuples / a namedtuple / a list subclass with 0-3 elements incl. nested lists and "
                       "None elements; kwargs absent, {}, or with falsy values) driven by 1-3 foreign processes whose stop()/restart(tau) calls are placed by a "
                       "predictor before, exactly at and after the expiries (drivers created before or after the Timer, 0-3 zero-delay "
                       "yields, so a call at the expiry instant lands before or after the timer's Timeout event), calls made directly "
                       "after construction (Initialize still pending), several calls per instant, and a scripted callback that calls "
                       "restart/stop on its own timer; non-trivial = at least two calls in total and at least one of: a call at an "
                       "instant where the timer fires or would have fired, two calls in one instant, a call from the callback, a call "
                       "while Initialize is pending; distinct by hash of the case")
    trusted_base = [
        "kernel fact K1 (C01 about the kernel model, assumed by the automaton's admissibility): inside one instant URGENT events "
        "(Initialize, Interruption) are processed before NORMAL ones (Timeout), and everything due at an instant is processed before "
        "the clock moves",
        "kernel fact K2 (C04): the Initialize of a process is processed before any Interruption aimed at it",
        "every observed execution is checked admissible for the automaton (timer_agree fails on the first inadmissible action); that "
        "the real kernel only produces admissible executions of Timer.run is checked per run, not proved",
        "the callback is a scripted function that returns normally; it is identified with the list of calls it makes on its own timer",
        "float rounding is outside the theorems: all instants and timeouts are dyadic, every float the Timer computes is exact",
        "vlib/translate.py (Python ast, fail closed; observation/effect tables above the plugin class in props/c19.py) regenerates "
        "coq/Gen/Extracted_timer.v from Timer.stop / Timer.restart of the tree under test before every build; the C19_gen_* theorems "
        "(Props/C19_Bridge.v) bridge them to do_stop / do_restart of the hand-written model",
        "vlib/translate_gen.py (same subset and tables, plus the cut of a generator body at its yields and listed call-outs; tables "
        "TIMER_RUN_* in props/c19.py) regenerates coq/Gen/Extracted_timer_run.v from Timer.run before every build; the "
        "C19_gen_timer_run_* theorems (Props/C19_BridgeRun.v, proofs Elem/TimerRunBridge.v) prove TProcInit / TProcTimeout / "
        "TProcInterrupt of the automaton equal to the generated functions (the except-Interrupt arm = the resume-with-Interrupt "
        "function; the callback a call-out after which the fields are re-read); that the kernel resumes the generator exactly "
        "at these steps is K1/K2 plus the per-run correspondence",
        "vlib/translate.py also regenerates coq/Gen/Extracted_timer_init.v from Timer.__init__ (tables TIMER_INIT_*): the tests "
        "`args is None` and `isinstance(args, (list, tuple))` are observations, the rebinding of `args` and the store into self.args "
        "effects; C19_gen_timer_init_* (Props/C19_BridgeInit.v) prove the stored value = py_stored_args and the fields = timer0; that "
        "the two observations mean what Elem/TimerArgs.v says (which Python objects are instances of list or tuple) is checked by the "
        "per-run comparison of self.args with py_norm_args over objects of every shape",
    ]
    assumptions = [
        "timeouts given to Timer() and restart() are positive (the constructor enforces it; restart(tau<=0) never fires and is outside C19)",
        "the callback does not raise (an exception of the callback escapes env.step() as for any crashed process; not a Timer defect)",
        "restart() of a one-shot timer whose callback already ran (not from the callback itself) is outside 'still pending': the code does "
        "not re-arm; the monitor accepts either, the model proves what the code does",
        "after stop() a restart() does not un-stop the timer ('after stop() it never fires again' is read as final)",
    ]
    partial = []

    # ---- second tie: regenerate the translated bodies before the Coq build (fail closed) -----------
    def pre_build(self):
        import os
        from vlib import framework as fw
        from vlib import translate as tr
        tr.write_if_changed(os.path.join(fw.COQ, "Gen", "Extracted_timer.v"), extracted_timer(fw.REPO))
        tr.write_if_changed(os.path.join(fw.COQ, "Gen", "Extracted_timer_run.v"), extracted_timer_run(fw.REPO))
        tr.write_if_changed(os.path.join(fw.COQ, "Gen", "Extracted_timer_init.v"), extracted_timer_init(fw.REPO))

    # ---- generation -----------------------------------------------------------------------------
    def gen_case(self, rng, tier):
        fl = rng.random() < 0.12          # non-dyadic instants: monitor only (float rounding is outside the model)
        taus = FTAUS if fl else TAUS
        t0 = rng.choice([F(0), F(1, 10), F(7, 10), F(33, 10)] if fl else [F(0), F(0), F(1, 2), F(1), F(3)])
        tmo = rng.choice(taus)
        auto = rng.random() < 0.5
        ak = rng.choice(["none", "scalar", "scalar", "list", "list", "tuple", "obj", "obj", "obj", "obj"])
        if ak == "none":
            args = {"kind": "none"}
        elif ak == "scalar":
            args = {"kind": "scalar", "v": rng.randint(-3, 40)}
        elif ak == "obj":
            args = {"kind": "obj", "spec": self._rand_args_spec(rng)}
        else:
            args = {"kind": ak, "v": [rng.randint(-3, 40) for _ in range(rng.randint(0, 3))]}
        r = rng.random()
        if r < 0.75:
            kwargs = None
        elif r < 0.85:
            kwargs = {"k": rng.randint(0, 9)}
        else:       # falsy values, several keys, the empty dict
            kwargs = rng.choice([{}, {"k": ["int", 0]}, {"k": ["str", ""]}, {"k": ["none"]}, {"k": ["bool", False], "j": ["list", []]},
                                 {"k": ["float", "0.0"], "j": ["str", "x"]}, {"k": ["tuple", []]}, {"k": ["dict", []]}])

        def rand_op():
            return ["stop"] if rng.random() < 0.22 else ["restart", cf.qjson(rng.choice(taus))]

        # callback script: calls made at the k-th invocation
        cb = []
        for _ in range(rng.randint(0, 5)):
            r = rng.random()
            if r < 0.5:
                cb.append([])
            elif r < 0.85:
                cb.append([rand_op()])
            else:
                cb.append([rand_op(), rand_op()])
        immediate = []
        if rng.random() < 0.2:
            immediate = [rand_op() for _ in range(rng.randint(1, 2))]
        # place the foreign calls with a rough predictor of the expiries
        nops = rng.choice([0, 1, 1, 2, 2, 3, 4, 5, 6])
        e = t0 + tmo
        period = tmo
        stopped = False
        nf = 0
        for op in immediate:
            if op[0] == "stop":
                stopped = True
            else:
                e, period = t0 + F(op[1]), F(op[1])
        t = t0
        timeline = []
        steps = [F(1, 10), F(3, 10), F(7, 10), F(11, 10)] if fl else [F(1, 4), F(1, 2), F(1), F(3, 2)]
        for _ in range(nops):
            style = rng.random()
            if e is None or stopped:
                cand = t + rng.choice([F(0)] + steps)
            elif style < 0.4:
                cand = e
            elif style < 0.6:
                cand = e - rng.choice(steps[:3])
            elif style < 0.75:
                cand = e + rng.choice(steps[:3])
            elif style < 0.88:
                cand = t
            else:
                cand = t + rng.choice(steps)
            cand = max(cand, t)
            # the timer fires (by prediction) at every expiry strictly before cand, and maybe at cand
            while e is not None and not stopped and (e < cand or (e == cand and rng.random() < 0.5)) and nf < 40:
                ft = e
                e = ft + period if auto else None
                for c in (cb[nf] if nf < len(cb) else []):
                    if c[0] == "stop":
                        stopped = True
                    else:
                        e, period = ft + F(c[1]), F(c[1])
                nf += 1
            op = rand_op()
            timeline.append((cand, op))
            if op[0] == "stop":
                stopped = True
            elif e is not None:
                e, period = cand + F(op[1]), F(op[1])
            t = cand
        nd = rng.choice([1, 1, 2, 3]) if timeline else rng.choice([0, 1])
        drivers = [{"late": rng.choice([0, 0, 0, 1, 2, 3]), "ops": []} for _ in range(nd)]
        for (tt, op) in timeline:
            d = rng.choice(drivers)
            if d["ops"] and d["ops"][-1][0] == cf.qjson(tt):
                d["ops"][-1][1].append(op)
            else:
                d["ops"].append([cf.qjson(tt), [op]])
        horizon = max([t0 + 4 * tmo, t + 6] + [t0 + 2])
        return {"kind": "timer", "float": fl, "t0": cf.qjson(t0), "timeout": cf.qjson(tmo), "auto": auto, "args": args, "kwargs": kwargs,
                "pre": rng.random() < 0.5, "immediate": immediate, "drivers": drivers, "cb": cb,
                "horizon": cf.qjson(min(horizon, t0 + 40))}

    @staticmethod
    def _rand_leaf(rng):
        return rng.choice([["int", 0], ["int", 1], ["int", rng.randint(-3, 40)], ["int", 2 ** 70], ["bool", False], ["bool", True],
                           ["float", "0.0"], ["float", "0.25"], ["float", "-1.5"], ["float", "1e+300"], ["frac", "0/1"], ["frac", "7/3"],
                           ["complex", "0.0", "1.0"], ["str", ""], ["str", "x"], ["str", "seg-512"], ["str", "flow A"],
                           ["str", "\u00e9\u4e2d"], ["bytes", ""], ["bytes", "00"], ["bytes", "010203"], ["bytearray", "0a0b"],
                           ["none"], ["object"]])

    def _rand_args_spec(self, rng):
        """the object given as `args`: scalars of every kind (falsy ones, strings and bytes of length 0, 1, several),
        containers that are NOT list/tuple (one argument), list/tuple and their subclasses (the argument list), nesting"""
        r = rng.random()
        leaf = lambda: self._rand_leaf(rng)          # noqa: E731
        if r < 0.45:
            x = leaf()
            while x[0] == "none":                    # args=None means: no arguments (kind "none")
                x = leaf()
            return x
        if r < 0.62:                                 # not list / tuple: ONE argument
            k = rng.choice(["dict", "set", "frozenset", "range", "gen", "deque", "dict", "range"])
            if k == "dict":
                return ["dict", [[["str", "a"], leaf()], [["int", 1], ["list", [leaf()]]]][:rng.randint(0, 2)]]
            if k in ("range", "gen"):
                return [k, rng.choice([0, 1, 3])]
            if k == "deque":
                return ["deque", [leaf() for _ in range(rng.randint(0, 3))]]
            return [k, [x for x in (["int", 1], ["str", "s"], ["int", 5])][:rng.randint(0, 3)]]
        k = rng.choice(["list", "tuple", "namedtuple", "listsub", "list", "tuple"])
        n = rng.choice([0, 1, 1, 2, 3])
        elems = []
        for _ in range(n):
            q = rng.random()
            if q < 0.6:
                elems.append(leaf())
            elif q < 0.8:
                elems.append([rng.choice(["list", "tuple"]), [leaf() for _ in range(rng.randint(0, 2))]])     # nested
            else:
                elems.append(rng.choice([["str", "ab"], ["dict", []], ["set", []], ["range", 2], ["list", [["list", []]]]]))
        return [k, elems]

    # ---- implementation -------------------------------------------------------------------------
    def run_impl(self, case):
        from onl.sim import Environment
        from onl.sim.events import Process
        from onl.utils.timer import Timer
        T = _exact_or_float(case)
        t0 = T(case["t0"])
        env = Environment(initial_time=t0)
        log = []
        st = {"timer": None, "procs": [], "nfire": 0, "fires": None, "raised": None, "given": None, "self_args": None}

        def track():
            tm = st["timer"]
            if tm is not None and not any(p is tm.proc for p in st["procs"]):
                st["procs"].append(tm.proc)

        def sample():
            tm = st["timer"]
            track()
            return [ec.qs(tm.expire_time), bool(tm.stopped), sum(1 for p in st["procs"] if p.is_alive), bool(tm.proc.is_alive),
                    ec.qs(tm.timeout), ec.qs(tm.start_time), len(st["procs"])]

        def do_op(op):
            tm = st["timer"]
            if op[0] == "stop":
                tm.stop()
            else:
                tm.restart(T(op[1]))

        def callback(*a, **kw):
            k = st["nfire"]
            st["nfire"] += 1
            given = st["given"]
            ident = []
            for i, x in enumerate(a):
                try:
                    el = (x is given[i]) if isinstance(given, (list, tuple)) and i < len(given) else False
                except Exception:
                    el = False
                ident.append([x is given, bool(el)])
            rec = {"t": ec.qs(env.now), "args": [_canon(x) for x in a], "ident": ident,
                   "kwargs": {k: _canon(v) for k, v in kw.items()}, "calls": [],
                   "self_is_cur": env.active_process is st["timer"].proc}
            if st["fires"] is not None:
                st["fires"].append(rec)
            else:
                log.append(["stray-fire", rec])
            for op in (case["cb"][k] if k < len(case["cb"]) else []):
                rec["calls"].append(op)
                do_op(op)        # an exception propagates into Timer.run, as it would for any callback

        def foreign(op):
            try:
                do_op(op)
            except Exception as e:     # the property says: never raises
                st["raised"] = [type(e).__name__, str(e)[:200]]
                log.append(["raise", ["call"] + op, st["raised"]])
                return False
            log.append(["call", op, sample()])
            return True

        def driver(d):
            for (t, ops) in d["ops"]:
                dl = T(t) - env.now
                if dl > 0:
                    yield env.timeout(dl)
                for _ in range(d["late"]):
                    yield env.timeout(0)
                for op in ops:
                    if st["raised"] or not foreign(op):
                        return

        def make_timer():
            kw = {}
            ks = _kwargs_spec(case)
            if ks is not None:
                kw["kwargs"] = {k: _build(v) for k, v in ks.items()}
            spec = _args_spec(case["args"])
            if spec is not None:
                st["given"] = kw["args"] = _build(spec)
            st["timer"] = Timer(env, T(case["timeout"]), callback, auto_restart=bool(case["auto"]), **kw)
            track()
            st["self_args"] = _canon(st["timer"].args)
            log.append(["new", sample()])
            for op in case["immediate"]:
                if not foreign(op):
                    break

        if case["pre"]:
            for d in case["drivers"]:
                env.process(driver(d))
            make_timer()
        else:
            make_timer()
            for d in case["drivers"]:
                env.process(driver(d))

        def classify(ev):
            tn = type(ev).__name__
            procs = st["procs"]

            def idx(p):
                for i, q in enumerate(procs):
                    if q is p:
                        return i
                return None
            if tn == "Interruption":
                i = idx(getattr(ev, "process", None))
                return None if i is None else ["intr", i]
            if tn == "Process":
                i = idx(ev)
                return None if i is None else ["end", i]
            for cb in (ev.callbacks or []):
                owner = getattr(cb, "__self__", None)
                if isinstance(owner, Process) and getattr(cb, "__name__", "") == "_resume":
                    i = idx(owner)
                    if i is not None:
                        return ["init" if tn == "Initialize" else ("tmo" if tn == "Timeout" else "other:" + tn), i]
            return None

        horizon = T(case["horizon"])
        n = 0
        end_time = None
        while env._queue and not st["raised"]:
            t = env._queue[0][0]
            if t > horizon or n >= MAX_STEPS:
                end_time = ec.qs(t)
                break
            ev = env._queue[0][3]
            label = classify(ev)
            if t != env.now:
                log.append(["adv", ec.qs(t)])
            n += 1
            st["fires"] = []
            try:
                env.step()
            except Exception as e:
                st["raised"] = [type(e).__name__, str(e)[:200]]
                log.append(["raise", label, st["raised"], st["fires"]])
                st["fires"] = None
                break
            fires = st["fires"]
            st["fires"] = None
            if label is not None:
                log.append(["step", label, fires, sample()])
            elif fires:
                log.append(["stray-step", fires])
        return {"log": log, "raised": st["raised"], "exhausted": not env._queue, "end_time": end_time, "steps": n,
                "capped": n >= MAX_STEPS, "self_args": st["self_args"]}

    # ---- log -> model actions -------------------------------------------------------------------
    @staticmethod
    def _sample(s, raised=False):
        return (f"(Build_tsample {cf.q(s[0])} {cf.b(s[1])} {cf.nat(s[2])} {cf.b(s[3])} {cf.q(s[4])} {cf.q(s[5])} {cf.nat(s[6])} {cf.b(raised)})")

    def _actions(self, case, obs):
        acts = []
        for e in obs["log"]:
            k = e[0]
            fs = "[]"
            if k == "new":
                continue
            if k == "adv":
                acts.append((f"TAdvance {cf.q(e[1])}", None))
                continue
            if k == "call":
                a = "TStop" if e[1][0] == "stop" else f"TRestart {cf.q(e[1][1])}"
                s = e[2]
            elif k == "step":
                (what, i), fires, s = e[1], e[2], e[3]
                if what == "init":
                    a = f"TProcInit {cf.nat(i)}"
                elif what == "intr":
                    a = f"TProcInterrupt {cf.nat(i)}"
                elif what == "end":
                    a = f"TProcEnd {cf.nat(i)}"
                elif what == "tmo":
                    if len(fires) > 1:
                        return None, "two callbacks in one kernel step"
                    calls = fires[0]["calls"] if fires else []
                    a = f"TProcTimeout {cf.nat(i)} {cf.lst([_op_coq_call(c) for c in calls])}"
                    fs = cf.lst([f"({cf.q(f['t'])}, {cf.lst([cf.z(x) for x in _fire_tokens(case, f)])})" for f in fires])
                else:
                    return None, f"unexpected kernel step {e[1]}"
                if what != "tmo" and fires:
                    return None, f"callback ran during {e[1]}"
            else:
                return None, f"unexpected log entry {e[:2]}"
            acts.append((a, (fs, s)))
        # an Advance carries no sample of its own: the public fields are those of the previous sample
        out = []
        last = None
        for e in obs["log"]:
            if e[0] == "new":
                last = e[1]
        for (a, x) in acts:
            if x is None:
                out.append(f"({a}, [], {self._sample(last)})")
            else:
                out.append(f"({a}, {x[0]}, {self._sample(x[1])})")
                last = x[1]
        return out, None

    def _init_term(self, case):
        return f"(timer0 fixed {cf.q(case['t0'])} {cf.q(case['timeout'])} {cf.b(case['auto'])} {_args_coq(case)})"

    def agree_term(self, case, obs):
        if case.get("float"):
            return None        # binary64 rounding is outside the model (Q); these cases are judged by the monitor only
        if obs["raised"] or obs.get("capped"):
            return "false"
        acts, err = self._actions(case, obs)
        if acts is None:
            return f"false (* {err} *)"
        # the normalisation of `args` in __init__: self.args (observed right after construction) against py_norm_args
        spec = _args_spec(case["args"])
        sa = obs.get("self_args")
        if sa is None or not isinstance(sa[1], list) or sa[0] in ("set", "frozenset", "dict", "range", "complex"):
            return "false (* self.args is not a list or tuple *)"
        given = "VNone" if spec is None else _canon_coq(_canon(_build(spec)))
        norm = f"pyl_eqb (py_norm_args {given}) {cf.lst([_canon_coq(e) for e in sa[1]])}"
        # the sample after Advance repeats the previous one, which is right only if Advance changes no public field
        return f"andb ({norm})\n    (timer_agree fixed {self._init_term(case)} {cf.lst(acts, sep=';\n    ')})"

    def model_term(self, case):
        return None

    # ---- the property as an oracle over the implementation's behaviour -------------------------------
    def monitor(self, case, obs):
        if obs["raised"]:
            return [f"timer-raises: {obs['raised']} escaped (no history of stop/restart calls may raise)"]
        msgs = []
        # dyadic cases: exact rationals.  float-mode cases: the same binary64 operations the code performs
        # (start_time + timeout, env.now + self.timeout); logged instants are exact images of the floats
        N = (lambda x: float(cf.frac(x))) if case.get("float") else F
        t0, tmo = N(case["t0"]), N(case["timeout"])
        auto = bool(case["auto"])
        # the rule for `args` (see _expected_specs): None -> (), list/tuple -> its elements, anything else -> the object itself
        aspec = _args_spec(case["args"])
        want_args = [_canon(_build(x)) for x in _expected_specs(aspec)]
        want_listlike = aspec is not None and aspec[0] in LISTLIKE
        want_kw = {k: _canon(_build(v)) for k, v in (_kwargs_spec(case) or {}).items()}
        now = t0
        e = t0 + tmo          # pending expiry, None = nothing pending
        maybe = False         # restart() of an expired one-shot timer: C19 does not say whether it re-arms
        stopped = False
        period = tmo
        last_fire = None

        def missed(upto):
            nonlocal e
            if e is not None and not stopped and not maybe and e < upto:
                msgs.append(f"timer-missed-expiry: nothing fired at {e} (armed, not stopped, not restarted) and the clock went on to {upto}")
                e = None

        for en in obs["log"]:
            k = en[0]
            if k == "adv":
                t = N(en[1])
                if t < now:
                    msgs.append("timer-time-decreases: clock went back")
                missed(t)
                now = t
            elif k == "call":
                op = en[1]
                if op[0] == "stop":
                    stopped = True
                elif not stopped:
                    if e is not None and not maybe:
                        e, period = now + N(op[1]), N(op[1])
                    else:
                        e, period, maybe = now + N(op[1]), N(op[1]), True
            elif k in ("stray-fire", "stray-step"):
                msgs.append(f"timer-fires-outside-its-process: {en[1]}")
            elif k == "step":
                fires = en[2]
                if en[1][0] != "tmo" and fires:
                    msgs.append(f"timer-fires-outside-timeout: callback ran while the kernel processed {en[1]}")
                for j, f in enumerate(fires):
                    ft = N(f["t"])
                    if ft != now:
                        msgs.append(f"timer-clock: callback saw env.now={ft} but the kernel is at {now}")
                    if stopped:
                        msgs.append(f"timer-fires-after-stop: callback at {now} although stop() was called before")
                    elif last_fire == now or j > 0:
                        msgs.append(f"timer-double-fire: second callback at instant {now}")
                    elif e is None:
                        msgs.append(f"timer-fires-unarmed: callback at {now} but no expiry is pending (one expiry fired twice or a cancelled "
                                    f"expiry fired)")
                    elif now != e:
                        msgs.append(f"timer-fires-at-wrong-instant: callback at {now}, the pending expiry is {e}")
                    if f["args"] != want_args or f["kwargs"] != want_kw:
                        msgs.append(f"timer-wrong-args: callback got args={f['args']} kwargs={f['kwargs']}, expected {want_args} {want_kw} "
                                    f"(args given: {aspec}; None -> no argument, a list/tuple -> its elements, anything else -> ONE "
                                    f"argument, the object itself)")
                    elif not all((idn[1] if want_listlike else idn[0]) for idn in f.get("ident", [])):
                        msgs.append(f"timer-wrong-args: the callback received equal but not the given objects (identity {f['ident']}) "
                                    f"for args {aspec}")
                    last_fire = now
                    maybe = False
                    e = now + period if auto else None
                    for c in f["calls"]:
                        if c[0] == "stop":
                            stopped = True
                        else:
                            e, period = now + N(c[1]), N(c[1])
        if obs.get("capped"):
            msgs.append("timer-livelock: the timer kept the kernel busy for %d steps without reaching the horizon" % obs["steps"])
        else:
            missed(N(obs["end_time"]) if obs["end_time"] is not None else N(10 ** 9))
        out, seen = [], set()
        for m in msgs:
            s = m.split(":")[0]
            if s not in seen:
                seen.add(s)
                out.append(m)
        return out[:4]

    # ---- statistics -------------------------------------------------------------------------------
    def nontrivial(self, case, obs):
        if obs["raised"]:
            return False
        feats, ncalls, calls_at = self._simple_features(case, obs)
        return ncalls >= 2 and bool(feats)

    def _simple_features(self, case, obs):
        """features of the execution, from the log only"""
        feats = set()
        now = F(case["t0"])
        calls_at = {}
        fire_at = set()
        ncalls = 0
        ninit = 0          # Initialize events processed
        nprocs = 1
        prev = None        # the sample before the current entry
        for en in obs["log"]:
            k = en[0]
            if k == "adv":
                now = F(en[1])
            elif k == "call":
                ncalls += 1
                if nprocs > ninit:
                    feats.add("call-while-Initialize-pending")
                if calls_at.get(now):
                    feats.add("two-calls-in-one-instant")
                calls_at[now] = calls_at.get(now, 0) + 1
                if now in fire_at:
                    feats.add("call-at-expiry-instant-after-the-callback")
                elif prev is not None and F(prev[0]) == now and prev[3] and not prev[1]:
                    feats.add("call-at-expiry-instant-before-the-timeout")
                if en[1][0] == "restart" and en[2][6] == nprocs and not en[2][1]:
                    feats.add("restart-of-expired-one-shot(no re-arm)")
                nprocs = en[2][6]
            elif k == "step":
                what, i = en[1]
                if what == "init":
                    ninit += 1
                elif what == "intr":
                    feats.add("interruption-processed")
                elif what == "tmo":
                    if en[2]:
                        fire_at.add(now)
                        for c in en[2][0]["calls"]:
                            ncalls += 1
                            feats.add("callback-calls-" + c[0])
                        if len(en[2][0]["calls"]) > 1:
                            feats.add("two-calls-in-one-instant")
                    else:
                        feats.add("timeout-of-stopped-timer")
                        if calls_at.get(now):
                            feats.add("call-at-expiry-instant-before-the-timeout(stopped)")
            if k in ("new", "call", "step"):
                prev = en[-1]
        return feats, ncalls, calls_at

    def shrink(self, case):
        ds = case["drivers"]
        for i in range(len(ds)):
            yield {**case, "drivers": ds[:i] + ds[i + 1:]}
        for i, d in enumerate(ds):
            for j in range(len(d["ops"])):
                yield {**case, "drivers": ds[:i] + [{**d, "ops": d["ops"][:j] + d["ops"][j + 1:]}] + ds[i + 1:]}
            for j, (t, ops) in enumerate(d["ops"]):
                for k in range(len(ops)):
                    if len(ops) > 1:
                        nb = d["ops"][:j] + [[t, ops[:k] + ops[k + 1:]]] + d["ops"][j + 1:]
                        yield {**case, "drivers": ds[:i] + [{**d, "ops": nb}] + ds[i + 1:]}
            if d["late"] > 0:
                yield {**case, "drivers": ds[:i] + [{**d, "late": d["late"] - 1}] + ds[i + 1:]}
        for i in range(len(case["immediate"])):
            yield {**case, "immediate": case["immediate"][:i] + case["immediate"][i + 1:]}
        cb = case["cb"]
        if cb:
            yield {**case, "cb": cb[:-1]}
        for i in range(len(cb)):
            if cb[i]:
                yield {**case, "cb": cb[:i] + [cb[i][:-1]] + cb[i + 1:]}
        if case.get("kwargs") is not None:
            yield {**case, "kwargs": None}
        if case["args"]["kind"] in ("list", "tuple") and len(case["args"]["v"]) > 1:
            yield {**case, "args": {**case["args"], "v": case["args"]["v"][:1]}}
        if F(case["t0"]) != 0:
            yield {**case, "t0": "0/1"}

    def describe(self, case, obs):
        keys = ["timer", "timer:float-mode(monitor only)" if case.get("float") else "timer:dyadic(model+monitor)",
                "timer:" + ("auto-restart" if case["auto"] else "one-shot"), "timer:args=" + _args_class(case["args"]),
                "timer:drivers=%d" % len(case["drivers"])]
        if case["pre"]:
            keys.append("timer:drivers-created-before-timer")
        if case.get("kwargs") is not None:
            keys.append("timer:kwargs")
        if not obs["raised"]:
            feats, ncalls, _ = self._simple_features(case, obs)
            keys += ["timer:" + f for f in sorted(feats)]
            keys.append("timer:calls=%d" % min(ncalls, 8))
            nf = sum(len(en[2]) for en in obs["log"] if en[0] == "step")
            keys.append("timer:firings=%d" % min(nf, 8))
        return keys


PROP = C19()
